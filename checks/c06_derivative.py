"""C06 - ``derivative(x)`` is the Frechet derivative of the operator at x.

Generator: (a) a *zoo* of every operator class that implements
``derivative`` with its options (all ten ``ufunc_ops`` with a closed-form
derivative and the five flagged linear, ``PowerOperator`` on spaces and
fields, ``PointwiseNorm/Inner/Sum``, ``ComplexModulus(Squared)``,
``RealPart/ImagPart/ComplexEmbedding``, ``Norm/Dist/InnerProductOperator``,
``ConstantOperator``, finite-difference operators and ``ResizingOperator``
with non-zero constant padding (affine), gradient operators that offer a
Hessian, the ten ufunc *functionals* with a gradient on the real / complex
field, ``LinDeformFixedDisp`` (linear), ...) with base points kept at a generated margin from the documented
non-differentiable set; (b) nonlinear expression trees from the typed grammar
of ``vlib.exprs`` (sum / chain / product rules, left and right scalar and
vector multiples, affine shifts, powers, explicit ``tmp`` arguments) including
``ProductSpaceOperator / Broadcast / Reduction / DiagonalOperator`` with
nonlinear blocks; (c) stratum *shared*: product-space operators whose blocks
are one and the same (nonlinear) operator object -- ``ReductionOperator(op,
n)``, ``DiagonalOperator(op, n)``, ``BroadcastOperator(op, n)``, the object
passed n times, a ``ProductSpaceOperator`` matrix holding it at several
positions -- alone and inside compositions / sums (every block must be
linearised at its own component of the base point); (d) stratum *func*: true
``Functional`` expressions (functional arithmetic ``a*f, f*a, f+g, f+c, f*g,
f/g, f*A, f*v, f.translated(v)``, ``FunctionalQuadraticPerturb`` over its
option grid, ``BregmanDistance``; linear, affine = linear + constant through
every syntax, scalings / translations applied twice in a row (merged by the
constructors), and nonlinear) differentiated themselves
(``Functional.derivative``) and as operands of the generic operator classes
whose derivative rules consult the operand's ``is_linear`` (``y * F``,
``MultiplyOperator o F``, ``OperatorSum / LeftScalarMult / RightVectorMult /
PointwiseProduct / Comp`` built by constructor); (e) exhaustively, every
ufunc operator without a closed-form derivative must raise
``OpNotImplementedError`` and every ufunc *functional* on a field offers a
derivative (closed-form gradient), is its own derivative (linear) or raises
``NotImplementedError``.
Oracle: central-difference ladder with an observed-order test against
``op.derivative(x)(d)``; ``D.is_linear`` (and numerically), ``D.domain``,
``D.range``; operators flagged linear are their own derivative; affine ones
have the matrix of their linear part; ``D(0) = 0``; the returned derivative
is a snapshot (it does not change when the caller later modifies x in place).
"""
import numpy as np
from hypothesis import strategies as st

from vlib import exprs as ex, flat
from vlib.core import Violation, Outcome, HarnessError, crash_signature

odl = ex.odl
from odl.operator.operator import OpNotImplementedError  # noqa: E402
from odl.solvers.functional.functional import Functional  # noqa: E402

PROPERTY = 'C06'
TECHNIQUE = ('Hypothesis property-based testing: operator zoo x options x '
             'base points with margin x directions, typed expression '
             'trees, shared-operator block operators and Functional '
             'arithmetic used as operators, decided by a central-difference '
             'ladder with an observed-order test; exhaustive enumeration of '
             'the ufunc operators / functionals that must not offer a '
             'derivative; descriptor replay')
LEVEL_TEXT = ('Generated-input search over every operator class with a '
              'derivative (zoo, options, spaces: real / complex / weighted / '
              'discretized / float32 / product) and over random nonlinear '
              'expression trees (chain, sum, product rules, scalar and vector '
              'multiples, product-space block operators, also with one '
              'operator object in several blocks; Functional arithmetic -- '
              'linear, affine, nonlinear -- differentiated itself and as '
              'operand of the operator expression classes). derivative(x)(d) is '
              'compared with central differences of the operator itself on a '
              'ladder of step sizes; the error must reach the rounding-limited '
              'accuracy and fall at second order on the way. Exploration, not '
              'proof; the sub-spaces "ufunc operator without closed-form '
              'derivative raises OpNotImplementedError" and "ufunc functional '
              'on a field: derivative offered / own derivative / '
              'NotImplementedError" are enumerated completely.')
LEVEL_NOTE = ('Trusted: NumPy, Hypothesis, evaluation of the operators '
              '(pinned by C03/C04), vlib.exprs builder. LinDeformFixedTempl '
              'is exempt by the property text; Functional.derivative is '
              'checked on real spaces only (the value of a functional on a '
              'complex space lives in the complex field, C06-K1 family) and, '
              'for f * A, only with inner operators whose adjoint is sound '
              "on every weighting (the adjoint defects are C05's / C09's); "
              'NumericalDerivative / NumericalGradient.derivative are '
              'numerical estimates by design and not asserted.')
DESIGN_REF = 'DESIGN.md section 5, C06'
BUDGET = {'quick': 10000, 'thorough': 75000}
TOLERANCES = {
    'fd': 'min_k |q(h_k) - D(d)|_max <= 256*eps^(2/3)*S + 16*eps*T/h_k*, '
          'k* the step of the minimum. S = max(|D(d)|, |q|, |op(x)|)_max; '
          'first term: truncation C*h^2 against rounding balanced on a '
          'ladder of ratio r (observed on the unchanged tree: <= '
          '19*eps^(2/3)*S). Second term = rounding floor of the quotient: '
          'T = largest magnitude among all intermediate values (arguments '
          'and results of every node of the reference evaluation at x, at '
          'least S); op(x +- h d) may be a cancelling combination of terms '
          'of size T, so each evaluation carries an absolute error ~eps*T '
          'and the quotient eps*T/h (16: operation count, leaf-internal '
          'sums); it matters only when S << T (derivative ~0 through '
          'cancellation). h_k = h0*r^-k, k = 0..5 (float64: h0=2^-3, r=8; '
          'float32: h0=2^-2, r=4; up to 4 more steps while the error still '
          'falls at second order), base point and direction normalised to '
          'max-norm <= 2 resp. 1; 256*eps^(2/3) = 9.5e-9 (float64), 6.2e-3 '
          '(float32)',
    'order': 'best slope log(e_j/e_min)/log(h_j/h_min) over j before the '
             'minimum >= 1.5, unless e_0 <= 1e4*eps*max(S,T) (difference quotient '
             'exact: affine / quadratic maps)',
    'linear': '|D(a d1 + c d2) - a D(d1) - c D(d2)|_max <= 256*eps*(|a| '
              'M1 + |c| M2 + M_comb), M_i = max(|D d_i|, S, TD_i); TD_i = largest '
              'directional derivative of any intermediate node along d_i '
              '(central difference of the reference evaluation): D(d) may be '
              'a cancelling combination of terms of that size, each with '
              'relative rounding error eps',
    'self-derivative': '|D(d) - op(d)|_max <= 64*eps*max(|op(d)|, |op(x)|, '
                       'T(d)) for operators flagged linear (T(d): largest '
                       'intermediate value of the evaluation at d)',
    'affine-matrix': 'matrix of D equals matrix of op (flat.opmatrix) up to '
                     '256*eps*max|M|, real dimension <= 24',
    'deriv-zero': '|D(0)|_max <= 64*eps*max_d S(d) (a linear operator maps '
                  '0 to 0; every term of a derivative rule is linear in d)',
    'snapshot': 'D(d) before and after the caller modifies its base point in '
                'place (x <- 1.5 x + 0.25) must be bit-identical (same '
                'operator, same argument)',
    'margin': 'base points (and every intermediate value inside a tree) stay '
              '>= 0.25 (relative distance for poles) away from the '
              'non-differentiable set of each leaf; h0*|d| <= margin/2',
}
ASSUMPTIONS = [
    'evaluation of operators and of expression trees is correct (C03, C04); '
    'the difference quotient uses the operator itself',
    'complex operators are differentiated along real-ified directions '
    '(complex direction, real step): this is the documented C = R^2 sense '
    'and coincides with the complex derivative for holomorphic maps',
    'data entries in [-2, 2]; trees with an intermediate value above 1e3 or '
    'non-finite (stiff maps such as sin(1e5 u): the ladder h >= 2^-30 cannot '
    'resolve them), trees whose reference value overflows or that '
    'come within the margin of a non-differentiable set are counted trivial',
    'exempt: LinDeformFixedTempl (property text), NumericalDerivative '
    '(estimate by design)',
    'functionals: real spaces (for complex tables the real space of X); '
    'QuadraticForm(operator=M) and f * M only on uniformly weighted spaces '
    '(MatrixOperator.adjoint ignores other weightings: F04 / C09-K1); a '
    'quotient f/g only where |g(x)| >= 0.25; f * 0 (built as the constant '
    'f(0)) only over quotient-free f; BregmanDistance with an arbitrary '
    'element as subgradient (documented: any element of the domain)',
]
RULE = ('Hypothesis draws (type table, zoo entry with options [15%] | '
        'expression tree of depth <= 3 [55%] | shared-operator block '
        'operator around a nonlinear block, optionally composed / summed '
        'with a tree [10%] | Functional expression of depth <= 2 (linear / '
        'linear + constant / scaled or translated twice in a row / any) '
        'used itself or inside one of 9 operator wrappers [20%]; base '
        'point, 2-3 directions). Non-trivial = the '
        'operator is not linear by construction (nonlinear leaf or affine '
        'shift) and the difference ladder was evaluated; distinct by sha1 of '
        'the descriptor')
EXHAUSTIVE = {
    'quick': ['zoo grid: every operator class with a derivative x every '
              'option combination of zoo_options() x 11 space templates '
              '(real/complex, float64/32, const- and array-weighted, 1-D and '
              '2-D discretized, weighted power spaces), one base point each',
              'all 72 odl.ufunc_ops on rn(3) / cn(2) / integer space: the '
              'ten with closed-form derivative are offered, the five flagged '
              'linear return themselves, every other one raises '
              'OpNotImplementedError',
              'all 72 odl.ufunc_ops as functionals on RealNumbers() / '
              'ComplexNumbers(): not available (two arguments / results, '
              'integer-only), derivative offered (ten closed-form '
              'gradients), own derivative (negative, rad2deg, deg2rad) or '
              'NotImplementedError'],
    'thorough': ['zoo grid: every operator class with a derivative x every '
                 'option combination of zoo_options() x 11 space templates, '
                 'four base points each',
                 'all 72 odl.ufunc_ops on rn(3) / cn(2) / integer space: the '
                 'ten with closed-form derivative are offered, the five '
                 'flagged linear return themselves, every other one raises '
                 'OpNotImplementedError',
                 'all 72 odl.ufunc_ops as functionals on RealNumbers() / '
                 'ComplexNumbers(): not available, derivative offered, own '
                 'derivative or NotImplementedError'],
}

MARGIN = 0.25
TMAX = 1e3      # bound on intermediate values inside a tree
UFUNCS_DERIV = ['sin', 'cos', 'tan', 'sqrt', 'square', 'log', 'exp',
                'reciprocal', 'sinh', 'cosh']
UFUNCS_LIN1 = ['negative', 'rad2deg', 'deg2rad']
UFUNCS_LIN2 = ['add', 'subtract']
POS_UFUNCS = ('sqrt', 'log', 'reciprocal')


# --------------------------------------------------------------------------
# extra leaves of the zoo

def _b_resize(env, node):
    a = node['args']
    return odl.ResizingOperator(env.set(node['dom']),
                                ran_shp=tuple(a['shape']),
                                offset=tuple(a['offset']),
                                pad_mode=a['pad_mode'],
                                pad_const=a['pad_const'])


def _b_rosenbrock_grad(env, node):
    return odl.solvers.RosenbrockFunctional(
        env.set(node['dom']), scale=node['args']['scale']).gradient


def _b_l1grad(env, node):
    return odl.solvers.L1Norm(env.set(node['dom'])).gradient


def _b_fcompgrad(env, node):
    a = node['args']
    ti = env.info(node['dom'])
    m = ex.vbuild.array_values(a['m'], dtype=ti.dtype,
                               shape=tuple(a['m']['shape']))
    A = odl.MatrixOperator(m, domain=env.set(node['dom']),
                           range=env.set(a['mid']))
    f = odl.solvers.L2NormSquared(env.set(a['mid']))
    return (f * A).gradient


def _b_fcompgrad_nl(env, node):
    D = env.set(node['dom'])
    return (odl.solvers.L2NormSquared(D) *
            getattr(odl.ufunc_ops, node['args']['name'])(D)).gradient


def _b_ufunc_lin(env, node):
    return getattr(odl.ufunc_ops, node['args']['name'])(env.set(node['dom']))


def _b_quadaff(env, node):
    # QuadraticForm without operator: x -> <x, v> + c (affine for c != 0)
    a = node['args']
    v = env.element(node['dom'], env.np_value(node['dom'], a['v']))
    return odl.solvers.QuadraticForm(vector=v, constant=a['c'])


def _b_lindeform(env, node):
    a = node['args']
    disp = env.element(a['G'], env.np_value(a['G'], a['v']))
    return odl.deform.LinDeformFixedDisp(
        disp, templ_space=env.set(node['dom']), interp=a['interp'])


ex.EXTRA_LEAF_BUILDERS.update({
    'resize': _b_resize, 'rosenbrock_grad': _b_rosenbrock_grad,
    'l1grad': _b_l1grad, 'fcompgrad': _b_fcompgrad,
    'ufunc_lin': _b_ufunc_lin, 'lindeform_disp': _b_lindeform,
    'quadaff': _b_quadaff, 'fcompgrad_nl': _b_fcompgrad_nl})
ex.EXTRA_MARGINS['l1grad'] = lambda env, node, x: ex._minabs(x)
# ufunc functionals on a field: same non-differentiable sets as the operators
ex.EXTRA_MARGINS['ffunc'] = lambda env, node, x: ex.leaf_margin(
    env, {'kind': 'ufunc', 'args': node['args']}, x)
ex.LINEAR_LEAVES.update({'ufunc_lin', 'fcompgrad', 'lindeform_disp'})


# --------------------------------------------------------------------------
# extra constructors (nodes built / evaluated through the extension points of
# vlib.exprs)
#
# (1) the SAME operator object in several blocks of a product-space operator:
#     ``ReductionOperator(op, n)``, ``BroadcastOperator(op, n)``,
#     ``DiagonalOperator(op, n)`` (the documented ``(op, n)`` form or the
#     object passed n times) and a ``ProductSpaceOperator`` matrix holding one
#     object at several positions.  Every block has to be linearised at ITS
#     OWN component of the base point.

REP_CLASSES = {'rep_reduction': 'ReductionOperator',
               'rep_broadcast': 'BroadcastOperator',
               'rep_diagonal': 'DiagonalOperator'}
REP_OPS = tuple(sorted(REP_CLASSES)) + ('rep_pspaceop',)


def _b_rep(env, b):
    node = b.node
    A = b.kids[0].obj
    n = int(node['n'])
    if node['op'] == 'rep_pspaceop':
        mat = [[A if m else None for m in row] for row in node['mask']]
        if node['how'] == 'kwargs':
            b.obj = odl.ProductSpaceOperator(
                mat, domain=env.set(node['dom']), range=env.set(node['ran']))
        else:
            b.obj = odl.ProductSpaceOperator(mat)
        return
    cls = getattr(odl, REP_CLASSES[node['op']])
    b.obj = cls(A, n) if node['how'] == 'n' else cls(*([A] * n))


def _e_rep(interp, b, x):
    node, k = b.node, b.kids[0]
    n = int(node['n'])
    if node['op'] == 'rep_broadcast':
        return [interp.ev(k, x) for _ in range(n)]
    if node['op'] == 'rep_diagonal':
        return [interp.ev(k, xi) for xi in x]
    if node['op'] == 'rep_reduction':
        acc = None
        for xi in x:
            y = interp.ev(k, xi)
            acc = y if acc is None else ex.vadd(acc, y)
        return acc
    out = []
    for row in node['mask']:
        acc = None
        for m, xj in zip(row, x):
            if m:
                y = interp.ev(k, xj)
                acc = y if acc is None else ex.vadd(acc, y)
        out.append(acc)
    return out


for _op in REP_OPS:
    ex.EXTRA_CTOR_BUILDERS[_op] = _b_rep
    ex.EXTRA_CTOR_EVAL[_op] = _e_rep
ex.EXTRA_LINEAR.update(REP_OPS)


# (2) functional arithmetic that has no operator syntax:
#     ``FunctionalQuadraticPerturb(f, a, u, c)``, ``FunctionalQuotient(f, g)``
#     and ``BregmanDistance(f, y, p)`` (real spaces only).

def _inner_val(env, key, a, b):
    """Inner product of the space ``key`` of two NumPy values (space
    arithmetic is pinned by C01/C02; used by the reference evaluation only,
    never as an oracle)."""
    return float(np.real(env.element(key, a).inner(env.element(key, b))))


def _b_quadperturb(env, b):
    node = b.node
    kwargs = {}
    if node.get('q') is not None:
        kwargs['quadratic_coeff'] = node['q']
    if node.get('v') is not None:
        b.vec_np = env.np_value(node['dom'], node['v'])
        b.vec = env.element(node['dom'], b.vec_np)
        kwargs['linear_term'] = b.vec
    if node.get('c') is not None:
        kwargs['constant'] = node['c']
    b.obj = odl.solvers.FunctionalQuadraticPerturb(b.kids[0].obj, **kwargs)


def _e_quadperturb(interp, b, x):
    node, env = b.node, interp.env
    val = interp.ev(b.kids[0], x)
    if node.get('q'):
        val = val + node['q'] * _inner_val(env, node['dom'], x, x)
    if b.vec_np is not None:
        val = val + _inner_val(env, node['dom'], x, b.vec_np)
    return val + (node.get('c') or 0.0)


def _b_fquot(env, b):
    b.obj = odl.solvers.FunctionalQuotient(b.kids[0].obj, b.kids[1].obj)


def _e_fquot(interp, b, x):
    num, den = interp.ev(b.kids[0], x), interp.ev(b.kids[1], x)
    if interp.margin is not None and not abs(den) >= interp.margin:
        raise ex.NearNondiff('quotient: divisor {:.3g}'.format(abs(den)))
    if den == 0:
        raise ex.RefOverflow('division by zero')
    return num / den


def _b_bregman(env, b):
    node = b.node
    b.vec_np = env.np_value(node['dom'], node['v'])
    b.vec = env.element(node['dom'], b.vec_np)
    sub = env.element(node['dom'], env.np_value(node['dom'], node['w']))
    f = b.kids[0].obj
    b.obj = (f.bregman(b.vec, sub) if node['how'] == 'method'
             else odl.solvers.BregmanDistance(f, b.vec, sub))


def _e_bregman(interp, b, x):
    # documented: D(x) = f(x) - f(y) - <p, x - y>
    node, env = b.node, interp.env
    fy = ex.Interp(env).ev(b.kids[0], b.vec_np)
    p = env.np_value(node['dom'], node['w'])
    return interp.ev(b.kids[0], x) - fy - _inner_val(
        env, node['dom'], ex.vsub(x, b.vec_np), p)


ex.EXTRA_CTOR_BUILDERS.update({'quadperturb': _b_quadperturb,
                               'fquot': _b_fquot, 'bregman': _b_bregman})
ex.EXTRA_CTOR_EVAL.update({'quadperturb': _e_quadperturb,
                           'fquot': _e_fquot, 'bregman': _e_bregman})


# --------------------------------------------------------------------------
# strategy

ROOTS = [('X', 'X')] * 6 + [('X', 'Y'), ('Y', 'X'), ('X', 'F'), ('X', 'F'),
                             ('F', 'X'), ('F', 'F'), ('XX', 'X'), ('XX', 'X'),
                             ('X', 'P'), ('X', 'P'), ('P', 'X'), ('P', 'X'),
                             ('P', 'P'), ('P', 'P'), ('Pw', 'Pw'), ('P', 'Pw'),
                             ('Pw', 'P'), ('X', 'XX'), ('XX', 'XX'),
                             ('X', 'G'), ('G', 'X'), ('G', 'G'), ('XX', 'F'),
                             ('P', 'F'), ('X', 'Xr'), ('X', 'Xr'),
                             ('Xr', 'X'), ('X', 'R'), ('Xr', 'R')]


# The zoo is table driven: ``zoo_options(types)`` lists every (entry,
# option combination) that exists for a type table as a leaf node whose data
# arguments are *placeholders* ``{'$': kind, ...}``; `materialise` replaces
# them with data drawn by Hypothesis (generated part) or by a seeded RNG
# (exhaustive part: every entry x option x space template).

def _leaf(k, dom, ran, **args):
    return {'op': 'leaf', 'kind': k, 'dom': dom, 'ran': ran, 'args': args,
            'fk': 'op'}


def _V(key):
    return {'$': 'values', 'key': key}


def zoo_options(types):
    """List of (entry name, leaf node with placeholders, point constraint)."""
    X = ex.tinfo(types, 'X')
    cplx = X.cplx
    Xr = 'Xr' if cplx else 'X'
    RR = 'R' if cplx else 'F'
    out = []

    def add(name, node, cons=None):
        out.append((name, node, cons))

    for name in UFUNCS_DERIV:
        add('ufunc', _leaf('ufunc', 'X', 'X', name=name),
            'pos' if name in POS_UFUNCS else ('small' if name == 'tan'
                                              else None))
    for pw in ([2, 3, 1, -1, 0, -2] if cplx else
               [2, 3, 1, 0.5, -1, 2.5, 0, -2, 1.5]):
        add('power', _leaf('power', 'X', 'X', p=pw),
            None if (pw == int(pw) and pw >= 0) else 'pos')
    for pw in ([2, 3, 1, -1] if cplx else [2, 3, 1, 0.5, -1, 2.5]):
        add('fpower', _leaf('fpower', 'F', 'F', p=pw),
            None if (pw == int(pw) and pw >= 0) else 'pos')
    for name in UFUNCS_DERIV:
        # the ufunc *functionals* on the field (derivative through their
        # gradient functional)
        add('ffunc', _leaf('ffunc', 'F', 'F', name=name),
            'pos' if name in POS_UFUNCS else ('small' if name == 'tan'
                                              else None))
    for k in ('cmod', 'cmodsq', 'realpart', 'imagpart'):
        add(k, _leaf(k, 'X', Xr), 'nonzero' if k == 'cmod' else None)
    for dom in ('X', 'P', 'Pw', 'XX'):
        add('norm', _leaf('norm', dom, RR))
        add('dist', _leaf('dist', dom, RR, v=_V(dom)))
    for dom in ('X', 'P', 'XX'):
        for how in ('ctor', 'T'):
            add('inner', _leaf('inner', dom, 'F', v=_V(dom), how=how))
    for dom, ran in (('X', 'X'), ('X', 'Y'), ('P', 'X')):
        for zero in (False, True):
            add('constant', _leaf('constant', dom, ran, v=_V(ran),
                                  zero=zero))
    for name in (['negative'] if cplx else UFUNCS_LIN1):
        add('ufunc_lin', _leaf('ufunc_lin', 'X', 'X', name=name))
    for k in ('identity', 'zero'):
        add(k, _leaf(k, 'X', 'X'))
    add('scaling', _leaf('scaling', 'X', 'X', s={'$': 'scalar',
                                                'cplx': cplx}))
    add('multiply', _leaf('multiply', 'X', 'X', v=_V('X')))
    if len(X.shape) >= 1:
        add('matrix', _leaf('matrix', 'X', 'X', m={
            '$': 'matrix', 'shape': [X.shape[0], X.shape[0]],
            'dtype': X.dtype}))
    n = int(types['XX']['n'])
    if n == 2 and types['XX'].get('default'):
        add('ufunc_lin2', _leaf('ufunc_add', 'XX', 'X'))
        add('ufunc_lin2', _leaf('ufunc_subtract', 'XX', 'X'))
        for a, c in ((1.0, 1.0), (2.0, -0.5), (0.0, 1.0)):
            add('lincomb', _leaf('lincomb', 'XX', 'X',
                                 a={'v': a, 'np': None},
                                 b={'v': c, 'np': None}))
    wlist = [[1.0, 2.0, 0.5][:n], [3.0, 1.0, 1.5][:n]]
    for pw in (None, 1.0, 1.5, 2.0, 2.5, 3.0, float('inf')):
        for w in (None, 2.0, wlist[0], wlist[1]):
            add('pwnorm', _leaf('pwnorm', 'XX', 'X', exponent=pw,
                                weighting=w), 'nonzero')
    for w in (None, 2.0, wlist[0]):
        add('pwinner', _leaf('pwinner', 'XX', 'X', v=_V('XX'), weighting=w))
        add('pwsum', _leaf('pwsum', 'XX', 'X', weighting=w))
    add('l1grad', _leaf('l1grad', Xr, Xr), 'nonzero')
    if not cplx and len(X.shape) == 1:
        add('fcompgrad', _leaf('fcompgrad', 'X', 'X', mid='Y', m={
            '$': 'matrix', 'shape': [types['Y']['shape'][0], X.shape[0]],
            'dtype': X.dtype}))
    if not cplx:
        # gradient of f o A with a nonlinear A: its derivative (a Hessian) is
        # documented as implemented for linear A only
        add('fcompgrad_nl', _leaf('fcompgrad_nl', 'X', 'X', name='sin'))
    if not cplx and len(X.shape) == 1 and X.shape[0] >= 2 and \
            types['X']['kind'] == 'tensor':
        for sc in (100.0, 1.0, 2.5):
            add('rosenbrock_grad', _leaf('rosenbrock_grad', 'X', 'X',
                                         scale=sc))
    if cplx:
        for sv in (1.0, 1j, 2 - 0.5j):
            add('cembed', _leaf('cembed', 'X', 'X',
                                s={'v': sv, 'np': None}))
            add('cembed_r', _leaf('cembed', 'Xr', 'X',
                                  s={'v': sv, 'np': None}))
    if X.discr and not cplx and 'G' in types:
        # linear (its own derivative) for a fixed displacement field
        for interp in ('linear', 'nearest'):
            add('lindeform_disp', _leaf('lindeform_disp', 'X', 'X', G='G',
                                        v=_V('G'), interp=interp))
    if X.discr:
        consts = (0.0, 1.5, -0.5)
        if max(X.shape) >= 3:
            for axis in [i for i, m in enumerate(X.shape) if m >= 3]:
                for method in ex.DIFF_METHODS:
                    for pc in consts:
                        add('partial', _leaf('partial', 'X', 'X', axis=axis,
                                             method=method,
                                             pad_mode='constant',
                                             pad_const=pc))
                    for pm in ('symmetric', 'periodic', 'order1'):
                        add('partial', _leaf('partial', 'X', 'X', axis=axis,
                                             method=method, pad_mode=pm,
                                             pad_const=0.0))
        if min(X.shape) >= 3:
            for pc in consts:
                add('laplacian', _leaf('laplacian', 'X', 'X',
                                       pad_mode='constant', pad_const=pc))
            for pm in ('symmetric', 'periodic', 'order0'):
                add('laplacian', _leaf('laplacian', 'X', 'X', pad_mode=pm,
                                       pad_const=0.0))
            if 'G' in types:
                for method in ex.DIFF_METHODS:
                    for pc in consts:
                        add('gradient', _leaf('gradient', 'X', 'G',
                                              method=method,
                                              pad_mode='constant',
                                              pad_const=pc))
                        add('divergence', _leaf('divergence', 'G', 'X',
                                                method=method,
                                                pad_mode='constant',
                                                pad_const=pc))
        for delta, off in ((2, 1), (1, 0), (-1, 0), (3, 2), (0, 0)):
            for pc in (0.0, 1.5):
                shape = [max(1, m + delta) for m in X.shape]
                add('resize', _leaf('resize', 'X', 'Z', shape=shape,
                                    offset=[off] * len(X.shape),
                                    pad_mode='constant', pad_const=pc))
    return out


def _zoo_types(types, node):
    """Type table for a zoo node (adds the range type of a resize)."""
    if node['kind'] == 'resize':
        types = dict(types)
        types['Z'] = {'kind': 'resize_of', 'of': 'X',
                      'shape': node['args']['shape'],
                      'offset': node['args']['offset'], 'fkey': 'F'}
    return types


class HypGen(object):
    def __init__(self, draw, types):
        self.draw, self.types = draw, types

    def values(self, key, lo=-2.0, hi=2.0, positive=False):
        return self.draw(ex.values(self.types, key, lo, hi, positive))

    def matrix(self, shape, dtype):
        return self.draw(ex.array_descs(shape, dtype, -1.5, 1.5))

    def scalar(self, cplx):
        return self.draw(ex.scalars(cplx))

    def signs(self):
        return self.draw(st.lists(st.sampled_from([1.0, -1.0]), min_size=1,
                                  max_size=8))

    def choice(self, seq):
        return self.draw(st.sampled_from(list(seq)))


class RngGen(object):
    """Explicit data from a seeded RNG (exhaustive part)."""

    def __init__(self, rng, types):
        self.rng, self.types = rng, types

    def _entry(self, lo, hi, positive, cplx):
        def one(pos):
            if pos:
                return float(np.round(self.rng.uniform(max(lo, 0.3), hi), 3))
            if self.rng.randint(4) == 0:
                pal = [p for p in ex.PALETTE if lo <= p <= hi]
                return float(pal[self.rng.randint(len(pal))])
            return float(np.round(self.rng.uniform(lo, hi), 3))
        v = one(positive)
        return complex(v, one(False)) if cplx else v

    def _array(self, shape, dtype, lo, hi, positive):
        dt = np.dtype(dtype)
        size = int(np.prod(shape, dtype=int))
        vals = np.empty(size, dtype=object)
        for i in range(size):
            vals[i] = self._entry(lo, hi, positive, dt.kind == 'c')
        return {'dtype': str(dt), 'shape': list(shape), 'order': 'C',
                'data': vals.reshape(shape).tolist()}

    def values(self, key, lo=-2.0, hi=2.0, positive=False):
        ti = ex.tinfo(self.types, key)
        if ti.cat == 'field':
            return self._entry(lo, hi, positive, ti.cplx)
        if ti.cat == 'prod':
            return [self.values(p, lo, hi, positive) for p in ti.parts]
        return self._array(ti.shape, ti.dtype, lo, hi, positive)

    def matrix(self, shape, dtype):
        return self._array(shape, dtype, -1.5, 1.5, False)

    def scalar(self, cplx):
        v = [2.0, -0.5, 3.0, 1.0, -1.0, 0.25][self.rng.randint(6)]
        if cplx and self.rng.randint(2):
            v = complex(v, [1.0, -0.5][self.rng.randint(2)])
        return {'v': v, 'np': None, 'cls': 'generic'}

    def signs(self):
        return [float(s) for s in self.rng.randint(0, 2, size=8) * 2 - 1]

    def choice(self, seq):
        seq = list(seq)
        return seq[self.rng.randint(len(seq))]


def materialise(obj, gen):
    """Replace data placeholders by generated data."""
    if isinstance(obj, dict):
        if '$' in obj:
            if obj['$'] == 'values':
                return gen.values(obj['key'])
            if obj['$'] == 'matrix':
                return gen.matrix(obj['shape'], obj['dtype'])
            if obj['$'] == 'scalar':
                return gen.scalar(obj['cplx'])
            raise HarnessError('placeholder {!r}'.format(obj))
        return {k: materialise(v, gen) for k, v in obj.items()}
    if isinstance(obj, list):
        return [materialise(v, gen) for v in obj]
    return obj


def _flip(ed, signs, pos=None):
    """Multiply the entries of an element descriptor by the +-1 pattern
    ``signs`` (cyclic); keeps |entries| (used for 'nonzero' base points)."""
    pos = pos if pos is not None else [0]

    def f(v):
        if isinstance(v, list):
            return [f(w) for w in v]
        sg = signs[pos[0] % len(signs)]
        pos[0] += 1
        return v * sg
    if isinstance(ed, list):
        return [_flip(e, signs, pos) for e in ed]
    if isinstance(ed, dict):
        out = dict(ed)
        if 'data' in out:
            out['data'] = f(out['data'])
        return out
    return f(ed)


def _point(gen, key, cons):
    if cons == 'nonzero':
        return _flip(gen.values(key, 0.3, 2.0, True), gen.signs())
    if cons == 'pos':
        return gen.values(key, 0.3, 2.0, True)
    if cons == 'small':
        return gen.values(key, -1.1, 1.1)
    return gen.values(key)


def _case(gen, types, tree, what, cons):
    dom = tree['dom']
    return {'types': types, 'tree': tree, 'what': what,
            'x': _point(gen, dom, cons),
            'dirs': [gen.values(dom, -1.0, 1.0)
                     for _ in range(gen.choice([1, 2, 2]))],
            'special': gen.choice(['coord', 'x', 'none']),
            'coord': gen.choice(list(range(24))),
            'lin': [{'v': gen.choice([2.0, -0.5, 3.0, 1.5]), 'np': None},
                    {'v': gen.choice([0.25, -2.5, 1.5, -1.25]), 'np': None}]}


def _node(op, dom, ran, fk='op', **kw):
    node = {'op': op, 'dom': dom, 'ran': ran, 'fk': fk}
    node.update(kw)
    return node


def _lf(kind, dom, ran, fk='op', **args):
    return {'op': 'leaf', 'kind': kind, 'dom': dom, 'ran': ran, 'args': args,
            'fk': fk}


@st.composite
def _smooth_leaf(draw, key):
    """Nonlinear, everywhere differentiable pointwise operator key -> key."""
    if draw(st.booleans()):
        return _lf('ufunc', key, key,
                   name=draw(st.sampled_from(ex.UFUNCS_SMOOTH)))
    return _lf('power', key, key, p=draw(st.sampled_from([2, 3])))


# -- stratum 'shared': one operator object in several blocks ----------------

@st.composite
def _shared_tree(draw, types, pairs):
    """Tree around a product-space operator whose blocks are the SAME
    operator object (types['XX'] is a default-weighted power space, n >= 2)."""
    n = int(types['XX']['n'])
    ctor = draw(st.sampled_from(['rep_reduction'] * 3 + ['rep_diagonal'] * 3 +
                                ['rep_pspaceop'] * 3 + ['rep_broadcast']))
    kd = kr = 'X'
    if ctor == 'rep_reduction' and ('X', 'Y') in pairs and \
            draw(st.integers(0, 3)) == 0:
        kr = 'Y'
    if ctor == 'rep_broadcast' and ('Y', 'X') in pairs and \
            draw(st.integers(0, 2)) == 0:
        kd = 'Y'
    kid = draw(ex.trees(types, kd, kr, draw(st.sampled_from([0, 1, 1, 2])),
                        'c06', pairs))
    if ex.true_linear(kid) and draw(st.integers(0, 3)) > 0:
        # nonlinear by construction: the blocks' derivatives then depend on
        # the component of the base point they are taken at
        kid = _node('comp', kd, kr, how='mul', a=draw(_smooth_leaf(kr)),
                    b=kid)
    dom = kd if ctor == 'rep_broadcast' else 'XX'
    ran = kr if ctor == 'rep_reduction' else 'XX'
    node = _node(ctor, dom, ran, kids=[kid], n=n,
                 how=draw(st.sampled_from(['n', 'n', 'explicit'])))
    if ctor == 'rep_pspaceop':
        perm = draw(st.permutations(list(range(n))))
        extra = draw(st.lists(st.booleans(), min_size=n * n, max_size=n * n))
        node['mask'] = [[int(perm[i] == j or extra[i * n + j])
                         for j in range(n)] for i in range(n)]
        node['how'] = draw(st.sampled_from(['kwargs', 'infer']))
    wrap = draw(st.sampled_from(['none', 'none', 'outer', 'inner', 'sum']))
    sub = draw(st.sampled_from([0, 1]))
    if wrap == 'outer' and (ran, ran) in pairs:
        node = _node('comp', dom, ran, how=draw(st.sampled_from(
            ['mul', 'ctor'])), b=node,
            a=draw(ex.trees(types, ran, ran, sub, 'c06', pairs)))
    elif wrap == 'inner' and (dom, dom) in pairs:
        node = _node('comp', dom, ran, how=draw(st.sampled_from(
            ['mul', 'ctor'])), a=node,
            b=draw(ex.trees(types, dom, dom, sub, 'c06', pairs)))
    elif wrap == 'sum' and (dom, ran) in pairs:
        other = draw(ex.trees(types, dom, ran, sub, 'c06', pairs))
        a, b = (node, other) if draw(st.booleans()) else (other, node)
        node = _node('sum', dom, ran, how='op', a=a, b=b)
    return node


# -- stratum 'func': Functional arithmetic, used as operators ---------------

def _base_td(types, key):
    td = types[key]
    while td['kind'] in ('real_of', 'complex_of'):
        td = types[td['of']]
    return td


def _adjoint_sound(types, key):
    """MatrixOperator(key -> key).adjoint (used by the gradients of
    ``QuadraticForm(operator=M)`` and ``f * M``) is the conjugate transpose
    whatever the weighting -- correct only for uniform weights (known
    findings F04 / C09-K1 otherwise, C05's and C09's matter)."""
    td = _base_td(types, key)
    if (td.get('weighting') or {}).get('type') == 'array':
        return False
    if td['kind'] == 'discr':
        return not td.get('nodes_on_bdry')
    return td['kind'] == 'tensor'


@st.composite
def _func_leaf(draw, types, D, linear=False):
    Fk = types[D]['fkey']
    ti = ex.tinfo(types, D)
    if linear:
        kinds = ['quadlin', 'quadlin', 'quadlin', 'zerof', 'constf0']
    else:
        kinds = ['l2sq', 'l2sq', 'l1', 'l2', 'quadlin', 'constf', 'quadaff']
        if len(ti.shape) == 1 and _adjoint_sound(types, D):
            kinds += ['quad', 'quad']
    kind = draw(st.sampled_from(kinds))
    if kind == 'constf0':
        return _lf('constf', D, Fk, 'func', c=0.0)
    if kind == 'constf':
        return _lf('constf', D, Fk, 'func',
                   c=draw(st.sampled_from([1.5, -2.0, 3.0, 0.0])))
    if kind == 'quadlin':
        return _lf('quadlin', D, Fk, 'func', v=draw(ex.values(types, D)))
    if kind == 'quadaff':
        return _lf('quadaff', D, Fk, 'func', v=draw(ex.values(types, D)),
                   c=draw(st.sampled_from(F_CONSTS[1:])))
    if kind == 'quad':
        n = ti.shape[0]
        return _lf('quad', D, Fk, 'func',
                   m=draw(ex.array_descs((n, n), ti.dtype, -1.5, 1.5)),
                   v=draw(st.none() | ex.values(types, D)),
                   c=draw(st.sampled_from([0.0, 1.5, -2.0])))
    return _lf(kind, D, Fk, 'func')


@st.composite
def _sound_inner(draw, types, D):
    """Operator D -> D whose derivative has a correct adjoint on every
    weighting (pointwise maps, scalings; matrices on uniformly weighted
    spaces): admissible inner operand of a true ``FunctionalComp``, whose
    gradient is A'(x)^*(grad f(A x))."""
    ti = ex.tinfo(types, D)

    def one():
        kinds = ['smooth', 'smooth', 'smooth', 'scaling', 'multiply',
                 'identity']
        if len(ti.shape) == 1 and _adjoint_sound(types, D):
            kinds += ['matrix', 'matrix']
        k = draw(st.sampled_from(kinds))
        if k == 'smooth':
            return draw(_smooth_leaf(D))
        if k == 'scaling':
            return _lf('scaling', D, D, s=draw(ex.scalars(False,
                                                          nonzero=True)))
        if k == 'multiply':
            return _lf('multiply', D, D, v=draw(ex.values(types, D)))
        if k == 'matrix':
            n = ti.shape[0]
            return _lf('matrix', D, D, m=draw(ex.array_descs(
                (n, n), ti.dtype, -1.5, 1.5)))
        return _lf('identity', D, D)
    shape = draw(st.sampled_from(['leaf', 'leaf', 'comp', 'sum', 'addvec']))
    if shape == 'leaf':
        return one()
    if shape == 'addvec':
        return _node('addvec', D, D, a=one(), v=draw(ex.values(types, D)),
                     how=draw(st.sampled_from(['A+v', 'A-v', 'v-A'])))
    return _node(shape, D, D, a=one(), b=one(),
                 how='mul' if shape == 'comp' else 'op')


F_CONSTS = [0.0, 1.5, -2.0, 2.5]


@st.composite
def _fexpr(draw, types, D, depth, linear=False, quot=True):
    """True ``Functional`` D -> field(D) built by the documented functional
    arithmetic (D a real space).  ``linear``: a functional that is a linear
    map by construction (flagged linear by ODL)."""
    Fk = types[D]['fkey']
    if depth <= 0:
        return draw(_func_leaf(types, D, linear))

    def sub(lin=linear, q=quot):
        return draw(_fexpr(types, D, draw(st.sampled_from(
            list(range(depth)))), lin, q))
    if linear:
        rule = draw(st.sampled_from(['leaf', 'lscal', 'rscal', 'sum', 'diff',
                                     'neg', 'quadperturb0']))
    else:
        rule = draw(st.sampled_from(
            ['leaf', 'lscal', 'rscal', 'rscal', 'div', 'sum', 'sum', 'diff',
             'neg',
             'addscal', 'addscal', 'fprod', 'fcomp', 'fcomp', 'rvec',
             'translated', 'translated', 'quadperturb', 'quadperturb',
             'quadperturb', 'quadperturb-lin', 'quadperturb-lin', 'bregman',
             'bregman'] + (['fquot', 'fquot'] if quot else [])))
    fn = dict(dom=D, ran=Fk, fk='func')
    if rule == 'leaf':
        return draw(_func_leaf(types, D, linear))
    # (scalings and translations applied twice in a row are merged into one
    # node by the constructors: drawn on purpose for a third of these rules)
    twice = draw(st.integers(0, 2)) == 0
    if rule == 'lscal':
        inner = sub()
        if twice:
            inner = _node('lscal', a=inner, how='op',
                          s=draw(ex.scalars(False, nonzero=True)), **fn)
        return _node('lscal', a=inner, s=draw(ex.scalars(False)),
                     how=draw(st.sampled_from(['op', 'op', 'rmatmul'])),
                     **fn)
    if rule in ('rscal', 'div'):
        # (f * 0 is built as the constant f(0): only over quotient-free f,
        # a quotient need not be defined at the origin)
        sc = draw(ex.scalars(False, nonzero=(rule == 'div')))
        inner = sub(q=quot and sc['v'] != 0)
        if twice:
            inner = _node('rscal', a=inner, how='op',
                          s=draw(ex.scalars(False, nonzero=True)), **fn)
        return _node(rule, a=inner, s=sc,
                     how='op' if rule == 'div' else
                     draw(st.sampled_from(['op', 'op', 'matmul'])), **fn)
    if rule in ('sum', 'diff'):
        a, b = sub(), sub()
        if not linear and draw(st.booleans()):
            b = draw(_fexpr(types, D, 0, draw(st.booleans()), quot))
        return _node(rule, a=a, b=b, how='op', **fn)
    if rule == 'neg':
        return _node('neg', a=sub(), how='op', **fn)
    if rule == 'addscal':
        # f + c: the linear part of an affine functional
        return _node('addscal', a=sub(draw(st.booleans())),
                     s=draw(ex.scalars(False)),
                     how=draw(st.sampled_from(['A+c', 'c+A', 'A-c', 'c-A'])),
                     **fn)
    if rule == 'fprod':
        return _node('pwprod', a=sub(), b=sub(draw(st.booleans())),
                     how='fprod', **fn)
    if rule == 'fcomp':
        return _node('comp', a=sub(), b=draw(_sound_inner(types, D)),
                     how=draw(st.sampled_from(['mul', 'mul', 'matmul'])),
                     **fn)
    if rule == 'rvec':
        return _node('rvec', a=sub(), v=draw(ex.values(types, D)),
                     how=draw(st.sampled_from(['op', 'op', 'matmul'])), **fn)
    if rule == 'translated':
        inner = sub(draw(st.booleans()))
        if twice:
            inner = _node('translated', a=inner, how='op',
                          v=draw(ex.values(types, D)), **fn)
        return _node('translated', a=inner,
                     v=draw(ex.values(types, D)), how='op', **fn)
    if rule.startswith('quadperturb'):
        # F + a <.,.> + <., u> + c over the full option grid (each of a, u,
        # c absent / zero / non-zero); '-lin': on a linear functional, where
        # the result is linear, affine or quadratic depending on (a, c)
        if rule == 'quadperturb0':
            q, c = draw(st.sampled_from([None, 0.0])), \
                draw(st.sampled_from([None, 0.0]))
        else:
            q = draw(st.sampled_from([None, 0.0, 0.0, 0.5, -1.5, 2.0]))
            c = draw(st.sampled_from([None, 0.0] + F_CONSTS[1:] * 2))
        lin = linear or rule == 'quadperturb-lin'
        return _node('quadperturb', a=sub(lin), q=q, c=c,
                     v=draw(st.none() | ex.values(types, D)), how='ctor',
                     **fn)
    if rule == 'fquot':
        return _node('fquot', a=sub(q=False), b=sub(q=False), how='ctor',
                     **fn)
    if rule == 'bregman':
        return _node('bregman', a=sub(q=False), v=draw(ex.values(types, D)),
                     w=draw(ex.values(types, D)),
                     how=draw(st.sampled_from(['method', 'ctor'])), **fn)
    raise HarnessError('unknown functional rule ' + rule)


FUNC_WRAPS = ['self', 'self', 'flvec', 'flvec', 'flvec', 'mulfield',
              'mulfield', 'fouter', 'opsum', 'lscal-ctor', 'rscal-ctor',
              'rvec-ctor', 'pwprod-ctor', 'comp-ctor', 'reduction']


@st.composite
def _func_tree(draw, types, pairs):
    """A Functional expression used as an *operator*: differentiated itself
    (``Functional.derivative``) or as operand of the generic operator
    expression classes, whose derivative rules consult ``is_linear`` of the
    operand (``y * F``, ``M o F``, ``OperatorSum(F, G)`` ...)."""
    D = 'Xr' if 'Xr' in types else 'X'
    Fk = types[D]['fkey']
    shape = draw(st.sampled_from(['affine', 'linear', 'twice', 'any', 'any',
                                  'any']))
    depth = draw(st.sampled_from([0, 1, 1, 2, 2]))
    if shape == 'twice':
        # the same argument / value transformation applied twice in a row
        # to a nonlinear functional (the constructors merge the two)
        fn = dict(dom=D, ran=Fk, fk='func')
        F = draw(_fexpr(types, D, min(depth, 1), False, False))
        rule = draw(st.sampled_from(['rscal', 'rscal', 'lscal',
                                     'translated']))
        for _ in range(2):
            if rule == 'translated':
                F = _node(rule, a=F, v=draw(ex.values(types, D)), how='op',
                          **fn)
            else:
                F = _node(rule, a=F, how=draw(st.sampled_from(
                    ['op', 'op', 'matmul' if rule == 'rscal' else 'rmatmul'])),
                    s=draw(ex.scalars(False, classes=['generic', 'generic',
                                                      'mone'])), **fn)
    elif shape == 'affine':
        # linear functional + constant, through every syntax that adds one
        lin = draw(_fexpr(types, D, min(depth, 1), True))
        fn = dict(dom=D, ran=Fk, fk='func')
        c = draw(st.sampled_from(F_CONSTS[1:]))
        how = draw(st.sampled_from(['addscal', 'quadperturb', 'quadperturb',
                                    'sum-constf', 'translated', 'translated',
                                    'quadaff']))
        if how == 'addscal':
            F = _node('addscal', a=lin, s={'v': c, 'np': None,
                                           'cls': 'generic'},
                      how=draw(st.sampled_from(['A+c', 'c+A', 'A-c'])), **fn)
        elif how == 'quadperturb':
            F = _node('quadperturb', a=lin, c=c, how='ctor',
                      q=draw(st.sampled_from([None, 0.0])),
                      v=draw(st.none() | ex.values(types, D)), **fn)
        elif how == 'quadaff':
            F = _lf('quadaff', D, Fk, 'func', v=draw(ex.values(types, D)),
                    c=c)
        elif how == 'sum-constf':
            F = _node('sum', a=lin, b=_lf('constf', D, Fk, 'func', c=c),
                      how='op', **fn)
        else:
            F = _node('translated', a=lin, v=draw(ex.values(types, D)),
                      how='op', **fn)
    else:
        F = draw(_fexpr(types, D, depth, shape == 'linear'))
    wrap = draw(st.sampled_from(FUNC_WRAPS))
    vkeys = [D] + (['Y'] if types['Y']['fkey'] == Fk else [])
    V = draw(st.sampled_from(vkeys))
    if wrap == 'self':
        return F
    if wrap == 'flvec':
        return _node('flvec', D, V, a=F, v=draw(ex.values(types, V)),
                     how=draw(st.sampled_from(['op', 'op', 'rmatmul',
                                               'ctor'])))
    if wrap == 'mulfield':
        return _node('comp', D, V, b=F,
                     a=_lf('multiply_field', Fk, V,
                           v=draw(ex.values(types, V))),
                     how=draw(st.sampled_from(['mul', 'ctor'])))
    if wrap == 'fouter':
        k = draw(st.sampled_from(['fpower', 'fscaling', 'ffunc']))
        if k == 'fpower':
            outer = _lf('fpower', Fk, Fk, p=draw(st.sampled_from([2, 3, 1])))
        elif k == 'fscaling':
            outer = _lf('fscaling', Fk, Fk, s=draw(ex.scalars(False)))
        else:
            outer = _lf('ffunc', Fk, Fk, 'func', name=draw(st.sampled_from(
                ['sin', 'cos', 'square', 'sinh'])))
        return _node('comp', D, Fk, a=outer, b=F, how='ctor')
    if wrap == 'opsum':
        if draw(st.booleans()):
            G = draw(_fexpr(types, D, 0, draw(st.booleans())))
        else:
            G = _lf('inner', D, Fk, v=draw(ex.values(types, D)),
                    how=draw(st.sampled_from(['ctor', 'T'])))
        a, b = (F, G) if draw(st.booleans()) else (G, F)
        how = 'ctor' if G['fk'] == 'func' else draw(st.sampled_from(
            ['ctor', 'op']))
        return _node('sum', D, Fk, a=a, b=b, how=how)
    if wrap == 'lscal-ctor':
        return _node('lscal', D, Fk, a=F, s=draw(ex.scalars(False)),
                     how='ctor')
    if wrap == 'rscal-ctor':
        return _node('rscal', D, Fk, a=F, s=draw(ex.scalars(False)),
                     how=draw(st.sampled_from(['ctor', 'ctor_tmp'])))
    if wrap == 'rvec-ctor':
        return _node('rvec', D, Fk, a=F, v=draw(ex.values(types, D)),
                     how='ctor')
    if wrap == 'pwprod-ctor':
        G = draw(_fexpr(types, D, 0, draw(st.booleans())))
        a, b = (F, G) if draw(st.booleans()) else (G, F)
        return _node('pwprod', D, Fk, a=a, b=b, how='ctor')
    if wrap == 'comp-ctor':
        inner = draw(ex.trees(types, D, D, draw(st.sampled_from([0, 1])),
                              'c06', pairs))
        return _node('comp', D, Fk, a=F, b=inner, how='ctor')
    # y1 * F (+) y2 * F: the same vector-valued functional multiple (one
    # object) as every block of a reduction
    if D != 'X':
        return F
    blk = _node('flvec', D, V, a=F, v=draw(ex.values(types, V)), how='op')
    return _node('rep_reduction', 'XX', V, kids=[blk],
                 n=int(types['XX']['n']), how='n')


@st.composite
def _strategy(draw, tier):
    types = draw(ex.base_types(pspaces=True))
    gen = HypGen(draw, types)
    what = draw(st.sampled_from(['zoo'] * 3 + ['tree'] * 11 +
                                ['shared'] * 2 + ['func'] * 4))
    if what in ('shared', 'func'):
        # the product-space operator classes are documented for unweighted
        # product spaces: make XX a default power space with >= 2 parts
        types['XX'] = dict(types['XX'], n=draw(st.sampled_from([2, 2, 3])),
                           weighting=None, default=True)
        pairs = ex.inhabited_pairs(types, 'c06')
        tree = draw(_shared_tree(types, pairs) if what == 'shared'
                    else _func_tree(types, pairs))
        return _case(gen, types, tree, what, None)
    if what == 'zoo':
        opts = zoo_options(types)
        names = sorted({o[0] for o in opts})
        name = draw(st.sampled_from(names))
        _, node, cons = draw(st.sampled_from([o for o in opts
                                              if o[0] == name]))
        tree = materialise(node, gen)
        types = _zoo_types(types, tree)
        gen.types = types
        return _case(gen, types, tree, 'zoo', cons)
    pairs = ex.inhabited_pairs(types, 'c06')
    roots = [r for r in ROOTS if r in pairs]
    dom, ran = draw(st.sampled_from(roots))
    depth = draw(st.sampled_from([1, 2, 2, 3, 3]))
    tree = draw(ex.trees(types, dom, ran, depth, 'c06', pairs))
    return _case(gen, types, tree, 'tree', None)


def strategy(tier):
    return _strategy(tier)


def _templates():
    """Space templates of the exhaustive zoo enumeration."""
    def tensor(shape, dtype, w=None):
        return {'kind': 'tensor', 'shape': shape, 'dtype': dtype,
                'exponent': 2.0, 'weighting': w, 'fkey': 'F'}

    def discr(shape, dtype, cell=0.5, nob=False, w=None):
        return {'kind': 'discr', 'min': [0.0] * len(shape),
                'max': [cell * (m - 1 if nob else m) for m in shape],
                'shape': shape, 'dtype': dtype, 'exponent': 2.0,
                'nodes_on_bdry': nob, 'weighting': w, 'fkey': 'F'}
    cw = {'type': 'const', 'value': 2.0}
    aw = {'type': 'array', 'data': [1.0, 2.0, 0.5]}
    specs = [
        ('r64', tensor([4], 'float64'), 2, None),
        ('r64-constw', tensor([3], 'float64', cw), 3,
         {'type': 'array', 'data': [1.5, 0.5, 2.0]}),
        ('r64-arrayw', tensor([3], 'float64', aw), 2,
         {'type': 'const', 'value': 0.5}),
        ('c128', tensor([3], 'complex128'), 2, None),
        ('c128-constw', tensor([2], 'complex128', cw), 2, None),
        ('r32', tensor([3], 'float32'), 2, None),
        ('c64', tensor([2], 'complex64'), 2, None),
        ('discr-r64', discr([4], 'float64'), 2, None),
        ('discr2d-r64', discr([3, 3], 'float64', 0.25, True), 2,
         {'type': 'array', 'data': [1.5, 0.5]}),
        ('discr-c128', discr([3], 'complex128', 1.0), 2, None),
        ('discr-r32', discr([4], 'float32', 2.0), 3, None),
    ]
    out = []
    for name, X, n, w in specs:
        dtype = X['dtype']
        types = {'X': X,
                 'Y': tensor([2], dtype, cw if 'constw' in name else None),
                 'F': {'kind': 'field_of', 'of': 'X', 'fkey': 'F'}}
        if dtype.startswith('complex'):
            types['Xr'] = {'kind': 'real_of', 'of': 'X', 'fkey': 'R'}
            types['R'] = {'kind': 'reals', 'fkey': 'R'}
        types['XX'] = {'kind': 'power', 'of': 'X', 'n': n, 'weighting': w,
                       'exponent': 2.0, 'fkey': 'F', 'default': w is None}
        types['P'] = {'kind': 'prod', 'of': ['X', 'Y'], 'weighting': None,
                      'fkey': 'F', 'default': True}
        types['Pw'] = {'kind': 'prod', 'of': ['X', 'Y'], 'fkey': 'F',
                       'weighting': {'type': 'array', 'data': [2.0, 0.5]},
                       'default': False}
        if X['kind'] == 'discr' and min(X['shape']) >= 3:
            types['G'] = {'kind': 'power', 'of': 'X', 'n': len(X['shape']),
                          'weighting': None, 'exponent': 2.0, 'fkey': 'F',
                          'default': True, 'grad_of': 'X'}
        out.append((name, types))
    return out


def enumerate_cases(tier):
    from odl.util.ufuncs import UFUNCS
    cases = []
    for name, nin, nout, _ in UFUNCS:
        for space in ('real', 'cplx', 'int'):
            cases.append({'what': 'ufunc-enum', 'name': name, 'nin': nin,
                          'nout': nout, 'space': space})
            if space != 'int':
                cases.append({'what': 'ufunc-func-enum', 'name': name,
                              'nin': nin, 'nout': nout, 'field': space})
    # every zoo entry x option combination x space template, data from a
    # fixed-seed RNG (explicit in the descriptor)
    reps = 1 if tier == 'quick' else 4
    for tname, types in _templates():
        for k, (name, node, cons) in enumerate(zoo_options(types)):
            for rep in range(reps):
                rng = np.random.RandomState(
                    (hash_int(tname) + 7919 * k + 104729 * rep) % (2 ** 31))
                gen = RngGen(rng, types)
                tree = materialise(node, gen)
                t2 = _zoo_types(types, tree)
                gen.types = t2
                case = _case(gen, t2, tree, 'zoo', cons)
                case['template'] = tname
                cases.append(case)
    return cases


def hash_int(text):
    import hashlib
    return int(hashlib.sha1(text.encode()).hexdigest()[:8], 16)


# --------------------------------------------------------------------------
# helpers

def _cls(obj):
    return type(obj).__name__


def _site(b):
    """Root-cause key of a derivative failure: the class whose
    ``derivative`` was called (leaf kind + option for leaves)."""
    node = b.node
    if node['op'] == 'leaf':
        a = node['args']
        extra = ''
        if node['kind'] == 'ufunc':
            extra = ':' + a['name']
        elif node['kind'] in ('power', 'fpower'):
            extra = ':p=' + ('int' if float(a['p']).is_integer() else 'frac')
        elif node['kind'] == 'pwnorm':
            extra = ':p={}'.format(a.get('exponent'))
        return '{}{}'.format(_cls(b.obj), extra)
    return _cls(b.obj)


def _region(env, node):
    di, ri = env.info(node['dom']), env.info(node['ran'])
    return '{}->{}|{}'.format(di.cat, ri.cat,
                              'cplx' if (di.cplx or ri.cplx) else 'real')


def _eval(env, b, xval):
    """op(x) as NumPy value (x a NumPy value)."""
    y = b.obj(env.element(b.node['dom'], xval))
    return ex.to_np(y, env.set(b.node['ran']))


def _normalise_dir(d):
    m = ex.vmaxabs(d)
    if m == 0:
        return None
    return ex.vmap(lambda p: p / (p.dtype.type(m) if isinstance(
        p, np.ndarray) else m), d)


def _ladder(eps):
    if eps > 1e-10:      # float32
        return [2.0 ** -(2 + 2 * k) for k in range(6)]
    return [2.0 ** -(3 + 3 * k) for k in range(6)]


def fd_errors(env, b, D, x, d, eps):
    """(errors e_k, hs, S, Dd) of the central-difference ladder.  The ladder
    is prolonged (up to 4 more steps) while the error still falls at second
    order at its end, i.e. while truncation dominates (stiff maps)."""
    dom, ran = b.node['dom'], b.node['ran']
    Dd_el = D(env.element(dom, d))
    if Dd_el not in env.set(ran):
        raise Violation('C06|result-space|{}|{}'.format(
            _site(b), _region(env, b.node)),
            'D(d) is not an element of op.range: {!r}'.format(type(Dd_el)))
    Dd = ex.to_np(Dd_el, env.set(ran))
    fx = _eval(env, b, x)
    S = max(ex.vmaxabs(Dd), ex.vmaxabs(fx), 1e-300)
    errs, hs = [], list(_ladder(eps))
    ratio = hs[0] / hs[1]
    qmax = 0.0
    k = 0
    while k < len(hs):
        h = hs[k]
        xp = ex.vadd(x, ex.vscale(h, d))
        xm = ex.vsub(x, ex.vscale(h, d))
        fp, fm = _eval(env, b, xp), _eval(env, b, xm)
        q = ex.vmap(lambda p, m: (p - m) / (2 * h), fp, fm)
        qmax = max(qmax, ex.vmaxabs(q) if ex.vfinite(q) else 0.0)
        e = ex.vmaxabs(ex.vsub(q, Dd)) if ex.vfinite(q) else np.inf
        errs.append(e)
        k += 1
        if k == len(hs) and k < 10 and len(errs) >= 2 and \
                errs[-1] > 0 and errs[-2] / errs[-1] >= ratio ** 1.5:
            hs.append(hs[-1] / ratio)
    S = max(S, qmax)
    return errs, hs, S, Dd, term_magnitude(env, b, x)


def term_magnitude(env, b, x):
    """Largest magnitude T among all intermediate values (arguments and
    results of every node) of the evaluation of ``b`` at ``x``: op(x) may be
    a cancelling combination of terms of that size, so each evaluated
    op(x +- h d) carries an absolute rounding error of about eps*T, however
    small the result is."""
    tr = Tracer(env)
    try:
        tr.ev(b, x)
    except Exception:  # noqa
        return ex.vmaxabs(x)
    return tr.tmax


def deriv_term_magnitude(env, b, x, d, eps):
    """Largest magnitude among the directional derivatives of *all*
    intermediate nodes of ``b`` at ``x`` along ``d`` (central difference of
    the reference evaluation, mid-ladder step): D(d) may be a cancelling
    combination (A'(x)d - A'(x)d) of terms of that size, each carrying a
    relative rounding error eps."""
    h = _ladder(eps)[2]
    try:
        tp, tm = Tracer(env), Tracer(env)
        tp.ev(b, ex.vadd(x, ex.vscale(h, d)))
        tm.ev(b, ex.vsub(x, ex.vscale(h, d)))
    except Exception:  # noqa
        return 0.0
    mag = ex.vmaxabs(d)
    for key, op_ in tp.outputs.items():
        om = tm.outputs.get(key)
        if om is None:
            continue
        try:
            diff = ex.vsub(op_, om)
        except Exception:  # noqa
            continue
        if ex.vfinite(diff):
            mag = max(mag, ex.vmaxabs(diff) / (2 * h))
    return mag


def judge(errs, hs, S, eps, T=0.0):
    """None if the ladder accepts D(d), else a text."""
    k = int(np.argmin(errs))
    emin = errs[k]
    # rounding floor of the quotient at the accepted step: two values with
    # absolute error ~eps*T each, divided by 2h (16: operation count /
    # leaf-internal sums)
    T = max(T, S)
    floor = 16.0 * eps * T / hs[k]
    tol = 256.0 * eps ** (2.0 / 3.0) * S + floor
    if not emin <= tol:
        return ('min error {:.3g} > tol {:.3g} (S={:.3g}, T={:.3g}); ladder '
                '{}'.format(emin, tol, S, T,
                            ' '.join('{:.2g}'.format(e) for e in errs)))
    S = T
    if errs[0] <= 1e4 * eps * S:
        return None
    best = 0.0
    for j in range(k):
        if errs[j] > 0 and emin > 0 and np.isfinite(errs[j]):
            best = max(best, np.log(errs[j] / emin) / np.log(hs[j] / hs[k]))
        elif emin == 0:
            best = np.inf
    if k == 0 or best < 1.5:
        # a minimum at the largest step that is already within a small
        # multiple of the rounding floor is fine as well
        if emin <= 1e4 * eps * S / hs[k]:
            return None
        return 'observed order {:.2f} < 1.5; ladder {}'.format(
            best, ' '.join('{:.2g}'.format(e) for e in errs))
    return None


class Tracer(ex.Interp):
    def __init__(self, *args, **kwargs):
        super(Tracer, self).__init__(*args, **kwargs)
        self.inputs = {}
        self.tmax = 0.0     # largest magnitude of any intermediate value
        self.outputs = {}

    def ev(self, b, x):
        self.inputs.setdefault(id(b), x)
        self.tmax = max(self.tmax, ex.vmaxabs(x))
        r = super(Tracer, self).ev(b, x)
        if ex.vfinite(r):
            self.tmax = max(self.tmax, ex.vmaxabs(r))
        self.outputs.setdefault(id(b), r)
        return r


def _generic_dir(env, key, x):
    """A deterministic direction for localisation: normalised (1 + x/2)."""
    d = ex.vmap(lambda p: (p * 0.5 + 1) if isinstance(p, np.ndarray)
                else p * 0.5 + 1, x)
    return _normalise_dir(d)


def _localise(env, root, x, eps, mode, exc_type=None):
    """Smallest subtree whose own derivative fails (``mode`` 'fd') or raises
    (``mode`` 'crash') at the point it receives inside the root evaluation."""
    tr = Tracer(env)
    try:
        tr.ev(root, x)
    except Exception:  # noqa
        return root
    order = []

    def post(b):
        for k in b.kids:
            if k is not None:
                post(k)
        order.append(b)
    post(root)
    for b in order:
        if id(b) not in tr.inputs or b is root:
            continue
        xb = tr.inputs[id(b)]
        try:
            D = b.obj.derivative(env.element(b.node['dom'], xb))
        except (NotImplementedError,) as e:
            if mode == 'crash' and isinstance(e, exc_type):
                return b
            continue
        except Exception as e:  # noqa
            if mode == 'crash' and isinstance(e, exc_type):
                return b
            continue
        if mode != 'fd':
            continue
        try:
            d = _generic_dir(env, b.node['dom'], xb)
            if d is None:
                continue
            errs, hs, S, _, T = fd_errors(env, b, D, xb, d, eps)
            if judge(errs, hs, S, eps, T) is not None:
                return b
        except Exception:  # noqa
            continue
    return root


def _nonlinear_by_construction(tree):
    return not ex.true_linear(tree)


# --------------------------------------------------------------------------
# exhaustive part: ufunc operators

def _run_ufunc_enum(desc):
    name, nin = desc['name'], desc['nin']
    integer_only = ('shift' in name or 'bitwise' in name or name == 'invert')
    if desc['space'] == 'real':
        space = odl.rn(3)
        x = [0.6, 1.2, 0.9]
    elif desc['space'] == 'cplx':
        space = odl.cn(2)
        x = [0.6 + 0.3j, 1.2 - 0.4j]
    else:
        space = odl.tensor_space(3, dtype=int)
        x = [1, 2, 3]
    try:
        op = getattr(odl.ufunc_ops, name)(space)
    except (TypeError, ValueError):
        # no signature for this dtype: the operator does not exist there
        return Outcome('rejected', strata=['ufunc-enum:no-signature'])
    if integer_only and desc['space'] != 'int':
        return Outcome('rejected', strata=['ufunc-enum:no-signature'])
    point = op.domain.element([x] * nin if nin == 2 else x)
    strata = ['ufunc-enum:' + desc['space']]
    if name in UFUNCS_DERIV:
        if desc['space'] == 'int':
            return Outcome('trivial', strata=['ufunc-enum:int-skip'])
        D = op.derivative(point)
        if not D.is_linear:
            raise Violation('C06|deriv-flag|{}_op|enum'.format(name),
                            'derivative not flagged linear')
        return Outcome('ok', strata=strata + ['ufunc-enum:offered'],
                       nontrivial=False)
    if name in UFUNCS_LIN1 + UFUNCS_LIN2:
        if not op.is_linear:
            raise Violation('C06|linear-flag|{}_op|enum'.format(name),
                            'documented linear ufunc not flagged linear')
        D = op.derivative(point)
        if D is not op:
            raise Violation('C06|self-derivative|{}_op|enum'.format(name),
                            'linear ufunc operator is not its own derivative')
        return Outcome('ok', strata=strata + ['ufunc-enum:linear'],
                       nontrivial=False)
    if op.is_linear:
        raise Violation('C06|linear-flag|{}_op|enum'.format(name),
                        'nonlinear ufunc operator flagged linear')
    try:
        D = op.derivative(point)
    except OpNotImplementedError:
        return Outcome('ok', strata=strata + ['ufunc-enum:not-offered'],
                       nontrivial=True)
    raise Violation('C06|offered-unexpectedly|{}_op|enum'.format(name),
                    'ufunc operator without closed-form derivative returned '
                    '{!r}'.format(_cls(D)))


def _run_ufunc_func_enum(desc):
    """ufunc *functionals* (``odl.ufunc_ops.<name>(field)``): the ten with a
    gradient functional offer a derivative, the documented linear ones are
    their own derivative, every other one raises NotImplementedError (the
    documented behaviour of ``Functional.gradient``)."""
    name = desc['name']
    cplx = desc['field'] == 'cplx'
    field = odl.ComplexNumbers() if cplx else odl.RealNumbers()
    point = (0.7 + 0.3j) if cplx else 0.7
    tag = 'ufunc-func-enum:'
    try:
        f = getattr(odl.ufunc_ops, name)(field)
    except ValueError:
        # documented: 'ufunc not available for <domain>' (two arguments /
        # two results / integer-only)
        return Outcome('rejected', strata=[tag + 'not-available'])
    if cplx:
        try:
            getattr(np, name)(point)
        except TypeError:
            # NumPy has no complex loop for this ufunc: the functional
            # cannot be evaluated on this field at all
            return Outcome('rejected', strata=[tag + 'no-signature'])
    if not isinstance(f, Functional):
        raise Violation('C06|ufunc-func|{}_func|type'.format(name),
                        'odl.ufunc_ops.{}(field) is a {!r}, not a Functional'
                        .format(name, type(f)))
    kind = ('closed-form' if name in UFUNCS_DERIV else
            'linear' if name in UFUNCS_LIN1 else 'no-gradient')
    if kind == 'linear' and not f.is_linear:
        raise Violation('C06|linear-flag|{}_func|enum'.format(name),
                        'documented linear ufunc functional not flagged '
                        'linear')
    if kind != 'linear' and f.is_linear:
        raise Violation('C06|linear-flag|{}_func|enum'.format(name),
                        'nonlinear ufunc functional flagged linear')
    try:
        D = f.derivative(point)
    except NotImplementedError:
        if kind == 'no-gradient':
            return Outcome('ok', strata=[tag + desc['field'],
                                         tag + 'not-offered'],
                           nontrivial=True)
        raise Violation('C06|ufunc-func-derivative|{}|NotImplementedError'
                        .format(kind), 'odl.ufunc_ops.{}({!r}).derivative '
                        'raised NotImplementedError'.format(name, field))
    except Exception as e:  # noqa
        where, csig = crash_signature(PROPERTY, e)
        if where != 'odl':
            raise
        raise Violation('C06|ufunc-func-derivative|{}|{}'.format(
            kind, type(e).__name__),
            'odl.ufunc_ops.{}({!r}).derivative({}) raised {}: {}'.format(
                name, field, point, type(e).__name__, str(e)[:200]))
    if kind == 'no-gradient':
        raise Violation('C06|offered-unexpectedly|{}_func|enum'.format(name),
                        'ufunc functional without gradient returned {!r}'
                        .format(_cls(D)))
    if not isinstance(D, ex.Operator) or not D.is_linear or \
            D.domain != field or D.range != field:
        raise Violation('C06|deriv-type|{}_func|enum'.format(name),
                        'derivative {!r} is not a linear operator field -> '
                        'field'.format(D))
    if kind == 'linear':
        for d in (1.0, -0.75) + ((0.5 - 1.25j,) if cplx else ()):
            got, want = complex(D(d)), complex(f(d))
            if not abs(got - want) <= 64 * np.finfo(float).eps * abs(want):
                raise Violation('C06|self-derivative|{}_func|enum'.format(
                    name), 'derivative(x)({}) = {} but f({}) = {}'.format(
                        d, got, d, want))
    return Outcome('ok', strata=[tag + desc['field'], tag + kind],
                   nontrivial=False)


# --------------------------------------------------------------------------
# the case

class _OutOfRange(Exception):
    """Evaluation left the floating-point range (Python floats on field
    domains raise OverflowError / ZeroDivisionError): input-range matter."""


def run_case(desc):
    try:
        return _run_case(desc)
    except _OutOfRange:
        return Outcome('trivial', strata=['trivial:overflow'],
                       notes={'overflow': 1})


def _run_case(desc):
    if desc.get('what') == 'ufunc-enum':
        return _run_ufunc_enum(desc)
    if desc.get('what') == 'ufunc-func-enum':
        return _run_ufunc_func_enum(desc)
    types = desc['types']
    env = ex.Env(types)
    tree = desc['tree']
    dom, ran = tree['dom'], tree['ran']
    eps = env.eps
    depth = ex.tree_depth(tree)
    reg = _region(env, tree)

    try:
        root = ex.build(env, tree)
    except ex.BuildFailure as bf:
        if bf.where != 'odl':
            raise bf.exc
        raise Violation('C06|build|{}|{}|{}'.format(
            bf.site, _region(env, bf.node), type(bf.exc).__name__),
            'constructing {} failed: {}: {}'.format(
                bf.pattern, type(bf.exc).__name__, str(bf.exc)[:300]))
    op = root.obj
    x = env.np_value(dom, desc['x'])

    # strata ---------------------------------------------------------------
    X = types['X']
    strata = ['what:' + desc['what'],
              'field:' + ('cplx' if 'Xr' in types else 'real'),
              'space:' + X['kind'], 'dtype:' + X['dtype'],
              'weighting:' + ((X.get('weighting') or {'type': 'none'})['type']),
              'root:{}->{}'.format(dom, ran), 'depth:{}'.format(depth)]
    for b in ex.walk(root):
        node = b.node
        if node['op'] == 'leaf':
            strata.append('leaf:' + _site(b))
        else:
            strata.append('class:' + _cls(b.obj))
            strata.append('ctor:{}:{}'.format(node['op'],
                                              node.get('how', 'op')))
            if node['op'] in REP_OPS:
                strata.append('shared-operator:' + _cls(b.obj))
            for k in b.kids:
                if k is not None and k.node['op'] != 'leaf':
                    strata.append('nest:{}<{}'.format(_cls(b.obj),
                                                      _cls(k.obj)))
    funcs = [b for b in ex.walk(root) if isinstance(b.obj, Functional)]
    if funcs:
        strata.append('functional:root' if funcs[0] is root
                      else 'functional:operand')
        for b in funcs:
            if b.obj.is_linear:
                strata.append('functional:flagged-linear')
            if b.node['op'] != 'leaf':
                strata.append('fclass:' + _cls(b.obj))
    if desc['what'] == 'zoo':
        a = tree['args']
        if a.get('pad_const'):
            strata.append('affine:pad_const')
        if tree['kind'] == 'pwnorm':
            strata.append('pwnorm:w={}'.format(
                type(a.get('weighting')).__name__))

    # margin from the non-differentiable sets (all leaves, at the values
    # they receive) ---------------------------------------------------------
    mtr = Tracer(env, margin=MARGIN)
    try:
        fx = mtr.ev(root, x)
    except ex.NearNondiff:
        return Outcome('trivial', strata=['trivial:near-nondiff'])
    except ex.RefOverflow:
        return Outcome('trivial', strata=['trivial:overflow'],
                       notes={'overflow': 1})
    if not ex.vfinite(fx) or ex.vmaxabs(fx) > 1e6:
        return Outcome('trivial', strata=['trivial:overflow'])
    if not all(ex.vfinite(v) for v in mtr.outputs.values()) or \
            mtr.tmax > TMAX:
        # an intermediate value is huge / non-finite although op(x) is not
        # (sin(1e5 ...), 1/cosh(inf)): too stiff for the step ladder
        return Outcome('trivial', strata=['trivial:stiff'],
                       notes={'overflow': 1})

    # derivative -------------------------------------------------------------
    xe = env.element(dom, x)
    try:
        D = op.derivative(xe)
    except NotImplementedError as e:     # includes OpNotImplementedError
        documented = _documented_not_offered(env, root)
        if documented:
            return Outcome('rejected', strata=strata + [
                'not-offered:' + documented])
        culprit = _localise(env, root, x, eps, 'crash', type(e))
        raise Violation('C06|not-offered|{}|{}'.format(
            _site(culprit), _region(env, culprit.node)),
            'derivative raised {}: {} (culprit {} inside {})'.format(
                type(e).__name__, str(e)[:200], ex.node_pattern(culprit),
                ex.node_pattern(root)))
    except (Violation, HarnessError):
        raise
    except (OverflowError, ZeroDivisionError):
        raise _OutOfRange()
    except Exception as e:  # noqa
        where, csig = crash_signature(PROPERTY, e)
        if where != 'odl':
            raise
        culprit = _localise(env, root, x, eps, 'crash', type(e))
        raise Violation('C06|derivative-crash|{}|{}|{}|{}'.format(
            _site(culprit), _region(env, culprit.node), type(e).__name__,
            csig.split('|')[-1]),
            '{}: {} (culprit {} inside {})'.format(
                type(e).__name__, str(e)[:300], ex.node_pattern(culprit),
                ex.node_pattern(root)))

    site = _site(root)
    if not isinstance(D, ex.Operator):
        raise Violation('C06|deriv-type|{}|{}'.format(site, reg),
                        'derivative(x) is a {!r}'.format(type(D)))
    if not D.is_linear:
        culprit = _flag_culprit(env, root, x)
        raise Violation('C06|deriv-flag|{}|{}'.format(_site(culprit), reg),
                        'derivative(x).is_linear is False ({})'.format(
                            _cls(D)))
    if D.domain != op.domain:
        raise Violation('C06|deriv-domain|{}|{}'.format(site, reg),
                        'D.domain {!r} != op.domain {!r}'.format(
                            D.domain, op.domain))
    if D.range != op.range:
        culprit = _range_culprit(env, root, x)
        raise Violation('C06|deriv-range|{}|{}'.format(_site(culprit),
                                                       _region(
                                                           env, culprit.node)),
                        'D.range {!r} != op.range {!r}'.format(
                            D.range, op.range))

    # directions -------------------------------------------------------------
    dirs = [env.np_value(dom, d) for d in desc['dirs']]
    if desc['special'] == 'x':
        dirs.append(x)
    elif desc['special'] == 'coord':
        flatx = ex.vflat(x)
        if flatx.size:
            dirs.append(_coord_dir(x, desc['coord'] % flatx.size))
    dirs = [d for d in (_normalise_dir(d) for d in dirs) if d is not None]
    if not dirs:
        return Outcome('trivial', strata=['trivial:zero-direction'])

    def guard(fn, what, d):
        try:
            return fn()
        except (Violation, HarnessError):
            raise
        except Exception as e:  # noqa
            if isinstance(e, (OverflowError, ZeroDivisionError)):
                raise _OutOfRange()
            where, csig = crash_signature(PROPERTY, e)
            if where != 'odl':
                raise
            raise Violation('C06|{}|{}|{}|{}|{}'.format(
                what, site, reg, type(e).__name__, csig.split('|')[-1]),
                '{}: {}'.format(type(e).__name__, str(e)[:300]))

    # operators flagged linear are their own derivative
    if op.is_linear:
        for d in dirs:
            de = env.element(dom, d)
            Dd = ex.to_np(guard(lambda: D(de), 'deriv-call', d),
                          env.set(ran))
            od = _eval(env, root, d)
            err = ex.vmaxabs(ex.vsub(Dd, od))
            if not err <= 64 * eps * max(ex.vmaxabs(od), ex.vmaxabs(fx),
                                         term_magnitude(env, root, d),
                                         1e-300) + 1e-300:
                culprit = _linear_culprit(env, root)
                raise Violation('C06|self-derivative|{}|{}'.format(
                    _site(culprit), _region(env, culprit.node)),
                    'operator is flagged linear but derivative(x)(d) != '
                    'op(d): error {:.3g} (|op(d)| = {:.3g})'.format(
                        err, ex.vmaxabs(od)))
        strata.append('linear-flagged')

    # ladder ----------------------------------------------------------------
    Smax = 0.0
    for i, d in enumerate(dirs):
        errs, hs, S, Dd, T = guard(
            lambda: fd_errors(env, root, D, x, d, eps), 'deriv-call', d)
        Smax = max(Smax, S)
        verdict = judge(errs, hs, S, eps, T)
        if verdict is not None:
            culprit = _localise(env, root, x, eps, 'fd')
            raise Violation('C06|fd|{}|{}'.format(
                _site(culprit), _region(env, culprit.node)),
                'direction {}: {}; D(d)={} ; culprit {} inside {}'.format(
                    i, verdict, np.array2string(ex.vflat(Dd)[:5],
                                                precision=5),
                    ex.node_pattern(culprit), ex.node_pattern(root)))

    # a linear operator maps 0 to 0 (an affine "derivative" -- the operator
    # itself returned for an operand wrongly taken to be linear -- shows here
    # independently of the ladder) -------------------------------------------
    zero = env.zero_value(dom)
    D0 = ex.to_np(guard(lambda: D(env.element(dom, zero)), 'deriv-call',
                        zero), env.set(ran))
    if not ex.vmaxabs(D0) <= 64 * eps * Smax:
        culprit = _localise(env, root, x, eps, 'fd')
        raise Violation('C06|deriv-zero|{}|{}'.format(
            _site(culprit), _region(env, culprit.node)),
            'derivative(x)(0) = {} is not 0 (max |D(d)| = {:.3g}); culprit {} '
            'inside {}'.format(np.array2string(ex.vflat(D0)[:4], precision=6),
                               Smax, ex.node_pattern(culprit),
                               ex.node_pattern(root)))

    # D is numerically (real-)linear -------------------------------------------
    if len(dirs) >= 2:
        a = ex.scalar_value(desc['lin'][0])
        c = ex.scalar_value(desc['lin'][1])
        d1, d2 = dirs[0], dirs[1]
        comb = ex.vadd(ex.vscale(a, d1), ex.vscale(c, d2))
        y = [ex.to_np(guard(lambda v=v: D(env.element(dom, v)),
                            'deriv-call', v), env.set(ran))
             for v in (d1, d2, comb)]
        expect = ex.vadd(ex.vscale(a, y[0]), ex.vscale(c, y[1]))
        # (scale: the ladder's S as well -- D(d) may be a cancelling sum of
        # terms of that size)
        td = [deriv_term_magnitude(env, root, x, v, eps)
              for v in (d1, d2, comb)]
        tol = 256 * eps * (abs(a) * max(ex.vmaxabs(y[0]), Smax, td[0]) +
                           abs(c) * max(ex.vmaxabs(y[1]), Smax, td[1]) +
                           max(ex.vmaxabs(y[2]), td[2])) + 1e-300
        err = ex.vmaxabs(ex.vsub(y[2], expect))
        if not err <= tol:
            raise Violation('C06|deriv-nonlinear|{}|{}'.format(site, reg),
                            'D(a d1 + c d2) != a D(d1) + c D(d2): error '
                            '{:.3g} tol {:.3g}'.format(err, tol))
        strata.append('deriv-linearity-checked')

    # affine operators: matrix of D = matrix of the linear part -----------------
    if desc['what'] == 'zoo' and tree['args'].get('pad_const') and \
            ex.rdim(types, dom) <= 24 and ex.rdim(types, ran) <= 24:
        M, off = flat.opmatrix(op)
        MD, offD = flat.opmatrix(D)
        scale = max(np.abs(M).max(initial=0), 1e-300)
        if np.abs(offD).max(initial=0) > 256 * eps * scale or \
                np.abs(M - MD).max(initial=0) > 256 * eps * scale:
            raise Violation('C06|affine-matrix|{}|{}'.format(site, reg),
                            'matrix of derivative differs from the linear '
                            'part by {:.3g}'.format(
                                np.abs(M - MD).max(initial=0)))
        strata.append('affine-matrix-checked')

    # the returned derivative is a snapshot: it must not change when the
    # caller modifies its base point in place afterwards ----------------------
    if env.info(dom).cat != 'field':
        d0 = dirs[0]
        before = ex.to_np(guard(lambda: D(env.element(dom, d0)),
                                'deriv-call', d0), env.set(ran))
        _mutate(env, dom, xe)
        after = ex.to_np(guard(lambda: D(env.element(dom, d0)),
                               'deriv-call', d0), env.set(ran))
        if not _same(before, after):
            culprit = _snapshot_culprit(env, root, x, d0)
            raise Violation('C06|snapshot|{}|{}'.format(
                _site(culprit), _region(env, culprit.node)),
                'D = op.derivative(x) changes when x is modified in place '
                'afterwards: D(d) {} -> {} (culprit {} inside {})'.format(
                    np.array2string(ex.vflat(before)[:4], precision=6),
                    np.array2string(ex.vflat(after)[:4], precision=6),
                    ex.node_pattern(culprit), ex.node_pattern(root)))
        strata.append('snapshot-checked')

    nontriv = _nonlinear_by_construction(tree)
    return Outcome('ok', strata=strata, nontrivial=nontriv,
                   notes={'directions': len(dirs)})


def _mutate(env, key, xe):
    """Modify the ODL element ``xe`` in place: x <- 1.5 x + 0.25 (keeps
    positive points positive)."""
    space = env.set(key)
    xe.lincomb(1.5, xe, 0.25, space.one())


def _same(a, b):
    fa, fb = ex.vflat(a), ex.vflat(b)
    return fa.shape == fb.shape and bool(np.all(
        (fa == fb) | (np.isnan(fa) & np.isnan(fb))))


def _snapshot_culprit(env, root, x, d0=None):
    """Smallest subtree that receives the caller's x itself and whose own
    derivative keeps it by reference."""
    tr = Tracer(env)
    try:
        tr.ev(root, x)
    except Exception:  # noqa
        return root
    order = []

    def post(b):
        for k in b.kids:
            if k is not None:
                post(k)
        order.append(b)
    post(root)
    def part_of(v, whole, other=None):
        """(True, matching part of ``other``) if ``v`` is (a component of)
        ``whole``."""
        if v is whole:
            return True, other
        if isinstance(whole, list):
            for i, c in enumerate(whole):
                hit, sub = part_of(v, c, None if other is None else other[i])
                if hit:
                    return True, sub
        return False, None

    for b in order:
        xin = tr.inputs.get(id(b))
        if b is root or xin is None:
            continue
        hit, dpart = part_of(xin, x, d0)
        if not hit:
            continue
        key = b.node['dom']
        for dd in (dpart, _generic_dir(env, key, xin)):
            if dd is None or ex.vmaxabs(dd) == 0:
                continue
            try:
                xb = env.element(key, xin)
                Db = b.obj.derivative(xb)
                y0 = ex.to_np(Db(env.element(key, dd)),
                              env.set(b.node['ran']))
                _mutate(env, key, xb)
                y1 = ex.to_np(Db(env.element(key, dd)),
                              env.set(b.node['ran']))
                if not _same(y0, y1):
                    return b
            except Exception:  # noqa
                continue
    return root


def _coord_dir(x, idx):
    """Unit coordinate direction ``idx`` with the structure of ``x``."""
    counter = [0]

    def f(p):
        if isinstance(p, np.ndarray):
            z = np.zeros_like(p)
            n = p.size
            if counter[0] <= idx < counter[0] + n:
                z.flat[idx - counter[0]] = 1
            counter[0] += n
            return z
        hit = counter[0] == idx
        counter[0] += 1
        return type(p)(1.0 if hit else 0.0)
    return ex.vmap(f, x)


def _documented_not_offered(env, root):
    """Documented 'not offered' configurations (PointwiseNorm on complex
    spaces or with exponent inf) occurring in the tree."""
    for b in ex.walk(root):
        node = b.node
        if node['op'] == 'leaf' and node['kind'] == 'fcompgrad_nl':
            return 'FunctionalCompositionGradient:nonlinear-inner'
        if node['op'] == 'leaf' and node['kind'] == 'pwnorm':
            if env.info(node['dom']).cplx:
                return 'PointwiseNorm:complex'
            if node['args'].get('exponent') == float('inf'):
                return 'PointwiseNorm:inf'
    return None


def _flag_culprit(env, root, x):
    tr = Tracer(env)
    try:
        tr.ev(root, x)
    except Exception:  # noqa
        return root
    best = root
    for b in ex.walk(root):
        if id(b) not in tr.inputs:
            continue
        try:
            D = b.obj.derivative(env.element(b.node['dom'], tr.inputs[id(b)]))
            if not D.is_linear:
                best = b
        except Exception:  # noqa
            pass
    return best


def _range_culprit(env, root, x):
    tr = Tracer(env)
    try:
        tr.ev(root, x)
    except Exception:  # noqa
        return root
    best = root
    for b in ex.walk(root):
        if id(b) not in tr.inputs:
            continue
        try:
            D = b.obj.derivative(env.element(b.node['dom'], tr.inputs[id(b)]))
            if D.range != b.obj.range:
                best = b
        except Exception:  # noqa
            pass
    return best


def _linear_culprit(env, root):
    """Deepest node flagged linear that is not linear by construction."""
    best = root
    for b in ex.walk(root):
        if b.obj.is_linear and not ex.true_linear(b.node):
            best = b
    return best


REQUIRED_STRATA = (
    ['leaf:{}_op:{}'.format(n, n) for n in UFUNCS_DERIV] +
    ['leaf:PowerOperator:p=int', 'leaf:PowerOperator:p=frac',
     'leaf:PointwiseNorm:p=1.0', 'leaf:PointwiseNorm:p=1.5',
     'leaf:PointwiseNorm:p=None', 'leaf:PointwiseNorm:p=3.0',
     'leaf:PointwiseInner', 'leaf:ComplexModulus',
     'leaf:ComplexModulusSquared', 'leaf:NormOperator', 'leaf:DistOperator',
     'leaf:RealPart', 'leaf:ImagPart', 'leaf:ComplexEmbedding',
     'leaf:Laplacian', 'leaf:PartialDerivative', 'leaf:Gradient',
     'leaf:Divergence', 'leaf:ResizingOperator', 'affine:pad_const',
     'affine-matrix-checked', 'class:ProductSpaceOperator',
     'class:BroadcastOperator', 'class:ReductionOperator',
     'class:DiagonalOperator', 'class:OperatorPointwiseProduct',
     'class:OperatorComp', 'class:OperatorSum', 'class:OperatorVectorSum',
     'class:OperatorLeftScalarMult', 'class:OperatorRightScalarMult',
     'class:OperatorLeftVectorMult', 'class:OperatorRightVectorMult',
     'class:FunctionalLeftVectorMult', 'ctor:sum:ctor_tmp',
     'field:cplx', 'dtype:float32', 'space:discr', 'weighting:array',
     'not-offered:PointwiseNorm:inf', 'ufunc-enum:not-offered',
     'not-offered:FunctionalCompositionGradient:nonlinear-inner',
     'linear-flagged', 'deriv-linearity-checked', 'snapshot-checked',
     'what:shared', 'what:func', 'shared-operator:ReductionOperator',
     'shared-operator:DiagonalOperator',
     'shared-operator:ProductSpaceOperator',
     'shared-operator:BroadcastOperator', 'ctor:rep_reduction:n',
     'ctor:rep_reduction:explicit', 'functional:root', 'functional:operand',
     'functional:flagged-linear', 'fclass:FunctionalQuadraticPerturb',
     'fclass:FunctionalSum', 'fclass:FunctionalScalarSum',
     'fclass:FunctionalLeftScalarMult', 'fclass:FunctionalRightScalarMult',
     'fclass:FunctionalComp', 'fclass:FunctionalRightVectorMult',
     'fclass:FunctionalTranslation', 'fclass:FunctionalProduct',
     'fclass:FunctionalQuotient', 'fclass:BregmanDistance',
     'leaf:QuadraticForm', 'leaf:L2NormSquared', 'leaf:L1Norm',
     'leaf:L2Norm', 'leaf:ConstantFunctional', 'ufunc-func-enum:closed-form',
     'ufunc-func-enum:not-available'])
