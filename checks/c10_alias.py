"""C10 - ``P(x, out=x)`` for proximals and in-place solver building blocks.

Generator: every proximal *factory* of ``proximal_operators.py`` called
directly (with / without data term ``g``, ``lam``, scalar / element-valued
step where documented, the calculus rules applied to them), every
``Functional.proximal`` of the functional catalogue (also of convex
conjugates), the elementary operators solvers apply to their iterates
(scaling, multiplication, constants, translations, linear combinations),
operator-arithmetic wrappers around all of these, and the element-level
aliased calls an AST scan of ``odl/solvers`` finds (OS-MLEM, prox-DCA).
Oracle: differential - ``r = P(copy(x))``; ``y = copy(x); P(y, out=y)`` must
return ``y`` holding ``r``; ``P(x, out=fresh)`` guards the out-of-place path.
"""
import numpy as np
from hypothesis import strategies as st

from vlib import flat, zoo_ops as zoo
from vlib.core import Violation, Outcome, HarnessError
from checks.c03_opcall import compare, _fresh_out, _bytes, _leaves

odl = zoo.odl
from odl.set.sets import Field  # noqa: E402

PROPERTY = 'C10'
TECHNIQUE = ('Hypothesis property-based testing: every proximal factory / '
             'Functional.proximal / in-place solver building block from the '
             'operator catalogue, differential aliased vs out-of-place '
             'evaluation; aliased call sites derived by an AST scan of '
             'odl/solvers; descriptor replay')
LEVEL_TEXT = ('Generated-input search over proximal factory x options (data '
              'term, lam, scalar / element step, calculus rule) x space '
              '(tensor, weighted, discretized, power, product) x point; the '
              'aliased result is compared with the out-of-place result of '
              'the same operator. Exploration, not proof.')
LEVEL_NOTE = ('Trusted: NumPy, Hypothesis, the descriptor builders; the '
              'out-of-place value is the reference by the property text '
              '(its correctness is C07\'s subject) and is cross-checked '
              'against a non-aliased in-place call.')
DESIGN_REF = 'DESIGN.md section 5, C10'
BUDGET = {'quick': 12000, 'thorough': 100000}
K_TOL = 4
TOLERANCES = {
    'aliased_vs_outofplace': '|y-r| <= 4*eps(dtype)*max(|r|,|y|,|x|) per '
                             'leaf (eps of the coarsest leaf in mixed-'
                             'precision product spaces); exact for selections / constants '
                             '(identity, box projection, constant, zero); '
                             'NaN / inf at identical positions',
    'fresh_inplace_vs_outofplace': '16*eps*max(|r|,|z|,|x|)',
}
ASSUMPTIONS = [
    'only operators the property names are called aliased: proximals, '
    'operator arithmetic around them, scaling / multiplication / constant / '
    'translation / linear-combination operators and box / ball projections; '
    'general operators (matrices, differences, FFTs) make no aliasing '
    'promise and are not called with out=x',
    'points are finite and inside the documented domain (positive data for '
    'the KL proximals); steps and lam are positive',
    'Huber proximal on scalar fields only (vector fields: known finding F11 '
    'of C07)',
]
RULE = ('Hypothesis draws (catalogue entry tagged alias-safe, options, '
        'point); plus a fixed sweep of every such entry. Non-trivial = '
        'P(x) != x and P(x) != 0 (the operator moved the point and did not '
        'collapse it); distinct by sha1 of the descriptor')


def _names(tier):
    return [n for n, e in zoo.ENTRIES.items() if e.c10]


@st.composite
def _case(draw, names=None, name=None):
    if name is None:
        name = draw(zoo.weighted_entry_names(names))
    od = draw(zoo.entry_descs(name))
    dom = od.pop('dom')
    return {'op': od,
            'x': draw(zoo.point_descs(dom, orders=('C', 'C', 'C', 'F',
                                                   'strided'))),
            # call style: P(y, out=y) at a generated point, or at an
            # element-valued parameter object of the operator itself
            'style': draw(st.sampled_from(['point', 'point', 'param'])),
            'pidx': draw(st.integers(0, 7))}


# operators implementing only `_call(self, x)` (probed over the catalogue via
# `_call_has_out`); 'alias.expr.oop-operand' wraps them in every position
OOP_POOL = None
OOP_POOL_SIZE = None


def _oop_pool():
    global OOP_POOL, OOP_POOL_SIZE
    if OOP_POOL is None:
        OOP_POOL = list(zoo.get_oop_pool())
        OOP_POOL_SIZE = len(OOP_POOL)
        ASSUMPTIONS.append(
            'operands implementing only the out-of-place _call(self, x) '
            '(probed over the catalogue): {} entries {}'.format(
                OOP_POOL_SIZE, OOP_POOL))
    return OOP_POOL


def strategy(tier):
    _oop_pool()
    return _case(names=_names(tier))


def enumerate_cases(tier):
    _oop_pool()
    return zoo.sweep(lambda n: _case(name=n), _names(tier),
                     per_entry=4 if tier == 'quick' else 10)


EXHAUSTIVE = {
    'quick': ['catalogue sweep: every alias-safe zoo entry x 4 seeded draws '
              'of its options'],
    'thorough': ['catalogue sweep: every alias-safe zoo entry x 10 seeded '
                 'draws of its options'],
}

SITES = zoo.aliased_call_sites()


def _copy(x, spc):
    return x if isinstance(spc, Field) else x.copy()


def _maxabs(x, spc):
    m = 0.0
    for a in _leaves(x, spc):
        a = np.asarray(a)
        if a.size and a.dtype.kind in 'fc':
            f = np.abs(a[np.isfinite(a)])
            if f.size:
                m = max(m, float(f.max()))
    return m


def _cmp(got, ref, spc, exact, ktol, xs):
    """None if ``got`` equals ``ref`` within ktol*eps*max(|got|,|ref|,|x|)
    per leaf (the scale includes |x|: cancellation in x - shrink(x)), else a
    message."""
    la, lb = _leaves(got, spc), _leaves(ref, spc)
    epsmax = max([np.finfo(np.asarray(a).dtype).eps for a in la
                  if np.asarray(a).dtype.kind in 'fc'] or [0.0])
    for i, (a, b) in enumerate(zip(la, lb)):
        a, b = np.asarray(a), np.asarray(b)
        if a.shape != b.shape or a.dtype != b.dtype:
            return 'leaf {}: shape/dtype {} {} vs {} {}'.format(
                i, a.shape, a.dtype, b.shape, b.dtype)
        fa, fb = np.isfinite(a), np.isfinite(b)
        if not np.array_equal(fa, fb) or not np.array_equal(
                np.isnan(a), np.isnan(b)):
            return 'leaf {}: non-finite pattern differs'.format(i)
        if not fa.any():
            continue
        if exact or a.dtype.kind not in 'fc':
            ok = np.array_equal(a[fa], b[fa])
            tol = 0.0
        else:
            eps = max(np.finfo(a.dtype).eps, epsmax)
            scale = max(np.abs(a[fa]).max(), np.abs(b[fa]).max(), xs)
            tol = ktol * eps * scale + 4 * np.finfo(a.dtype).tiny
            ok = bool((np.abs(a[fa] - b[fa]) <= tol).all())
        if not ok:
            d = np.abs(a[fa] - b[fa])
            j = int(np.argmax(d))
            return 'leaf {}: {!r} vs out-of-place {!r} (max diff {:.3g}, ' \
                   'tol {:.3g})'.format(i, a[fa][j], b[fa][j],
                                        float(d.max()), float(tol))
    return None


def run_case(desc):
    try:
        op, ent = zoo.build_op(desc['op'])
    except zoo.DOCUMENTED_BUILD_REJECTIONS:
        return Outcome('rejected', strata=['build-rejected:' +
                                           desc['op']['entry']])
    name, cls = ent.name, type(op).__name__
    dom, ran = op.domain, op.range
    opts = desc['op']['opts']
    part = opts.get('alias_part')
    if part is None and dom != ran:
        raise HarnessError('C10 entry {} has domain != range'.format(name))
    x = zoo.point(dom, desc['x'])
    style = desc.get('style', 'point')
    holder = None
    if style == 'param' and part is None:
        # x-is-parameter: the evaluation point is the very object the
        # operator holds as data term / translation / linear term / prior /
        # element-valued step / bound / multiplicand
        params = []
        for p_ in getattr(op, '_verif_params', []):
            if p_ in dom and not any(p_ is q for q in params):
                params.append(p_)
        if params:
            x = params[desc.get('pidx', 0) % len(params)]
            holder = zoo.param_holder(op, x)
        else:
            style = 'point'
    else:
        style = 'point'
    variant = str(opts.get('variant', opts.get('how', '-')))
    mshape = opts.get('matshape') or (opts.get('v') or {}).get('matshape')
    if mshape:
        variant += ',' + mshape
    # region: the options that select a code path of the proximal (data
    # term, step kind) and the coarse space kind; wrappers keep their entry
    vshort = ','.join(variant.split(',')[:2])
    region = '{},{}'.format(
        vshort if cls.startswith('Prox') else name + ',' + vshort,
        zoo._space_tag(ran).split('-')[0])
    strata = ['entry:' + name, 'cls:' + cls, 'family:' + ent.family,
              'variant:{}|{}'.format(name, variant),
              'space:' + zoo._space_tag(ran)]

    if style == 'param':
        strata.append('x-is-parameter')
        strata.append('x-is-parameter:' + name)
    V = getattr(op, '_verif_oop_operand', None)
    if V is not None and not type(V)._call_has_out:
        strata.append('operand-oop-only')
    W = getattr(op, '_verif_view_inner', None)
    if W is not None and style == 'point':
        try:
            if zoo.result_shares_memory(W, x):
                strata.append('inner-returns-view')
        except Exception:  # noqa
            pass

    def sig(clause, extra=''):
        if style == 'param':
            # root cause key: which (sub-)operator keeps the parameter object
            extra = (extra + '|' if extra else '') + 'x-is-parameter|' + \
                'holder=' + (holder or 'none')
        return 'C10|{}|{}|{}{}'.format(clause, cls, region,
                                       '|' + extra if extra else '')

    # reference: out-of-place on a copy
    x0 = _copy(x, dom)
    x0b = _bytes(x0, dom)
    try:
        r = op(x0)
    except NotImplementedError:
        return Outcome('rejected', strata=['call-not-offered:' + name])
    except Exception as e:  # noqa
        if zoo.innermost_is_harness(e):
            raise
        raise Violation(sig('oop-raises', type(e).__name__),
                        '{}: P(x) raised {!r}'.format(name, e))
    if r not in ran:
        raise Violation(sig('not-in-range'), name + ': P(x) not in range')
    if _bytes(x0, dom) != x0b:
        raise Violation(sig('x-modified'), name + ': P(x) modified x')

    # guard: non-aliased in-place evaluation
    z = _fresh_out(ran, 'C', np.nan)
    try:
        op(x, out=z)
    except Exception as e:  # noqa
        if zoo.innermost_is_harness(e):
            raise
        raise Violation(sig('fresh-inplace-raises', type(e).__name__),
                        '{}: P(x, out=fresh) raised {!r}'.format(name, e))
    xs = _maxabs(x0, dom)
    msg = _cmp(z, r, ran, ent.exact, 16, xs)
    if msg:
        raise Violation(sig('fresh-inplace'),
                        '{}: P(x, out=fresh) != P(x) (C03 matter): {}'.format(
                            name, msg))

    # aliased call
    # (the reference r and the guard z were computed above, before the
    # parameter object is overwritten)
    y = x if style == 'param' else _copy(x, dom)
    target = y if part is None else y[part]
    otherb = None if part is None else _bytes(y[1 - part], dom[1 - part])
    try:
        r2 = op(y, out=target)
    except Exception as e:  # noqa
        if zoo.innermost_is_harness(e):
            raise
        raise Violation(sig('aliased-raises', type(e).__name__),
                        '{}: P(y, out=y) raised {!r}'.format(name, e))
    if r2 is not target:
        raise Violation(sig('identity'), name + ': P(y, out=y) is not y')
    bad = _cmp(target, r, ran, ent.exact, K_TOL, xs)
    if bad:
        raise Violation(sig('aliased-value'),
                        '{}: P(y, out=y) differs from P(x): {}'.format(
                            name, bad))
    if part is not None:
        other = 1 - part
        if _bytes(y[other], dom[other]) != otherb:
            raise Violation(sig('x-modified', 'other-part'),
                            name + ': the non-aliased part was modified')

    # non-triviality: P(x) != x and P(x) != 0
    rmax = _maxabs(r, ran)
    if part is None:
        moved = compare(r, x0, ran, True, 0) is not None
    else:
        moved = compare(r, x[part], ran, True, 0) is not None
    nontriv = moved and rmax > 0
    strata.append('moved' if moved else 'fixed-point')
    if rmax == 0:
        strata.append('collapsed-to-zero')
    if desc['x'].get('order', 'C') != 'C':
        strata.append('x-' + desc['x']['order'])
    return Outcome('ok', strata=strata, nontrivial=nontriv)


REQUIRED_STRATA = ['entry:' + n for n, e in zoo.ENTRIES.items()
                   if e.c10 and n != 'fprox.IndicatorNuclearNormUnitBall'] + \
    ['moved', 'space:pspace', 'space:discr', 'space:tensor',
     'x-is-parameter', 'operand-oop-only', 'inner-returns-view']

_cats = sorted({s[4] for s in SITES})
ASSUMPTIONS = ASSUMPTIONS + [
    'aliased call sites found by the AST scan of odl/solvers ({} sites, '
    'categories {}): {}'.format(
        len(SITES), _cats,
        '; '.join('{}:{} {} [{}]'.format(f, ln, c, m)
                  for f, ln, c, m, _ in SITES)),
    'every site category maps to catalogue families: {}; unclassified '
    'sites: {}'.format(
        dict(zoo.SITE_FAMILIES),
        [s[:3] for s in SITES if s[4] not in zoo.SITE_FAMILIES] or 'none'),
]
