"""C04 - operator arithmetic means what the algebra table says.

Generator: well-typed expression trees (``vlib.exprs``) over a leaf pool of
linear / nonlinear / functional leaves on real, complex, weighted, discretized
and float32 spaces, built with every overload (``+ - unary- unary+ * @ / **``,
reflected variants with scalars / NumPy scalars / vectors) and with the
expression classes' constructors (incl. ``tmp`` arguments), depth <= 4.
Oracle: an independent reference interpreter applying the documented table
recursively on NumPy values, calling ODL only for leaves; ``expr(x)``,
``expr(x, out=NaN-filled)``, aliased ``y = x.copy(); e(y, out=y)`` for every
subexpression with domain == range, ``expr.domain/range``, ``is_linear`` =>
numerically linear, linear-by-construction => flag set, documented
``Functional`` return types, ``TypeError`` for scalars / vectors outside the
relevant field / space.
"""
import numpy as np
from hypothesis import strategies as st

from vlib import exprs as ex
from vlib.core import Violation, Outcome, HarnessError, crash_signature

odl = ex.odl
Functional = ex.Functional

PROPERTY = 'C04'
TECHNIQUE = ('Hypothesis property-based testing: typed expression-tree '
             'grammar (programs) x evaluation points against an independent '
             'reference interpreter of the documented algebra table; '
             'descriptor replay')
LEVEL_TEXT = ('Generated-program search: random well-typed expression trees '
              '(depth <= 4) over 33 leaf kinds and every arithmetic overload '
              '/ expression-class constructor, on real, complex, weighted, '
              'discretized and float32 spaces; each tree is evaluated '
              'out-of-place and in-place at several points and compared with '
              'a reference interpreter that applies the table recursively '
              'and touches ODL only at the leaves. Domain, range, linearity '
              'flag (numerically) and documented result types are checked as '
              'well. Exploration, not proof: the program space is sampled '
              '(every pair of nested expression classes and every '
              'scalar-merging shortcut is a counted stratum).')
LEVEL_NOTE = ('Trusted: NumPy arithmetic, Hypothesis, evaluation of ODL leaf '
              'operators (pinned by C03/C13/C17), vlib.build. Tolerance is '
              'derived per case from a perturbed re-run of the reference '
              '(rounding-error propagation through the same tree).')
DESIGN_REF = 'DESIGN.md section 5, C04'
BUDGET = {'quick': 10000, 'thorough': 80000}
NOISE = 4.0
TOLERANCES = {
    'value': '|got-ref|_max <= 16*delta + 64*eps(dtype)*(depth+1)*|ref|_max '
             '+ tiny; delta = max deviation of two re-runs of the reference '
             'in which every node result and every computed argument (a*x, '
             'v*x, x-v) is perturbed entry-wise by +-4*eps, real and '
             'imaginary parts independently (measures how rounding '
             'propagates through this tree at '
             'this point); cases with delta > 1e-4*|ref| (ill-conditioned) '
             'or a non-finite reference are counted trivial',
    'linearity': '|expr(a x + c y) - a expr(x) - c expr(y)|_max <= 4*(|a| t_x '
                 '+ |c| t_y + t_comb) + 64*eps*(depth+1)*(|a||expr(x)| + '
                 '|c||expr(y)| + T); t_* = value tolerances (propagated '
                 'noise) of the three evaluations, T = largest magnitude of '
                 'any intermediate value (node arguments / results) of the '
                 'three reference evaluations, weighted by |a|, |c|, 1: the '
                 'result may be a cancelling combination of terms of that '
                 'size',
    'in-place': 'same bound as out-of-place; out is NaN-filled before the '
                'call',
    'alias-inplace': 'y = x.copy(); e(y, out=y) for every subexpression e '
                     'with domain == range at the argument it receives inside '
                     'the root evaluation: same bound, delta taken at that '
                     'node; expressions over a leaf that is itself not '
                     'alias-safe (recorded: PartialDerivative, Laplacian) '
                     'are skipped and counted',
}
ASSUMPTIONS = [
    'leaf operators evaluate correctly (other properties pin them); the '
    'reference calls them out-of-place only',
    'data entries in [-2, 2], scalars in {0, +-1, +-0.25..3} (+ imaginary '
    'parts on complex fields): keeps depth-4 compositions of exp/square '
    'inside the floating-point range; overflowing trees are counted trivial',
    'A*a -> a*A for operators flagged linear is semantically equal and not '
    'second-guessed; is_linear == False is never asserted to imply '
    'non-linearity',
    'Functionals on complex spaces take part only as values of the table '
    '(no convexity notions are used)',
]
RULE = ('Hypothesis draws (type table: space kind/dtype/weighting; root '
        'signature; tree; points). Non-trivial = depth >= 2 and (a nonlinear '
        'leaf or a right-scalar / right-vector / division node) and a finite, '
        'well-conditioned reference; distinct by sha1 of the descriptor')


# --------------------------------------------------------------------------
# strategy

ROOTS_REAL = [('X', 'X')] * 6 + [('X', 'Y'), ('Y', 'X'), ('Y', 'Y')] + \
    [('X', 'F')] * 4 + [('F', 'X'), ('F', 'F')]
ROOTS_CPLX = ROOTS_REAL + [('X', 'Xr')] * 2 + [('Xr', 'X'), ('X', 'R'),
                                              ('Xr', 'R'), ('Xr', 'Xr')]


@st.composite
def _strategy(draw, tier):
    types = draw(ex.base_types())
    cplx = 'Xr' in types
    pairs = ex.inhabited_pairs(types, 'c04')
    roots = [r for r in (ROOTS_CPLX if cplx else ROOTS_REAL) if r in pairs]
    dom, ran = draw(st.sampled_from(roots))
    depth = draw(st.sampled_from([1, 2, 2, 3, 3, 3, 4, 4]))
    tree = draw(ex.trees(types, dom, ran, depth, 'c04', pairs))
    desc = {'types': types, 'tree': tree, 'mode': 'eval'}
    if draw(st.sampled_from([False] * 39 + [True])):
        # rejection stratum: scalar outside the field / vector of the wrong
        # space applied to a well-typed expression
        opts = []
        fcplx = ex.tinfo(types, types[ran]['fkey']).cplx
        dcplx = ex.tinfo(types, types[dom]['fkey']).cplx
        if not fcplx:
            opts += ['lscal', 'addscal']
        if not dcplx and not fcplx:
            # (for operators flagged linear A*a is rewritten to a*A, so the
            # range field decides as well)
            opts += ['rscal', 'div']
        other = 'Y' if 'X' in (dom, ran) else 'X'
        if ex.tinfo(types, dom).cat == 'leaf' and dom in ('X', 'Y'):
            opts.append('rvec')
        if ex.tinfo(types, ran).cat == 'leaf' and ran in ('X', 'Y'):
            opts += ['lvec', 'addvec']
        if opts:
            bad = draw(st.sampled_from(opts))
            desc['mode'] = 'reject'
            desc['bad'] = bad
            if bad in ('rvec', 'lvec', 'addvec'):
                key = {'rvec': dom, 'lvec': ran, 'addvec': ran}[bad]
                wrong = 'Y' if key == 'X' else 'X'
                # only a wrong vector if the two spaces really differ
                if types['X']['shape'] == types['Y']['shape']:
                    desc['mode'] = 'eval'
                desc['wrong'] = wrong
                desc['v'] = draw(ex.values(types, wrong))
            else:
                desc['s'] = {'v': complex(draw(st.sampled_from(
                    [0.0, 1.0, 2.0])), draw(st.sampled_from([1.0, -0.5]))),
                    'np': draw(st.sampled_from([None, 'complex128']))}
    npts = draw(st.sampled_from([2, 2, 3]))
    desc['points'] = [draw(ex.values(types, dom)) for _ in range(npts)]
    desc['lin'] = [draw(ex.scalars(False, classes=['generic'])),
                   draw(ex.scalars(ex.tinfo(types, types[dom]['fkey']).cplx
                                   and ex.tinfo(types, types[ran]['fkey']).cplx
                                   and not ex.real_linear_only(types, tree),
                                   classes=['generic']))]
    return desc


def strategy(tier):
    return _strategy(tier)


# --------------------------------------------------------------------------
# helpers

def _odl_guard(fn, sig):
    """Call ``fn``; an exception raised inside odl becomes a Violation with
    the given root-cause signature (harness exceptions propagate)."""
    try:
        return fn()
    except (Violation, HarnessError):
        raise
    except Exception as e:  # noqa
        where, csig = crash_signature(PROPERTY, e)
        if where != 'odl':
            raise
        raise Violation('{}|{}|{}'.format(sig, type(e).__name__,
                                          csig.split('|')[-1]),
                        '{}: {}'.format(type(e).__name__, str(e)[:400]))


def _cls(obj):
    return type(obj).__name__


_pattern = ex.node_pattern
_site = ex.node_site


def _crash_site(env, b):
    """Root-cause key of a node whose evaluation raises."""
    node = b.node
    extra = ''
    if node['op'] == 'comp':
        extra = '|mid=' + env.info(node['a']['dom']).cat
    return '{}{}'.format(_cls(b.obj), extra)


def _localise_crash(env, root, x_root, inplace, exc_type):
    """Smallest subtree whose own evaluation raises ``exc_type`` at the
    point it receives inside the root evaluation."""
    tr = Tracer(env)
    try:
        tr.ev(root, x_root)
    except Exception:  # noqa
        return root
    order = []

    def post(b):
        for k in b.kids:
            post(k)
        order.append(b)
    post(root)
    for b in order:
        if id(b) not in tr.inputs:
            continue
        ran_space = env.info(b.node['ran']).cat != 'field'
        try:
            xe = env.element(b.node['dom'], tr.inputs[id(b)])
            if inplace and ran_space:
                b.obj(xe, out=env.set(b.node['ran']).element())
            else:
                b.obj(xe)
        except exc_type:
            return b
        except Exception:  # noqa
            continue
    return root


def known_region(types, tree):
    """Known finding whose region the tree lies in (None if none)."""
    for n in ex.tree_nodes(tree):
        if n['op'] in ('rscal', 'div') and n['a'].get('fk') == 'func' and \
                n.get('how') in ('op', 'matmul') and \
                ex.tinfo(types, n['dom']).cat == 'field' and \
                ex.scalar_value(n['s']) == 0:
            return 'C04-K3'
    return None


def _call_guard(env, root, x, fn, inplace):
    """Evaluate; an exception raised inside odl becomes a Violation keyed by
    the smallest failing sub-expression."""
    try:
        return fn()
    except (Violation, HarnessError):
        raise
    except Exception as e:  # noqa
        where, csig = crash_signature(PROPERTY, e)
        if where != 'odl':
            raise
        b = _localise_crash(env, root, x, inplace, type(e))
        raise Violation('C04|{}|{}|{}|{}|{}'.format(
            'call-inplace' if inplace else 'call', _crash_site(env, b),
            _region(env, b.node), type(e).__name__, csig.split('|')[-1]),
            '{}: {} (culprit {} inside {})'.format(
                type(e).__name__, str(e)[:300], _pattern(b), _pattern(root)))


def _modsite(b):
    """Key of an expression whose evaluation changed its argument: class and
    classes of its operands."""
    return '{}({})'.format(_cls(b.obj), ','.join(
        '0' if k is None else _cls(k.obj) for k in b.kids))


def _region(env, node):
    di, ri = env.info(node['dom']), env.info(node['ran'])
    return '{}->{}|{}'.format(di.cat, ri.cat,
                              'cplx' if (di.cplx or ri.cplx) else 'real')


class Tracer(ex.Interp):
    """Interpreter that records the argument every node was evaluated at."""

    def __init__(self, *args, **kwargs):
        super(Tracer, self).__init__(*args, **kwargs)
        self.inputs = {}
        self.outputs = {}

    def ev(self, b, x):
        self.inputs.setdefault(id(b), x)
        r = super(Tracer, self).ev(b, x)
        self.outputs.setdefault(id(b), r)
        return r


def _tol(env, ref, delta, depth):
    eps = env.eps
    mag = ex.vmaxabs(ref)
    return 16.0 * delta + 64.0 * eps * (depth + 1) * mag + 1e-300, mag, eps


def _reference(env, b, x, depth):
    """(ref, tol, status) of subtree ``b`` at NumPy point ``x``."""
    try:
        ref = ex.Interp(env).ev(b, x)
    except ex.RefOverflow:
        return None, None, 'nonfinite'
    if not ex.vfinite(ref):
        return ref, None, 'nonfinite'
    delta = 0.0
    for seed in (11, 23):
        try:
            noisy = ex.Interp(env, noise=NOISE, seed=seed).ev(b, x)
        except ex.RefOverflow:
            return ref, None, 'nonfinite'
        if not ex.vfinite(noisy):
            return ref, None, 'nonfinite'
        delta = max(delta, ex.vmaxabs(ex.vsub(noisy, ref)))
    tol, mag, eps = _tol(env, ref, delta, depth)
    if delta > 1e-4 * max(mag, 1e-300) and delta > 1e3 * eps:
        return ref, tol, 'illcond'
    return ref, tol, 'ok'


def _check_result_type(env, key, y, sig, what):
    """Validate what ODL returned before doing arithmetic on it."""
    space = env.set(key)
    if y not in space:
        raise Violation(sig.replace('|value|', '|result-space|'),
                        '{} is not an element of the range: {!r}'.format(
                            what, type(y)))
    return ex.to_np(y, space)


def _localise(env, root, x_root, depth, inplace=False):
    """Smallest subtree whose ODL object disagrees with the reference at the
    point it is evaluated at inside the failing root evaluation."""
    tr = Tracer(env)
    try:
        tr.ev(root, x_root)
    except Exception:  # noqa
        return root
    order = []

    def post(b):
        for k in b.kids:
            post(k)
        order.append(b)
    post(root)
    for b in order:
        if id(b) not in tr.inputs:
            continue
        ran_space = env.info(b.node['ran']).cat != 'field'
        if b.node['op'] == 'leaf' and not (inplace and ran_space):
            continue
        x = tr.inputs[id(b)]
        try:
            ref, tol, status = _reference(env, b, x, depth)
            if status != 'ok':
                continue
            if inplace and ran_space:
                y = env.set(b.node['ran']).element()
                _fill_nan(y)
                b.obj(env.element(b.node['dom'], x), out=y)
            else:
                y = b.obj(env.element(b.node['dom'], x))
            got = ex.to_np(y, env.set(b.node['ran']))
            err = ex.vmaxabs(ex.vsub(got, ref))
            if not err <= tol:
                return b
        except Exception:  # noqa
            return b
    return root


def _alias_sweep(env, root, x, depth, whole_tree):
    """``y = x.copy(); r = e(y, out=y)`` for every (sub)expression ``e`` with
    domain == range, at the argument it receives inside the evaluation of
    the root at ``x``: ``r is y`` and the values are the interpreter's.
    Children are visited before parents, so the first failure is the smallest
    failing subtree.  Returns the list of strata hit."""
    noisy = []
    try:
        clean = Tracer(env)
        clean.ev(root, x)
        for seed in (11, 23):
            t = Tracer(env, noise=NOISE, seed=seed)
            t.ev(root, x)
            noisy.append(t)
    except ex.RefOverflow:
        return ['trivial-point:overflow']
    order = []

    def post(b):
        for k in b.kids:
            if k is not None:
                post(k)
        order.append(b)
    post(root)
    if not whole_tree:
        order = [b for b in order if b is root or b.node['op'] == 'leaf']
    hit = []
    unsafe = set()      # ids of leaves that are not alias-safe themselves
    for b in order:
        node = b.node
        if node['dom'] != node['ran'] or \
                env.info(node['ran']).cat == 'field' or \
                id(b) not in clean.inputs:
            continue
        is_leaf = node['op'] == 'leaf'
        if not is_leaf and any(id(k) in unsafe for k in ex.walk(b)):
            # the expression forwards (x, out=x) to an operand that does not
            # support it -- a property of that leaf, not of the arithmetic
            hit.append('alias-skip:unsafe-leaf')
            continue
        xb, ref = clean.inputs[id(b)], clean.outputs[id(b)]
        outs = [t.outputs.get(id(b)) for t in noisy]
        if not ex.vfinite(ref) or any(o is None or not ex.vfinite(o)
                                      for o in outs):
            continue
        delta = max(ex.vmaxabs(ex.vsub(o, ref)) for o in outs)
        tol, mag, eps = _tol(env, ref, delta, depth)
        if delta > 1e-4 * max(mag, 1e-300) and delta > 1e3 * eps:
            continue
        y = env.element(node['dom'], xb)
        if is_leaf:
            # leaves are operands, not expressions: their own behaviour for
            # out is x is only recorded (needed to judge their parents)
            try:
                r = b.obj(y, out=y)
                ok = r is y and ex.vmaxabs(ex.vsub(ex.to_np(
                    y, env.set(node['ran'])), ref)) <= tol
            except Exception:  # noqa
                ok = False
            if not ok:
                unsafe.add(id(b))
                hit.append('alias-unsafe-leaf:' + node['kind'])
            continue
        r = _call_guard(env, b, xb, lambda: b.obj(y, out=y), True)
        site = _cls(b.obj) + '._call(out=x)'
        if r is not y:
            raise Violation('C04|alias-inplace|{}|{}'.format(
                site, _region(env, node)),
                'e(y, out=y) does not return y ({} inside {})'.format(
                    _pattern(b), _pattern(root)))
        got = ex.to_np(y, env.set(node['ran']))
        err = ex.vmaxabs(ex.vsub(got, ref))
        if not err <= tol:
            raise Violation('C04|alias-inplace|{}|{}'.format(
                site, _region(env, node)),
                'y = x.copy(); e(y, out=y): max error {:.3g} > tol {:.3g}; '
                'got {!r} reference {!r}; culprit {} inside {}'.format(
                    err, tol, _short(got), _short(ref), _pattern(b),
                    _pattern(root)))
        hit.append('alias-inplace')
        if node['op'] == 'flvec':
            hit.append('alias-inplace:v*f')
        elif node['op'] in ('lscal', 'addvec', 'addscal', 'neg') and \
                node['a']['op'] == 'flvec':
            hit.append('alias-inplace:{}(v*f)'.format(node['op']))
    return hit


# --------------------------------------------------------------------------
# the case

def run_case(desc):
    types = desc['types']
    env = ex.Env(types)
    tree = desc['tree']
    dom, ran = tree['dom'], tree['ran']
    depth = ex.tree_depth(tree)
    cplx = 'Xr' in types
    field = 'cplx' if cplx else 'real'

    fid = known_region(types, tree)
    if fid is not None and not desc.get('strict'):
        return Outcome('excluded', strata=['excluded:' + fid])

    try:
        root = ex.build(env, tree)
    except ex.BuildFailure as bf:
        if bf.where != 'odl':
            raise bf.exc
        raise Violation('C04|build|{}|{}|{}'.format(
            bf.site, _region(env, bf.node), type(bf.exc).__name__),
            'constructing the well-typed expression {} failed: {}: {}'.format(
                bf.pattern, type(bf.exc).__name__, str(bf.exc)[:400]))
    expr = root.obj
    reg = _region(env, tree)
    # building an expression must not change the vector operands the caller
    # passed in (they are the caller's objects and may be used again)
    _operands_unchanged(env, root, reg, 'constructing')

    # ---- rejection stratum ------------------------------------------------
    if desc.get('mode') == 'reject':
        bad = desc['bad']
        if 's' in desc:
            s = ex.build_scalar(desc['s'])
            fn = {'lscal': lambda: s * expr, 'rscal': lambda: expr * s,
                  'div': lambda: expr / s, 'addscal': lambda: expr + s}[bad]
        else:
            w = env.element(desc['wrong'],
                            env.np_value(desc['wrong'], desc['v']))
            fn = {'rvec': lambda: expr * w, 'lvec': lambda: w * expr,
                  'addvec': lambda: expr + w}[bad]
        try:
            res = fn()
        except TypeError:
            return Outcome('rejected', strata=['reject:' + bad,
                                               'field:' + field])
        raise Violation('C04|field-check|{}|{}|{}'.format(bad, _cls(expr),
                                                         reg),
                        'operand outside the relevant field/space accepted: '
                        '{!r}'.format(_cls(res)))

    # ---- static facts -----------------------------------------------------
    if not isinstance(expr, ex.Operator):
        raise Violation('C04|type|not-operator|' + _site(root),
                        'expression is a {!r}'.format(type(expr)))
    for b in ex.walk(root):
        node = b.node
        if b.obj.domain != env.set(node['dom']):
            raise Violation('C04|domain|{}|{}'.format(_site(b), reg),
                            'domain {!r} expected {!r}'.format(
                                b.obj.domain, env.set(node['dom'])))
        if b.obj.range != env.set(node['ran']):
            raise Violation('C04|range|{}|{}'.format(_site(b), reg),
                            'range {!r} expected {!r}'.format(
                                b.obj.range, env.set(node['ran'])))
        if node.get('fk') == 'func' and not isinstance(b.obj, Functional):
            raise Violation('C04|type|functional-lost|{}'.format(_site(b)),
                            'documented to return a Functional, got {}'
                            ''.format(_cls(b.obj)))

    # linear by construction (operator classes only) => flag must be set
    for b in ex.walk(root):
        if b.node['op'] == 'leaf':
            continue
        sub_nodes = list(ex.tree_nodes(b.node))
        if any(n.get('fk') == 'func' for n in sub_nodes):
            continue
        if ex.true_linear(b.node) and all(
                k.obj.is_linear for k in b.kids) and not b.obj.is_linear:
            raise Violation('C04|linear-flag-lost|{}|{}'.format(
                _site(b), reg), 'operands are flagged linear, result of '
                'a linearity-preserving constructor is not')

    # ---- values -----------------------------------------------------------
    strata = ['root:{}->{}'.format(dom, ran), 'field:' + field,
              'depth:{}'.format(depth),
              'space:' + types['X']['kind'],
              'dtype:' + types['X']['dtype'],
              'weighting:' + ((types['X'].get('weighting') or
                               {'type': 'none'})['type']),
              'fk:' + tree.get('fk', 'op')]
    ran_is_space = env.info(ran).cat != 'field'
    statuses = []
    sig_val = 'C04|value|{}|{}'
    pts = [env.np_value(dom, p) for p in desc['points']]
    refs = []
    for i, x in enumerate(pts):
        ref, tol, status = _reference(env, root, x, depth)
        statuses.append(status)
        refs.append((ref, tol, status))
        if status != 'ok':
            continue
        xe = env.element(dom, x)
        x_before = ex.to_np(xe, env.set(dom))

        def fail(kind, got, err):
            culprit = _localise(env, root, x, depth,
                                inplace=(kind == 'value-inplace'))
            site = _site(culprit) if kind == 'value' else \
                _cls(culprit.obj) + '._call(out)'
            raise Violation(
                'C04|{}|{}|{}'.format(kind, site,
                                      _region(env, culprit.node)),
                'point {}: max error {:.3g} > tol {:.3g}; got {!r} '
                'reference {!r}; culprit {} inside {}'.format(
                    i, err, tol, _short(got), _short(ref), _pattern(culprit),
                    _pattern(root)))

        y = _call_guard(env, root, x, lambda: expr(xe), False)
        got = _check_result_type(env, ran, y, sig_val.format(
            _pattern(root), reg), 'expr(x)')
        err = ex.vmaxabs(ex.vsub(got, ref))
        if not err <= tol:
            fail('value', got, err)
        if ex.vmaxabs(ex.vsub(ex.to_np(xe, env.set(dom)), x_before)) != 0:
            raise Violation('C04|input-modified|{}|{}'.format(
                _modsite(root), reg), 'out-of-place evaluation changed x')
        if ran_is_space:
            out = env.set(ran).element()
            _fill_nan(out)
            y2 = _call_guard(env, root, x, lambda: expr(xe, out=out), True)
            if y2 is not out:
                raise Violation('C04|inplace-identity|{}|{}'.format(
                    _site(root), reg), 'expr(x, out=y) is not y')
            got2 = ex.to_np(out, env.set(ran))
            err = ex.vmaxabs(ex.vsub(got2, ref))
            if not err <= tol:
                fail('value-inplace', got2, err)
            strata.append('inplace')
        # the evaluation point is immutable
        if ex.vmaxabs(ex.vsub(ex.to_np(xe, env.set(dom)), x_before)) != 0:
            raise Violation('C04|input-modified|{}|{}'.format(
                _modsite(root), reg), 'in-place evaluation changed x')
        # aliased in-place evaluation (out is x) of every subexpression with
        # domain == range (all of them at the first point, the root at the
        # others)
        try:
            strata += _alias_sweep(env, root, x, depth, i == 0)
        except Violation:
            if i != 0:
                # key the failure by the smallest failing subtree
                _alias_sweep(env, root, x, depth, True)
            raise

    _operands_unchanged(env, root, reg, 'evaluating')

    # ---- is_linear => numerically linear ------------------------------------
    if expr.is_linear and len(pts) >= 2 and statuses[0] == statuses[1] == 'ok':
        a = ex.scalar_value(desc['lin'][0])
        c = ex.scalar_value(desc['lin'][1])
        x1, x2 = pts[0], pts[1]
        comb = ex.vadd(ex.vscale(a, x1), ex.vscale(c, x2))
        yc = ex.to_np(_call_guard(env, root, comb,
                                  lambda: expr(env.element(dom, comb)),
                                  False), env.set(ran))
        (r1, t1, _), (r2, t2, _) = refs[0], refs[1]
        expect = ex.vadd(ex.vscale(a, r1), ex.vscale(c, r2))
        # tolerance derived like the value tolerance: propagated noise of
        # the three evaluations (t1, t2, tc) plus eps times the magnitudes of
        # the terms a*expr(x), c*expr(y) and of the largest intermediate
        # value T of the three evaluations (the result may be a cancelling
        # combination of terms of that size, e.g. a stencil applied to a
        # constant)
        rc, tc, sc = _reference(env, root, comb, depth)
        T = 0.0
        if sc == 'ok':
            try:
                for w, p in ((abs(a), x1), (abs(c), x2), (1.0, comb)):
                    tr = Tracer(env)
                    tr.ev(root, p)
                    T += w * max([ex.vmaxabs(p)] + [
                        ex.vmaxabs(v) for v in tr.outputs.values()
                        if ex.vfinite(v)] + [
                        ex.vmaxabs(v) for v in tr.inputs.values()])
            except ex.RefOverflow:
                sc = 'nonfinite'
        tol = 4 * (abs(a) * t1 + abs(c) * t2 + (tc or 0.0)) + \
            64 * env.eps * (depth + 1) * (
                abs(a) * ex.vmaxabs(r1) + abs(c) * ex.vmaxabs(r2) + T)
        err = ex.vmaxabs(ex.vsub(yc, expect))
        if sc == 'ok' and not err <= tol + 1e-300:
            culprit = _nonlinear_culprit(env, root)
            raise Violation('C04|linear-flag|{}|{}'.format(
                _site(culprit), reg),
                'is_linear is True but expr(a x + c y) != a expr(x) + c '
                'expr(y): error {:.3g} tol {:.3g}'.format(err, tol))
        strata.append('linearity-checked')

    # ---- strata -----------------------------------------------------------
    nonlin_leaf = False
    rightish = False
    for b in ex.walk(root):
        node = b.node
        if node['op'] == 'leaf':
            strata.append('leaf:' + node['kind'])
            if not b.obj._call_has_out and \
                    env.info(node['ran']).cat != 'field':
                strata.append('leaf-oop-only')
            if not ex.leaf_is_linear(node):
                nonlin_leaf = True
            continue
        if node['op'] == 'sum' and node['dom'] == node['ran'] and \
                node.get('how') != 'ctor_tmp' and ran_is_space:
            for pos, k in zip(('left', 'right'), b.kids):
                if not k.obj._call_has_out:
                    strata.append('sum-oop-only:' + pos)
        strata.append('ctor:{}:{}'.format(node['op'], node.get('how', 'op')))
        for k in b.kids:
            if k.node['op'] != 'leaf':
                strata.append('nest:{}<{}'.format(_cls(b.obj), _cls(k.obj)))
        if b.shortcut:
            strata.append('shortcut:' + b.shortcut)
        if b.vec_shared:
            strata.append('shared-vector-operand')
        if node['op'] in ('rscal', 'div', 'rvec'):
            rightish = True
        if node['op'] == 'pow' and node['n'] >= 3:
            strata.append('pow:n>=3')
            if ran_is_space and any(
                    n['op'] == 'leaf' and n['kind'] in ('partial',
                                                        'laplacian')
                    for n in ex.tree_nodes(node)):
                strata.append('pow:n>=3:stencil')
        if 's' in node:
            strata.append('scalar:' + str(node['s'].get('np')))
            strata.append('scalar-cls:' + node['s'].get('cls', '?'))
    ok = [s for s in statuses if s == 'ok']
    if not ok:
        return Outcome('trivial', strata=['trivial:' + statuses[0]],
                       notes=dict({s: 1 for s in set(statuses)},
                                  overflow=int('nonfinite' in statuses)))
    nontriv = depth >= 2 and (nonlin_leaf or rightish)
    return Outcome('ok', strata=strata, nontrivial=nontriv,
                   notes={'points_' + s: statuses.count(s)
                          for s in set(statuses)})


def _operands_unchanged(env, root, reg, when):
    """Every vector operand of the expression still holds, bit for bit, the
    values it was created with."""
    for b in ex.walk(root):
        if b.vec is None:
            continue
        key = b.node['ran'] if b.node['op'] in ('lvec', 'flvec', 'addvec') \
            else b.node['dom']
        if env.info(key).cat == 'field':
            continue
        now = ex.to_np(b.vec, env.set(key))
        if not _same_bits(now, b.vec_np):
            raise Violation(
                'C04|operand-modified|{}|{}'.format(_site(b), reg),
                '{} the expression {} changed the vector operand of {}: '
                '{!r} -> {!r}'.format(when, _pattern(root), _pattern(b),
                                      _short(b.vec_np), _short(now)))


def _same_bits(a, b):
    if isinstance(a, (list, tuple)):
        return all(_same_bits(p, q) for p, q in zip(a, b))
    a, b = np.asarray(a), np.asarray(b)
    return a.shape == b.shape and bool(
        np.all((a == b) | ((a != a) & (b != b))))


def _nonlinear_culprit(env, root):
    """Deepest node flagged linear whose operands are not all flagged linear
    or which is a leaf (best effort, for the signature only)."""
    best = root
    for b in ex.walk(root):
        if b.obj.is_linear:
            best = b
            if b.node['op'] == 'leaf' and not ex.leaf_is_linear(b.node):
                return b
    return best


def _fill_nan(elem):
    from vlib import build as vbuild
    for arr in vbuild.leaf_arrays_of(elem):
        arr[...] = np.nan


def _short(v):
    f = ex.vflat(v)
    return np.array2string(f[:6], precision=6)


REQUIRED_STRATA = [
    'shortcut:LeftScalar(LeftScalar)', 'shortcut:RightScalar(RightScalar)',
    'shortcut:RightScalar.__mul__', 'shortcut:RightScalar*Operator',
    'shortcut:RightScalar*vector', 'field:cplx', 'field:real',
    'space:discr', 'dtype:float32', 'weighting:array', 'weighting:const',
    'fk:func', 'inplace', 'linearity-checked', 'alias-inplace',
    'shared-vector-operand', 'leaf:flatten',
    'alias-inplace:v*f', 'alias-inplace:lscal(v*f)',
    'alias-inplace:addvec(v*f)', 'pow:n>=3:stencil', 'leaf-oop-only', 'sum-oop-only:left',
    'sum-oop-only:right', 'ctor:lscal:rmatmul', 'ctor:rscal:matmul',
    'ctor:rvec:matmul', 'ctor:lvec:rmatmul', 'ctor:flvec:rmatmul',
    'nest:OperatorComp<OperatorRightScalarMult',
    'nest:OperatorRightVectorMult<OperatorRightScalarMult',
    'nest:OperatorSum<OperatorComp', 'nest:OperatorLeftScalarMult<OperatorSum',
    'ctor:pwprod:ctor', 'ctor:pow:op', 'ctor:translated:op',
    'ctor:flvec:op', 'ctor:addscal:c-A', 'ctor:comp:matmul',
    'ctor:sum:ctor_tmp', 'ctor:rscal:ctor_tmp', 'ctor:comp:ctor_tmp',
]
