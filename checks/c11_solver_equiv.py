"""C11 - optimised solvers equal their reference implementations, runs resume
exactly, callbacks observe one iterate per iteration.

Generator: (solver, mode, problem) with small random problems: domains
(rn / constant-weighted rn / tiny uniform_discr / product spaces / vector
fields), operators (dense matrices with prescribed singular values, explicit
small integer matrices, Gradient, Divergence, identity / scaling / multiply,
BroadcastOperator, ProductSpaceOperator, ReductionOperator), functionals from
the library catalogue (L1, L2, group-L1, squared L2 translated, box /
non-negativity indicators, Huber, KL, zero, separable sums), admissible step
sizes from exact operator norms (SVD of the forward-evaluated matrix),
iteration counts N <= 12 and splittings n1+n2+... = N.

Oracles
 (a) pair: per-iteration differential of `admm_linearized`, `adupdates`,
     `doubleprox_dc` against the `_simple` references shipped next to them;
 (b) resume: run(n1); run(n2); ... == run(N) for the state-free solvers and
     for `pdhg` with ``x_relax`` / ``y`` handed back, checked at every split
     point against the iterate sequence of the unsplit run;
 (c) callback: exactly one call per (documented) iteration, the k-th
     observed value equals the result of a fresh run with k iterations, the
     final ``x`` equals the last observed value.
"""
import numpy as np
from hypothesis import strategies as st

from vlib import problems as pb
from vlib.core import Violation, Outcome, HarnessError
from vlib.problems import odl, S, unflat, toflat

from odl.solvers.nonsmooth.admm import (  # noqa: E402
    admm_linearized, admm_linearized_simple)
from odl.solvers.nonsmooth.alternating_dual_updates import (  # noqa: E402
    adupdates, adupdates_simple)
from odl.solvers.nonsmooth.difference_convex import (  # noqa: E402
    doubleprox_dc, doubleprox_dc_simple, dca, prox_dca)

PROPERTY = 'C11'
TECHNIQUE = ('Hypothesis property-based differential testing: generated '
             'problems, optimised solver vs shipped reference per '
             'iteration, split runs vs one run (arbitrary splittings as one '
             'history), callback sequences vs re-runs; descriptor replay')
LEVEL_TEXT = ('Generated-input search over solver x problem family x '
              'functional class x operator kind x iteration count x '
              'splitting; every case is decided by a differential or '
              'metamorphic relation whose two sides are algebraically '
              'identical, so the tolerance (1e-10 / 1e-12 relative) is pure '
              'rounding margin and a buffer-reuse, aliasing, sign or state '
              'slip shows as an O(1) difference. Exploration, not proof.')
LEVEL_NOTE = ('Trusted: the _simple reference implementations shipped with '
              'ODL (for clause a), NumPy SVD for step sizes, Hypothesis, the '
              'descriptor builders (vlib/build.py, vlib/problems.py). '
              'accelerated_proximal_gradient, conjugate_gradient(_normal) '
              'and pdhg with gamma_primal/gamma_dual carry hidden state and '
              'are asserted for the callback clause only, not for '
              'resumption.')
DESIGN_REF = 'DESIGN.md section 5, C11'
BUDGET = {'quick': 4000, 'thorough': 40000}
TOL_PAIR = 1e-10
TOL_EXACT = 1e-12
TOLERANCES = {
    'pair': '||x_k(opt) - x_k(ref)||_inf <= 1e-10 * (1 + max_k ||x_k||_inf) '
            'at every iteration k (algebraically identical updates; observed '
            'differences on the unchanged tree are <= 1e-14)',
    'resume': '||x(split) - x_k(unsplit)||_inf <= 1e-12 * (1 + max ||x||) at '
              'every split point (same arithmetic, BLAS alignment only)',
    'callback': 'count exact; values within 1e-12 * (1 + max ||x||) of a '
                'fresh run with k iterations',
}
ASSUMPTIONS = [
    'step sizes are admissible (strictly inside the documented regions, '
    'computed from exact operator norms)',
    'kaczmarz / adupdates with random=True only with np.random re-seeded '
    'from the descriptor before every run (the order is then a function of '
    'the case); never in the resume clause',
    'osmlem calls its callback once per sub-iteration (documented by the '
    'partial-update formula); adupdates / kaczmarz once per outer or inner '
    'iteration according to callback_loop',
    'solvers with internal early termination (conjugate_gradient on a zero '
    'residual, steepest_descent below tol) may make fewer callbacks; the '
    'count is then checked against the re-runs',
    'Huber only on non-product spaces (vector-field Huber proximal is a '
    'separate known defect, F11)',
]
RULE = ('Hypothesis draws (solver, mode, domain, operators, functionals, '
        'step fractions, seed for data/start, N, split points); non-trivial '
        '= N >= 2 and the iterate moves and (for pair/resume) differs '
        'between consecutive iterations; distinct by sha1 of the descriptor')

PAIR_SOLVERS = ['admm', 'adupdates', 'dpdc']
RESUME_SOLVERS = ['landweber', 'kaczmarz', 'proxgrad', 'mlem', 'osmlem',
                  'steepest', 'pdhg']
CALLBACK_ONLY = ['accel', 'dr', 'fb', 'cg', 'cgn', 'dca', 'prox_dca']
ALL_SOLVERS = PAIR_SOLVERS + RESUME_SOLVERS + CALLBACK_ONLY

SOLVER_NAMES = {
    'admm': 'admm_linearized', 'adupdates': 'adupdates',
    'dpdc': 'doubleprox_dc', 'landweber': 'landweber',
    'kaczmarz': 'kaczmarz', 'proxgrad': 'proximal_gradient',
    'mlem': 'mlem', 'osmlem': 'osmlem', 'steepest': 'steepest_descent',
    'pdhg': 'pdhg', 'accel': 'accelerated_proximal_gradient',
    'dr': 'douglas_rachford_pd', 'fb': 'forward_backward_pd',
    'cg': 'conjugate_gradient', 'cgn': 'conjugate_gradient_normal',
    'dca': 'dca', 'prox_dca': 'prox_dca'}

PROX_KINDS = ('l1', 'l2', 'l2sq', 'box', 'nonneg', 'huber', 'kl', 'zero',
              'groupl1')
SMOOTH_KINDS = ('l2sq', 'huber', 'zero')


# --------------------------------------------------------------------------
# strategy

@st.composite
def _domain_st(draw, kinds=('tensor', 'discr', 'discr', 'pspace', 'vfield',
                            'sqpspace')):
    k = draw(st.sampled_from(list(kinds)))
    if k == 'sqpspace':
        # X x X: domain of the full block operators [[A, B], [C, D]]
        base = draw(st.one_of(pb.tensor_domain_st(1, 4, weighted=False),
                              pb.discr_domain_st(two_d=False)))
        if base['kind'] == 'discr':
            base['shape'] = [min(base['shape'][0], 4)]
            base['max'] = [base['min'][0] + 0.5 * base['shape'][0]]
        return {'kind': 'pspace', 'base': base, 'power': 2,
                'weighting': None, 'exponent': 2.0, 'square': True}
    if k == 'tensor':
        return draw(pb.tensor_domain_st(2, 8))
    if k == 'discr':
        return draw(pb.discr_domain_st())
    if k == 'pspace':
        parts = [draw(pb.tensor_domain_st(1, 4, weighted=False))
                 for _ in range(draw(st.integers(2, 3)))]
        return {'kind': 'pspace', 'parts': parts, 'power': None,
                'weighting': None, 'exponent': 2.0}
    base = draw(pb.discr_domain_st())
    if len(base['shape']) == 1:
        base['shape'] = [min(base['shape'][0], 5)]
        base['max'] = [base['min'][0] + 0.5 * base['shape'][0]]
    return {'kind': 'pspace', 'base': base, 'power': len(base['shape']),
            'weighting': None, 'exponent': 2.0}


@st.composite
def _op_st(draw, sd, simple_ok=True, compound_ok=True):
    """Operator descriptor admissible on the domain ``sd``."""
    if sd['kind'] == 'tensor':
        n = sd['shape'][0]
        choices = ['matrix', 'matrix', 'matrix']
        if simple_ok:
            choices.append('simple')
        if compound_ok:
            choices.append('broadcast')
        c = draw(st.sampled_from(choices))
        if c == 'matrix':
            return draw(pb.matrix_op_st(n, conds=[1.0, 3.0, 10.0, 100.0],
                                        rank_deficient=draw(st.integers(
                                            0, 4)) == 0))
        if c == 'simple':
            return draw(pb.simple_op_st())
        second = draw(st.one_of(pb.simple_op_st(),
                                pb.matrix_op_st(n, conds=[1.0, 10.0])))
        return {'kind': 'broadcast',
                'ops': [draw(pb.matrix_op_st(n, conds=[1.0, 10.0])), second]}
    if sd['kind'] == 'discr':
        choices = ['gradient', 'gradient', 'stencil', 'stencil']
        if simple_ok:
            choices.append('simple')
        if compound_ok:
            choices.append('broadcast')
        c = draw(st.sampled_from(choices))
        if c == 'gradient':
            return draw(pb.gradient_op_st())
        if c == 'stencil':
            return draw(pb.stencil_op_st(sd))
        if c == 'simple':
            return draw(pb.simple_op_st())
        return {'kind': 'broadcast',
                'ops': [draw(pb.gradient_op_st()), draw(pb.simple_op_st())]}
    if sd.get('square'):
        return draw(pb.square_block_op_st(sd['base']))
    if sd.get('power') == 2 and draw(st.booleans()):
        # vector field over a 2d grid: also a domain of block operators
        return draw(pb.square_block_op_st(sd['base']))
    if sd.get('power') is not None:          # vector field
        c = draw(st.sampled_from(['divergence', 'divergence', 'simple']
                                 if simple_ok else ['divergence']))
        if c == 'divergence':
            return {'kind': 'divergence',
                    'method': draw(st.sampled_from(pb.GRAD_METHODS)),
                    'pad_mode': draw(st.sampled_from(pb.GRAD_PADS))}
        return draw(pb.simple_op_st())
    parts = sd['parts']
    c = draw(st.sampled_from(['pso', 'pso', 'reduction', 'simple']
                             if simple_ok else ['pso', 'reduction']))
    if c == 'simple':
        return draw(pb.simple_op_st())
    if c == 'reduction':
        m = draw(st.integers(1, 4))
        return {'kind': 'reduction',
                'ops': [draw(pb.matrix_op_st(p['shape'][0], conds=[1.0, 10.0],
                                             mmin=m, mmax=m, explicit=False))
                        for p in parts]}
    nrows = draw(st.integers(1, 3))
    blocks = []
    for _ in range(nrows):
        m = draw(st.integers(1, 3))
        row = [draw(pb.matrix_op_st(p['shape'][0], conds=[1.0, 10.0],
                                    mmin=m, mmax=m, explicit=False))
               if draw(st.booleans()) else None for p in parts]
        if all(o is None for o in row):
            j = draw(st.integers(0, len(parts) - 1))
            row[j] = draw(pb.matrix_op_st(parts[j]['shape'][0],
                                          conds=[1.0], mmin=m, mmax=m,
                                          explicit=False))
        blocks.append(row)
    return {'kind': 'pso', 'blocks': blocks}


def _func_st(sd, od=None, kinds=PROX_KINDS):
    cls = pb.space_class(sd)
    if od is not None:
        cls = pb.range_class(od, cls)
    return pb.func_on_class_st(cls, kinds)


FRACS = [0.5, 0.9, 0.99, 0.2]


@st.composite
def _problem_st(draw, solver, mode='callback'):
    seed = draw(st.integers(0, 2 ** 24))
    p = {'seed': seed, 'x0scale': draw(st.sampled_from([1.0, 3.0, 0.3]))}
    if solver in ('admm', 'pdhg'):
        sd = draw(_domain_st())
        od = draw(_op_st(sd))
        p.update(domain=sd, L=od, f=draw(_func_st(sd)),
                 g=draw(_func_st(sd, od)),
                 sigma=draw(st.sampled_from([1.0, 0.5, 3.0])),
                 frac=draw(st.sampled_from(FRACS)))
        if solver == 'pdhg':
            p['theta'] = draw(st.sampled_from([1.0, 1.0, 0.5, 0.0]))
            # acceleration changes tau / sigma internally without exposing
            # them: never part of the resume clause
            p['accel'] = draw(st.sampled_from(['none', 'primal', 'dual'])) \
                if mode == 'callback' else 'none'
    elif solver in ('adupdates', 'dr', 'fb'):
        sd = draw(_domain_st())
        nt = draw(st.integers(0 if solver != 'adupdates' else 1, 3))
        terms = []
        for _ in range(nt):
            od = draw(_op_st(sd, compound_ok=False))
            terms.append({'L': od, 'g': draw(_func_st(sd, od)),
                          'frac': draw(st.sampled_from([0.5, 0.9, 1.0]))})
        p.update(domain=sd, terms=terms,
                 stepsize=draw(st.sampled_from([1.0, 0.5, 2.0])))
        if solver == 'adupdates':
            p['stepsize'] = draw(st.one_of(
                st.sampled_from([0.35, 1.0, 2.5]),
                st.floats(0.2, 4.0).map(lambda v: float(np.float32(v)))))
            p['loop'] = draw(st.sampled_from(['outer', 'outer', 'inner']))
            p['random'] = mode != 'resume' and draw(st.integers(0, 3)) == 0
            # element-valued inner step sizes (documented for plain L1Norm /
            # L2NormSquared terms) in a good fraction of the cases: such a
            # term is put in on purpose, on an operator with a leaf range
            for i in range(len(terms)):
                if draw(st.integers(0, 2)):
                    continue
                od = draw(_op_st(sd, compound_ok=False))
                if pb.range_class(od, pb.space_class(sd))['t'] != 'leaf':
                    continue
                terms[i] = {'L': od, 'frac': terms[i]['frac'],
                            'g': {'kind': draw(st.sampled_from(
                                ['l1', 'l2sq'])), 'lam': 1.0,
                                'form': 'plain'},
                            'force_elem': True}
            for t in terms:
                opts = ['scalar'] * 4
                rcls = pb.range_class(t['L'], pb.space_class(sd))
                if t['g']['kind'] == 'sepsum':
                    opts.append('list')
                if t['g']['kind'] in ('l1', 'l2sq') and \
                        t['g'].get('form') == 'plain' and \
                        rcls['t'] == 'leaf':
                    opts += ['elem', 'elem']
                t['istep'] = 'elem' if t.pop('force_elem', False) else \
                    draw(st.sampled_from(opts))
        else:
            p['f'] = draw(_func_st(sd))
            p['frac'] = draw(st.sampled_from([0.3, 0.6, 0.9]))
            p['lam'] = draw(st.sampled_from([1.0, 1.0, 0.5, 1.5]))
            if solver == 'fb':
                p['h'] = draw(_func_st(sd, kinds=SMOOTH_KINDS))
                p['lgiven'] = draw(st.integers(0, 3)) == 0
    elif solver == 'dpdc':
        sd = draw(_domain_st())
        od = draw(_op_st(sd))
        p.update(domain=sd, K=od, f=draw(_func_st(sd)),
                 phi=draw(_func_st(sd, kinds=SMOOTH_KINDS)),
                 g=draw(_func_st(sd, od)),
                 gfrac=draw(st.sampled_from([0.9, 0.5])),
                 mfrac=draw(st.sampled_from([0.5, 0.25])))
    elif solver == 'landweber':
        sd = draw(_domain_st())
        p.update(domain=sd, op=draw(_op_st(sd)),
                 frac=draw(st.sampled_from([0.3, 0.5, 0.9])),
                 proj=draw(st.integers(0, 3)) == 0,
                 default_omega=False)
    elif solver == 'kaczmarz':
        sd = draw(_domain_st())
        nops = draw(st.integers(1, 3))
        p.update(domain=sd,
                 ops=[draw(_op_st(sd, compound_ok=False))
                      for _ in range(nops)],
                 fracs=[draw(st.sampled_from([0.3, 0.5, 0.95]))
                        for _ in range(nops)],
                 omega_list=draw(st.booleans()),
                 proj=draw(st.integers(0, 3)) == 0,
                 loop=draw(st.sampled_from(['outer', 'outer', 'inner'])),
                 random=mode == 'callback' and draw(st.integers(0, 2)) == 0)
    elif solver in ('proxgrad', 'accel', 'steepest', 'prox_dca', 'dca'):
        sd = draw(_domain_st())
        A = draw(_op_st(sd)) if draw(st.booleans()) else None
        p.update(domain=sd, A=A,
                 frac=draw(st.sampled_from([0.25, 0.5, 0.9])))
        if solver in ('proxgrad', 'accel', 'prox_dca'):
            p['f'] = draw(_func_st(sd))
        if solver == 'proxgrad':
            p['lam'] = draw(st.sampled_from([1.0, 1.0, 0.6]))
        if solver == 'steepest':
            p['proj'] = draw(st.integers(0, 3)) == 0
            od = draw(_op_st(sd, compound_ok=False))
            p['extra'] = {'L': od, 'g': draw(_func_st(
                sd, od, kinds=('huber', 'l2sq')))} \
                if draw(st.booleans()) else None
        if solver == 'dca':
            p['lam_f'] = draw(st.sampled_from([1.0, 2.0, 0.7]))
            p['g'] = draw(_func_st(sd, kinds=('huber', 'l2sq')))
    elif solver in ('mlem', 'osmlem'):
        n = draw(st.integers(2, 6))
        nops = 1 if solver == 'mlem' else draw(st.integers(1, 3))
        p.update(n=n, ms=[draw(st.integers(1, 6)) for _ in range(nops)],
                 sens=draw(st.sampled_from(['none', 'none', 'float',
                                            'elem'])))
    elif solver in ('cg', 'cgn'):
        sd = draw(pb.tensor_domain_st(2, 7))
        n = sd['shape'][0]
        p['domain'] = sd
        if solver == 'cg':
            p['svals'] = draw(pb.svals_st(n, conds=[1.0, 3.0, 10.0, 100.0]))
        else:
            p['op'] = draw(pb.matrix_op_st(n, conds=[1.0, 3.0, 10.0, 100.0]))
    else:
        raise HarnessError(solver)
    return p


@st.composite
def _strategy(draw):
    solver = draw(st.sampled_from(
        PAIR_SOLVERS * 4 + RESUME_SOLVERS * 3 + CALLBACK_ONLY))
    modes = ['callback']
    if solver in PAIR_SOLVERS:
        modes = ['pair'] * 4 + ['callback']
    elif solver in RESUME_SOLVERS:
        modes = ['resume'] * 3 + ['callback']
    mode = draw(st.sampled_from(modes))
    desc = {'solver': solver, 'mode': mode,
            'p': draw(_problem_st(solver, mode))}
    if mode == 'resume':
        k = draw(st.integers(2, 4))
        splits = [draw(st.sampled_from([0, 1, 1, 2, 3, 4, 5]))
                  for _ in range(k)]
        while sum(splits) > 12:
            splits[splits.index(max(splits))] -= 1
        if sum(splits) < 2:
            splits = [1, 1]
        desc['splits'] = splits
    else:
        desc['niter'] = draw(st.sampled_from([1, 2, 3, 4, 5, 6, 8, 12]))
    return desc


def strategy(tier):
    return _strategy()


# --------------------------------------------------------------------------
# runners: one per solver, uniform interface

class Runner(object):
    """``new_state()`` -> dict of ODL elements (fresh copies of the start);
    ``run(state, niter, callback)``; ``observe(state)`` -> flat vector;
    optional ``run_ref``; ``calls_per_iter``."""
    calls_per_iter = 1
    has_ref = False
    nonsmooth = False
    aliased = ()      # (label, prox operator, probe element) for diagnosis

    def observe(self, state):
        return toflat(state['x'], self.X)

    def cb_value(self, x):
        return toflat(x, self.X)


def _proj_nonneg(x):
    x.ufuncs.maximum(0, out=x)


def _make_funcs(rng, pairs):
    """[(fd, space)] -> list of ODL functionals with seeded data."""
    out = []
    for fd, space in pairs:
        out.append(pb.make_functional(fd, space,
                                      pb.random_func_data(fd, space, rng)))
    return out


def _kinds(fd):
    if fd['kind'] == 'sepsum':
        return set().union(*[_kinds(p) for p in fd['parts']])
    return {fd['kind']}


def _is_nonsmooth(*fds):
    return any(_kinds(fd) - set(SMOOTH_KINDS) for fd in fds)


def _quadratic(rng, X, A, dX):
    """1/2 ||A x - b||^2 on X (A: LinOp or None) and its Lipschitz const."""
    if A is None:
        b = np.round(rng.standard_normal(dX.size), 3)
        return (0.5 * S.L2NormSquared(X)).translated(unflat(b, X)), 1.0
    Z = A.op.range
    b = np.round(rng.standard_normal(pb.flat.rdim(Z)), 3)
    q = (0.5 * S.L2NormSquared(Z)).translated(unflat(b, Z)) * A.op
    return q, max(A.norm ** 2, 1e-12)


def _smooth_lip(fd):
    k = fd['kind']
    if k == 'l2sq':
        return 2 * float(fd.get('lam', 1.0))
    if k == 'huber':
        return float(fd.get('lam', 1.0)) / float(fd['gamma'])
    return 0.0


def make_runner(solver, p):
    rng = np.random.RandomState(int(p['seed']) % (2 ** 32))
    R = Runner()
    R.solver = solver
    xs = float(p.get('x0scale', 1.0))

    def start(space):
        return np.round(rng.standard_normal(pb.flat.rdim(space)) * xs, 3)

    if solver in ('admm', 'pdhg'):
        X = R.X = pb.build.build_space(p['domain'])
        L = pb.LinOp(pb.build_operator(p['L'], X))
        f, g = _make_funcs(rng, [(p['f'], X), (p['g'], L.op.range)])
        x0 = start(X)
        nrm = max(L.norm, 1e-6)
        R.nonsmooth = _is_nonsmooth(p['f'], p['g'])
        R.L_identity = p['L']['kind'] == 'identity'
        if solver == 'admm':
            sigma = float(p['sigma'])
            tau = float(p['frac']) * sigma / nrm ** 2
            R.has_ref = True
            R.new_state = lambda: {'x': unflat(x0, X)}
            R.run = lambda s, n, cb=None: admm_linearized(
                s['x'], f, g, L.op, tau, sigma, n, callback=cb)
            R.run_ref = lambda s, n, cb=None: admm_linearized_simple(
                s['x'], f, g, L.op, tau, sigma, n, callback=cb)
            R.ref_has_callback = True
            R.aliased = [('f', p['f'], lambda: f.proximal(tau), X)]
            R.region = 'f={},g={}'.format(pb.func_class_name(p['f']),
                                          pb.func_class_name(p['g']))
        else:
            ratio = float(p['sigma'])
            s0 = np.sqrt(float(p['frac'])) / nrm
            tau, sigma = s0 * ratio, s0 / ratio
            theta = float(p['theta'])
            y0 = np.round(rng.standard_normal(pb.flat.rdim(L.op.range))
                          * 0.5, 3)
            R.new_state = lambda: {'x': unflat(x0, X),
                                   'x_relax': unflat(x0, X),
                                   'y': unflat(y0, L.op.range)}
            akw = {}
            if p.get('accel', 'none') == 'primal':
                akw['gamma_primal'] = 0.3
            elif p.get('accel', 'none') == 'dual':
                akw['gamma_dual'] = 0.3
            R.run = lambda s, n, cb=None: S.pdhg(
                s['x'], f, g, L.op, int(n), tau=tau, sigma=sigma,
                theta=theta, x_relax=s['x_relax'], y=s['y'], callback=cb,
                **akw)
            # restart that forgets the exposed state (non-triviality only)
            R.run_naive = lambda s, n: S.pdhg(
                s['x'], f, g, L.op, int(n), tau=tau, sigma=sigma,
                theta=theta)
        return R

    if solver in ('adupdates', 'dr', 'fb'):
        X = R.X = pb.build.build_space(p['domain'])
        dX = pb.gram_diag(X)
        lins = [pb.LinOp(pb.build_operator(t['L'], X), dX)
                for t in p['terms']]
        gs = _make_funcs(rng, [(t['g'], l.op.range)
                               for t, l in zip(p['terms'], lins)])
        Ls = [l.op for l in lins]
        x0 = start(X)
        R.nonsmooth = _is_nonsmooth(*[t['g'] for t in p['terms']]) \
            if p['terms'] else False
        R.L_identity = all(t['L']['kind'] == 'identity' for t in p['terms'])
        if solver == 'adupdates':
            mu = float(p['stepsize'])
            inner = []
            for t, l in zip(p['terms'], lins):
                gam = float(t['frac']) / max(l.norm, 1e-6) ** 2
                if t['istep'] == 'list':
                    inner.append([gam * (0.5 + 0.5 * rng.uniform())
                                  for _ in t['g']['parts']])
                elif t['istep'] == 'elem':
                    vec = gam * np.round(rng.uniform(0.3, 1.0,
                                                     l.dY.size), 3)
                    inner.append(unflat(vec, l.op.range))
                else:
                    inner.append(gam)
            loop = p['loop']
            R.calls_per_iter = len(Ls) if loop == 'inner' else 1
            R.has_ref = True
            R.ref_has_callback = False
            R.new_state = lambda: {'x': unflat(x0, X)}
            haslist = any(t['istep'] == 'list' for t in p['terms'])

            def guard(fn, which):
                # list-valued inner step sizes for SeparableSum terms are
                # documented; a TypeError from them is reported under its
                # own root-cause signature
                def run(s, n, cb=None):
                    if not haslist or n == 0:
                        return fn(s, n, cb)
                    try:
                        return fn(s, n, cb)
                    except TypeError as e:
                        raise Violation(
                            'C11|documented-input-crash|adupdates|'
                            'inner_stepsizes=list',
                            '{} raises TypeError for list-valued inner '
                            'step sizes of a SeparableSum term: {}'.format(
                                which, e))
                return run

            rand = bool(p.get('random'))
            rseed = int(p['seed']) % (2 ** 32)

            def opt(s, n, cb=None):
                # random=True draws one permutation per outer iteration
                # from np.random: re-seeding before every run makes the
                # order a function of the descriptor, identical for the
                # optimised solver, the reference and every re-run
                np.random.seed(rseed)
                return adupdates(s['x'], gs, Ls, mu, inner, n, random=rand,
                                 callback=cb, callback_loop=loop)

            def ref(s, n, cb=None):
                np.random.seed(rseed)
                return adupdates_simple(s['x'], gs, Ls, mu, inner, n,
                                        random=rand)

            R.run = guard(opt, 'adupdates')
            R.run_ref = guard(ref, 'adupdates_simple')
            R.region = 'g=' + '+'.join(pb.func_class_name(t['g'])
                                       for t in p['terms'])
            R.region += ',istep=' + '+'.join(t['istep'] for t in p['terms'])
            return R
        f, = _make_funcs(rng, [(p['f'], X)])
        R.nonsmooth = R.nonsmooth or _is_nonsmooth(p['f'])
        m = len(Ls)
        sq = sum(l.norm ** 2 for l in lins)
        if solver == 'dr':
            tau = float(p['stepsize'])
            # tau * sum sigma_i ||L_i||^2 = 4 * frac
            sig = [4 * float(p['frac']) / (tau * max(sq, 1e-12))] * m
            lam = float(p['lam'])
            R.new_state = lambda: {'x': unflat(x0, X)}
            R.run = lambda s, n, cb=None: S.douglas_rachford_pd(
                s['x'], f, gs, Ls, n, tau=tau, sigma=sig, callback=cb,
                lam=lam)
            return R
        h, = _make_funcs(rng, [(p['h'], X)])
        beta = max(_smooth_lip(p['h']), 1e-3)
        q = float(p['frac'])
        t1 = np.sqrt(q / sq) if sq > 0 else np.inf
        t = min(t1, 0.9 * 2 * np.sqrt(1 - q) / beta)
        kw = {}
        if p.get('lgiven') and m:
            kw['l'] = [(0.5 * S.L2NormSquared(l.op.range)) for l in lins]
            t = min(t, 0.9)
        R.new_state = lambda: {'x': unflat(x0, X)}
        R.run = lambda s, n, cb=None: S.forward_backward_pd(
            s['x'], f, gs, Ls, h, t, [t] * m, n, callback=cb, **kw)
        return R

    if solver == 'dpdc':
        X = R.X = pb.build.build_space(p['domain'])
        K = pb.LinOp(pb.build_operator(p['K'], X))
        Y = K.op.range
        f, phi, g = _make_funcs(rng, [(p['f'], X), (p['phi'], X),
                                      (p['g'], Y)])
        x0, y0 = start(X), np.round(rng.standard_normal(K.dY.size) * 0.5, 3)
        lip = max(_smooth_lip(p['phi']), 1e-3)
        nrm = max(K.norm, 1e-6)
        gamma = min(float(p['gfrac']) / lip, 0.5 / nrm)
        mu = float(p['mfrac']) / nrm
        R.Y = Y
        R.has_ref = True
        R.ref_has_callback = False
        R.nonsmooth = _is_nonsmooth(p['f'], p['g'])
        R.L_identity = p['K']['kind'] == 'identity'
        R.new_state = lambda: {'x': unflat(x0, X), 'y': unflat(y0, Y)}
        R.run = lambda s, n, cb=None: doubleprox_dc(
            s['x'], s['y'], f, phi, g, K.op, n, gamma, mu, callback=cb)
        R.run_ref = lambda s, n, cb=None: doubleprox_dc_simple(
            s['x'], s['y'], f, phi, g, K.op, n, gamma, mu)
        R.observe = lambda s: np.concatenate([toflat(s['x'], X),
                                              toflat(s['y'], Y)])
        R.aliased = [('f', p['f'], lambda: f.proximal(gamma), X),
                     ('g', p['g'], lambda: g.convex_conj.proximal(mu), Y)]
        R.region = 'f={},g={}'.format(pb.func_class_name(p['f']),
                                      pb.func_class_name(p['g']))
        return R

    if solver == 'landweber':
        X = R.X = pb.build.build_space(p['domain'])
        A = pb.LinOp(pb.build_operator(p['op'], X))
        rhs = unflat(np.round(rng.standard_normal(A.dY.size), 3), A.op.range)
        x0 = start(X)
        omega = float(p['frac']) * 2 / max(A.norm, 1e-6) ** 2
        proj = _proj_nonneg if p['proj'] else None
        R.nonsmooth = True
        R.L_identity = p['op']['kind'] == 'identity'
        R.new_state = lambda: {'x': unflat(x0, X)}
        R.run = lambda s, n, cb=None: S.landweber(
            A.op, s['x'], rhs, n, omega=omega, projection=proj, callback=cb)
        return R

    if solver == 'kaczmarz':
        X = R.X = pb.build.build_space(p['domain'])
        dX = pb.gram_diag(X)
        lins = [pb.LinOp(pb.build_operator(o, X), dX) for o in p['ops']]
        rhs = [unflat(np.round(rng.standard_normal(l.dY.size), 3),
                      l.op.range) for l in lins]
        x0 = start(X)
        om = [fr * 2 / max(l.norm, 1e-6) ** 2
              for fr, l in zip(p['fracs'], lins)]
        omega = om if p['omega_list'] else min(om)
        proj = _proj_nonneg if p['proj'] else None
        loop = p['loop']
        ops = [l.op for l in lins]
        R.calls_per_iter = len(ops) if loop == 'inner' else 1
        R.nonsmooth = True
        R.L_identity = all(o['kind'] == 'identity' for o in p['ops'])
        R.new_state = lambda: {'x': unflat(x0, X)}
        rand = bool(p.get('random'))
        rseed = int(p['seed']) % (2 ** 32)

        def krun(s, n, cb=None):
            np.random.seed(rseed)
            return S.kaczmarz(ops, s['x'], rhs, n, omega=omega,
                              projection=proj, random=rand, callback=cb,
                              callback_loop=loop)

        R.run = krun
        return R

    if solver in ('proxgrad', 'accel', 'steepest', 'prox_dca', 'dca'):
        X = R.X = pb.build.build_space(p['domain'])
        dX = pb.gram_diag(X)
        A = None if p['A'] is None else pb.LinOp(
            pb.build_operator(p['A'], X), dX)
        q, lip = _quadratic(rng, X, A, dX)
        x0 = start(X)
        R.L_identity = p['A'] is None
        R.new_state = lambda: {'x': unflat(x0, X)}
        if solver in ('proxgrad', 'accel'):
            f, = _make_funcs(rng, [(p['f'], X)])
            R.nonsmooth = _is_nonsmooth(p['f'])
            gamma = float(p['frac']) * (2 if solver == 'proxgrad' else 1) \
                / lip
            if solver == 'proxgrad':
                lam = float(p['lam'])
                R.run = lambda s, n, cb=None: S.proximal_gradient(
                    s['x'], f, q, gamma, n, callback=cb, lam=lam)
            else:
                R.run = lambda s, n, cb=None: \
                    S.accelerated_proximal_gradient(
                        s['x'], f, q, gamma, n, callback=cb)
            return R
        if solver == 'steepest':
            obj = q
            if p['extra'] is not None:
                Lx = pb.LinOp(pb.build_operator(p['extra']['L'], X), dX)
                ge, = _make_funcs(rng, [(p['extra']['g'], Lx.op.range)])
                obj = q + ge * Lx.op
                lip += _smooth_lip(p['extra']['g']) * Lx.norm ** 2
            step = float(p['frac']) * 2 / lip
            proj = _proj_nonneg if p['proj'] else None
            R.nonsmooth = True
            R.run = lambda s, n, cb=None: S.steepest_descent(
                obj, s['x'], line_search=step, maxiter=n, projection=proj,
                callback=cb)
            R.may_stop_early = True
            return R
        if solver == 'prox_dca':
            f, = _make_funcs(rng, [(p['f'], X)])
            gam = float(p['frac']) / lip
            R.nonsmooth = _is_nonsmooth(p['f'])
            # min f - q is not convex; only the call protocol is asserted
            R.run = lambda s, n, cb=None: prox_dca(
                s['x'], f, q, n, gam, callback=cb)
            return R
        # dca: x <- grad f^*(grad g(x)), f = lam ||.||^2 (+ translation)
        lamf = float(p['lam_f'])
        b = unflat(np.round(rng.standard_normal(dX.size), 3), X)
        f = (lamf * S.L2NormSquared(X)).translated(b)
        g, = _make_funcs(rng, [(p['g'], X)])
        R.nonsmooth = True
        R.run = lambda s, n, cb=None: dca(s['x'], f, g, n, callback=cb)
        return R

    if solver in ('mlem', 'osmlem'):
        n = int(p['n'])
        X = R.X = odl.rn(n)
        mats = [rng.uniform(0.1, 1.0, size=(m, n)) for m in p['ms']]
        ops = [odl.MatrixOperator(M) for M in mats]
        xt = rng.uniform(0.2, 2.0, n)
        data = [op.range.element(M @ xt * rng.uniform(0.8, 1.2, M.shape[0]))
                for op, M in zip(ops, mats)]
        x0 = np.round(rng.uniform(0.2, 2.0, n), 3)
        kw = {}
        if p['sens'] == 'float':
            kw['sensitivities'] = 1.5
        elif p['sens'] == 'elem':
            sens = [X.element(np.round(rng.uniform(0.5, 2.0, n), 3))
                    for _ in ops]
            kw['sensitivities'] = sens[0] if solver == 'mlem' else sens
        R.nonsmooth = True
        R.L_identity = False
        R.new_state = lambda: {'x': X.element(x0.copy())}
        if solver == 'mlem':
            R.run = lambda s, n_, cb=None: S.mlem(
                ops[0], s['x'], data[0], n_, callback=cb, **kw)
        else:
            R.calls_per_iter = len(ops)
            R.run = lambda s, n_, cb=None: S.osmlem(
                ops, s['x'], data, n_, callback=cb, **kw)
        return R

    if solver in ('cg', 'cgn'):
        X = R.X = pb.build.build_space(p['domain'])
        R.nonsmooth = True
        R.L_identity = False
        R.may_stop_early = True
        if solver == 'cg':
            op, A, xsol, rhs, rng2 = pb.spd_system(X, p['svals'], p['seed'])
            rhs_el = X.element(rhs)
            x0 = np.round(rng2.standard_normal(X.size) * xs, 3)
            R.new_state = lambda: {'x': X.element(x0.copy())}
            R.run = lambda s, n, cb=None: S.conjugate_gradient(
                op, s['x'], rhs_el, n, callback=cb)
        else:
            A = pb.LinOp(pb.build_operator(p['op'], X))
            rhs = unflat(np.round(rng.standard_normal(A.dY.size), 3),
                         A.op.range)
            x0 = start(X)
            R.new_state = lambda: {'x': unflat(x0, X)}
            R.run = lambda s, n, cb=None: S.conjugate_gradient_normal(
                A.op, s['x'], rhs, n, callback=cb)
        return R
    raise HarnessError('unknown solver ' + solver)


# --------------------------------------------------------------------------
# the case

class _Recorder(object):
    """Callback that copies the value of its argument at call time."""

    def __init__(self, runner):
        self.runner = runner
        self.values = []

    def __call__(self, x):
        self.values.append(np.array(self.runner.cb_value(x), copy=True))


def _check_vec(v, n, sig, what):
    if not isinstance(v, np.ndarray) or v.shape != (n,):
        raise Violation(sig, '{}: unexpected shape {!r}'.format(
            what, getattr(v, 'shape', None)))


def _maxabs(*vs):
    m = 0.0
    for v in vs:
        if len(v):
            a = np.max(np.abs(v))
            m = max(m, float(a) if np.isfinite(a) else np.inf)
    return m


def _diagnose_alias(R):
    """After a pair mismatch: is one of the proximals that the optimised
    solver evaluates in place (``out`` aliased to the input, or a separate
    ``out``) inconsistent with its out-of-place evaluation?  Names the root
    cause in the signature; not part of the oracle."""
    for label, fd, factory, space in R.aliased:
        try:
            rng = np.random.RandomState(5)
            v = unflat(np.round(rng.standard_normal(pb.flat.rdim(space)) * 2,
                                3), space)
            prox = factory()
            ref = toflat(prox(v.copy()), space)
            cls = '+'.join(sorted(pb.func_class_name({'kind': k})
                                  for k in _kinds(fd)))
            w = v.copy()
            prox(w, out=w)
            if _maxabs(toflat(w, space) - ref) > 1e-9 * (1 + _maxabs(ref)):
                return 'aliased-prox:' + cls
            w = space.element()
            prox(v.copy(), out=w)
            if _maxabs(toflat(w, space) - ref) > 1e-9 * (1 + _maxabs(ref)):
                return 'inplace-prox:' + cls
        except Exception:  # noqa
            continue
    return None


def run_case(desc):
    solver, mode, p = desc['solver'], desc['mode'], desc['p']
    name = SOLVER_NAMES[solver]
    try:
        R = make_runner(solver, p)
    except (NotImplementedError, odl.OpNotImplementedError):
        return Outcome('rejected', strata=['rejected:' + solver])
    strata = ['{}:{}'.format(mode, solver), 'mode:' + mode,
              'domain:' + _domain_kind(p)]
    for key in ('f', 'g', 'phi', 'h'):
        if isinstance(p.get(key), dict):
            for k in sorted(_kinds(p[key])):
                strata.append('func:' + k)
    for t in p.get('terms', []):
        for k in sorted(_kinds(t['g'])):
            strata.append('func:' + k)
        strata.append('op:' + t['L']['kind'])
    for key in ('L', 'K', 'op', 'A'):
        if isinstance(p.get(key), dict):
            strata.append('op:' + p[key]['kind'])
    for o in p.get('ops', []):
        strata.append('op:' + o['kind'])
    shapes = set()
    for od in ([p[k] for k in ('L', 'K', 'op', 'A')
                if isinstance(p.get(k), dict)] + list(p.get('ops', [])) +
               [t['L'] for t in p.get('terms', [])]):
        sh = pb.op_shape_stratum(od)
        if sh:
            shapes.add(sh)
    for sh in sorted(shapes):
        strata += [sh, '{}|{}:{}'.format(sh, mode, solver)]

    if p.get('accel', 'none') != 'none':
        strata.append('pdhg:accelerated')
    if p.get('random'):
        strata.append('random-order:' + solver)
    if solver == 'adupdates':
        for kind in sorted({t['istep'] for t in p['terms']}):
            strata.append({'elem': 'inner=element', 'list': 'inner=list',
                           'scalar': 'inner=scalar'}[kind])
        strata.append('outer-stepsize:' + (
            '1' if p['stepsize'] == 1.0 else 'not-1'))
    if mode == 'pair':
        return _pair(desc, R, name, strata)
    if mode == 'resume':
        return _resume(desc, R, name, strata)
    return _callback(desc, R, name, strata)


def _domain_kind(p):
    sd = p.get('domain')
    if sd is None:
        return 'tensor'
    if sd.get('square'):
        return 'sqpspace'
    if sd['kind'] == 'pspace':
        return 'vfield' if sd.get('power') is not None else 'pspace'
    if sd['kind'] == 'tensor' and sd.get('weighting'):
        return 'tensor-weighted'
    return sd['kind']


def _sequence(R, N, sig):
    """Iterate sequence of the optimised solver through its callback, and
    the final state."""
    s = R.new_state()
    x0 = R.observe(s)
    rec = _Recorder(R)
    R.run(s, N, rec)
    return s, x0, rec.values


def _pair(desc, R, name, strata):
    N = int(desc['niter'])
    sig0 = 'C11|pair|{}~simple|'.format(name)
    # optimised: final states for niter = 1..N (the callback only shows x,
    # doubleprox_dc also carries y)
    opt, ref = [], []
    for k in range(1, N + 1):
        s = R.new_state()
        R.run(s, k)
        opt.append(R.observe(s))
    if R.ref_has_callback:
        s = R.new_state()
        rec = _Recorder(R)
        R.run_ref(s, N, rec)
        ref = rec.values
        if len(ref) != N:
            raise Violation('C11|callback-count|{}_simple'.format(name),
                            '{} calls for {} iterations'.format(len(ref), N))
    else:
        for k in range(1, N + 1):
            s = R.new_state()
            R.run_ref(s, k)
            ref.append(R.observe(s))
    x0 = R.observe(R.new_state())
    scale = 1 + _maxabs(x0, *opt, *ref)
    if not np.isfinite(scale):
        return Outcome('trivial', strata=strata + ['nonfinite'])
    for k in range(N):
        d = _maxabs(opt[k] - ref[k])
        if not d <= TOL_PAIR * scale:
            region = _diagnose_alias(R) or 'update-rule'
            raise Violation(
                sig0 + region,
                '{} leaves its reference at iteration {} of {}: max diff '
                '{:.3g} (scale {:.3g}); opt {} ref {}'.format(
                    name, k + 1, N, d, scale, np.round(opt[k], 6).tolist(),
                    np.round(ref[k], 6).tolist()))
    strata.append(_diff_stratum('pair', max(
        _maxabs(opt[k] - ref[k]) for k in range(N)) / scale))
    moved = _maxabs(opt[-1] - x0) > 0
    nontriv = N >= 2 and moved and R.nonsmooth and \
        not getattr(R, 'L_identity', False)
    strata.append('N:{}'.format('1' if N == 1 else '2-4' if N <= 4
                                else '5-12'))
    return Outcome('ok', strata=strata, nontrivial=nontriv)


def _diff_stratum(what, rel):
    """Observed relative difference of the two sides (evidence only)."""
    if rel == 0:
        return what + '-diff:exactly-0'
    for e in (16, 14, 12, 10):
        if rel <= 10.0 ** -e:
            return what + '-diff:<=1e-{}'.format(e)
    return what + '-diff:>1e-10'


def _resume(desc, R, name, strata):
    splits = [int(v) for v in desc['splits']]
    N = sum(splits)
    sig = 'C11|resume|{}'.format(name)
    s1, x0, seq = _sequence(R, N, sig)
    full = [x0] + seq
    early = getattr(R, 'may_stop_early', False)
    if len(seq) != N * R.calls_per_iter and not early:
        raise Violation('C11|callback-count|' + name,
                        '{} calls for {} iterations'.format(len(seq), N))
    final = R.observe(s1)
    scale = 1 + _maxabs(*full, final)
    if not np.isfinite(scale):
        return Outcome('trivial', strata=strata + ['nonfinite'])
    s2 = R.new_state()
    done = 0
    worst = 0.0
    for n in splits:
        R.run(s2, n)
        done += n
        got = R.observe(s2)
        idx = min(done * R.calls_per_iter, len(full) - 1)
        exp = full[idx] if not early else (full[idx] if idx < len(full)
                                           else full[-1])
        d = _maxabs(got - exp)
        worst = max(worst, d / scale)
        if not d <= TOL_EXACT * scale:
            raise Violation(
                sig, 'after segments {} of {} the resumed run differs from '
                'iterate {} of the unsplit run by {:.3g} (scale {:.3g})'
                ''.format(splits[:splits.index(n) + 1], splits, done, d,
                          scale))
    moved = _maxabs(final - x0) > 0
    nontriv = N >= 2 and moved and sum(1 for n in splits if n > 0) >= 2
    if solver_has_naive(R) and nontriv:
        # the exposed state matters: a restart without it gives another
        # result (only recorded, never asserted)
        s3 = R.new_state()
        R.run(s3, splits[0])
        s4 = {'x': s3['x'].copy()}
        R.run_naive(s4, N - splits[0])
        if _maxabs(toflat(s4['x'], R.X) - final) > 1e-9 * scale:
            strata.append('pdhg:state-matters')
    strata.append(_diff_stratum('resume', worst))
    strata.append('segments:{}'.format(len(splits)))
    if 0 in splits:
        strata.append('segments:with-zero')
    return Outcome('ok', strata=strata, nontrivial=nontriv)


def solver_has_naive(R):
    return hasattr(R, 'run_naive')


def _callback(desc, R, name, strata):
    N = int(desc['niter'])
    s1, x0, seq = _sequence(R, N, name)
    n = len(x0) if R.solver != 'dpdc' else pb.flat.rdim(R.X)
    for v in seq:
        _check_vec(v, n, 'C11|callback-value|' + name, 'callback argument')
    early = getattr(R, 'may_stop_early', False)
    expected = N * R.calls_per_iter
    if len(seq) != expected and not (early and len(seq) < expected):
        raise Violation(
            'C11|callback-count|' + name,
            '{} callback calls for {} iterations (expected {})'.format(
                len(seq), N, expected))
    final = R.observe(s1)[:n]
    scale = 1 + _maxabs(x0, *seq, final)
    if not np.isfinite(scale):
        return Outcome('trivial', strata=strata + ['nonfinite'])
    if seq:
        d = _maxabs(final - seq[-1])
        if not d <= TOL_EXACT * scale:
            raise Violation(
                'C11|final-value|' + name,
                'x after the run differs from the last callback value by '
                '{:.3g} (scale {:.3g})'.format(d, scale))
    # value at that moment: the k-th observed value is what a fresh run
    # with k iterations returns
    c = R.calls_per_iter
    for k in range(1, N + 1):
        s = R.new_state()
        R.run(s, k)
        got = R.observe(s)[:n]
        idx = k * c - 1
        if idx >= len(seq):
            if not seq:
                exp = x0[:n]
            else:
                exp = seq[-1]
        else:
            exp = seq[idx]
        d = _maxabs(got - exp)
        if not d <= TOL_EXACT * scale:
            raise Violation(
                'C11|callback-value|' + name,
                'callback value #{} differs from the result of a fresh run '
                'with {} iterations by {:.3g} (scale {:.3g})'.format(
                    idx + 1, k, d, scale))
    if c > 1:
        # inner-loop values are pairwise distinct states of one sweep: the
        # last of each sweep was compared above, the others must at least
        # not all coincide with it when the sweep moved
        strata.append('callback:inner')
    moved = bool(seq) and _maxabs(seq[-1] - x0[:n]) > 0
    distinct = len(seq) < 2 or _maxabs(seq[-1] - seq[0]) > 0
    strata.append('N:{}'.format('1' if N == 1 else '2-4' if N <= 4
                                else '5-12'))
    if early and len(seq) < expected:
        strata.append('early-stop')
    return Outcome('ok', strata=strata,
                   nontrivial=N >= 2 and moved and distinct)


REQUIRED_STRATA = (
    ['pair:' + s for s in PAIR_SOLVERS] +
    ['resume:' + s for s in RESUME_SOLVERS] +
    ['callback:' + s for s in ALL_SOLVERS] +
    ['func:' + k for k in PROX_KINDS] +
    ['op:matrix', 'op:gradient', 'op:broadcast', 'op:pso', 'op:identity',
     'op:divergence', 'op:reduction', 'domain:tensor',
     'domain:tensor-weighted', 'domain:discr', 'domain:pspace',
     'domain:vfield', 'pdhg:state-matters', 'pdhg:accelerated',
     'segments:with-zero', 'inner=element', 'outer-stepsize:not-1',
     'random-order:adupdates', 'random-order:kaczmarz',
     'L=stencil-square', 'L=block-square', 'domain:sqpspace',
     'L=stencil-square|pair:admm', 'L=block-square|pair:admm',
     'L=stencil-square|pair:adupdates', 'L=block-square|pair:adupdates',
     'L=stencil-square|pair:dpdc', 'L=block-square|pair:dpdc',
     'L=stencil-square|resume:pdhg', 'L=block-square|resume:landweber',
     'callback:inner'])
