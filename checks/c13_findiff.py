"""C13 - finite differences equal reference stencils; adjoints are transposes.

Generator: (grid shape, cell sides, dtype, boundary-node option) x method x
pad mode (6 primary + 4 adjoint) x pad constant; exhaustive for the small
sub-space, Hypothesis continuation for larger sizes / generic cell sides /
``out=`` / explicit ``range=`` / boundary-node grids.

Oracle: every configuration is decided for *all* inputs through the full
matrix and offset of the operator (``op(0)``, ``op(e_k) - op(0)``), compared
with ``vlib.ref.stencils`` ("extend by the named rule, apply the textbook
stencil, divide by the cell side"; adjoint modes defined by duality), for
``finite_diff`` (every axis), ``PartialDerivative`` (every axis), ``Gradient``,
``Divergence`` and ``Laplacian``; the returned adjoints must be the exact
transposes (and satisfy the Gram identity in the library's own inner
products); ``derivative`` of the affine constant-padding variant must be the
zero-padding operator and ``is_linear`` must be ``False`` exactly for the
affine variants.  ``.adjoint`` is also taken on the affine variant itself
(it must be refused or be the linear transpose ``M^T``, never an affine map)
and on its derivative.  One generic data vector per operator additionally
checks ``M x + b`` (and the in-place call protocol when requested).

Call styles (generated part): operators constructed with every argument by
keyword / by position / with every argument that equals its documented
default left out (derived range) / from ``range=`` alone (derived domain);
``finite_diff`` called by keyword / by position / with defaults left out /
with a negative axis, on C-, F-ordered, strided and read-only input arrays
and on a nested list ("array-like"); one argument outside the documented
set per case must be refused.
"""
import itertools

import numpy as np
from hypothesis import strategies as st

from vlib import build, flat
from vlib.core import Violation, Outcome, HarnessError
from vlib.ref import stencils as S

odl = build.odl
from odl.discr.diff_ops import (  # noqa: E402
    finite_diff, PartialDerivative, Gradient, Divergence, Laplacian)

PROPERTY = 'C13'
TECHNIQUE = ('exhaustive enumeration of the small configuration space plus '
             'Hypothesis continuation; each configuration decided for all '
             'inputs by its full matrix and offset against an independent '
             'extend-then-stencil reference; adjoints as exact transposes / '
             'Gram identity; descriptor replay')
LEVEL_TEXT = ('Every (method, pad mode, pad constant, dtype, cell side) '
              'configuration on every grid shape of the enumerated sub-space '
              '(1-D sizes 1..7; thorough: 2-D sizes 2..6 and 3-D sizes 2..4 '
              'per axis) is decided for all inputs, because the operators are '
              'affine and their complete matrix and offset are compared with '
              'a reference written from the documentation; beyond that '
              'sub-space (larger sizes, generic cell sides, boundary-node '
              'grids, out=, range=, construction and call styles with '
              'defaults / derived spaces / positional arguments / negative '
              'axis, input memory layouts) the same decision is made on '
              'generated configurations. Exploration for the unbounded part '
              '(sizes), exhaustive for the listed finite part.')
LEVEL_NOTE = ('Trusted: NumPy long double, the reference vlib/ref/stencils.py '
              '(the adjoint modes are defined there by duality with the '
              'primary modes, the documentation does not describe them), '
              'ODL element creation and the library inner product for the '
              'Gram identity (pinned by C01/C02). Affinity of the code under '
              'test is assumed for the step "matrix decides all inputs"; one '
              'generic data vector per operator guards it.')
DESIGN_REF = 'DESIGN.md section 5, C13'
BUDGET = {'quick': 3000, 'thorough': 20000}
K_BASE = 4
TOLERANCES = {
    'matrix': '|got - ref| <= (4 + 2*ndim) * eps(dtype) * (sum_j |ref_ij| '
              '(no cancellation between the forward and backward parts of '
              'the Laplacian) + 2*|pad_const*b_i|) per row i; the cell side '
              'is the one the space reports (cross-checked against '
              '(max-min)/n from the descriptor), one rounding for the '
              'division, up to 2*ndim roundings for the Laplacian '
              'accumulation',
    'data': '|op(x) - (M x + b)| <= (4 + 2*ndim) * eps * (|M||x| + |b|) per '
            'entry, reference in long double',
    'gram': 'max|N^T G_X - G_Y M| <= 64*eps*max(|lhs|,|rhs|) (dim <= 24); '
            'otherwise |<Au,v> - <u,A*v>| <= 64*eps*sqrt(m)*|Au||v| for two '
            'generic pairs (A = the linear part, i.e. the derivative, when '
            'the operator is affine)',
    'adjoint': 'the matrix of the returned adjoint against ref^T with the '
               'column sums of |ref| in place of the row sums (Laplacian: '
               'the cancellation-free row magnitude, its matrix is '
               'symmetric); offset of the adjoint against 0 with the same '
               'bound',
    'array-like': 'as "data", with eps of the dtype NumPy gives the nested '
                  'list (float64 / complex128)',
}
ASSUMPTIONS = [
    'adjoint clause only on grids without boundary nodes (uniformly weighted '
    'spaces, as the property says); domain and range have equal cell volume',
    "'symmetric' for finite differences is edge replication and 'order2' uses "
    'the one-sided second-order rows for all methods (documented / pinned by '
    'the test-suite of the library)',
    "order2_adjoint at size 2 lies outside the admissible region (order2 "
    "needs 3 values); any of ValueError/IndexError is accepted there, the "
    "library raises IndexError",
    'operators are affine maps (composition of linear NumPy operations); the '
    'matrix and offset therefore decide all inputs',
    'data values are finite, |x| <= ~1e2',
    'an affine variant (constant padding, pad_const != 0) may refuse to '
    'give an adjoint (ValueError / NotImplementedError: "not linear and has '
    'no adjoint" is documented for three of the four classes); what it '
    'returns instead of refusing must be the linear transpose of its matrix',
    'a missing range / domain argument means the space on the same grid '
    '(documented: range == domain, ProductSpace(domain, ndim), range[0] / '
    'domain[0]); documented defaults are method="forward", '
    'pad_mode="constant", pad_const=0, dx=1.0',
    'arguments outside the documented sets (unknown method / pad mode, '
    'non-positive or NaN dx, out of another shape, axis out of range, spaces '
    'of the wrong kind or power) must not produce a result; any of '
    'ValueError, TypeError, IndexError, KeyError, NotImplementedError counts '
    'as refusal',
]
RULE = ('exhaustive: methods x 10 pad modes x pad_const {0,1,-2.5} x dtype '
        '{float64,complex128,float32} x cell sides x all shapes of the tier; '
        'generated: Hypothesis draws shape (1-3 axes, sizes 1..40), generic '
        'cell sides and origin, boundary nodes, dtype (4), pad constant '
        '(incl. complex), out= layout, range=, data seed, operator '
        'construction style (explicit / minimal / from-range / positional), '
        'finite_diff call style (kw / minimal / negaxis / positional), input '
        'layout (C / F / strided / readonly / nested list), for ndim >= 2 '
        'cell sides that are nearly but not exactly equal (relative '
        'difference 8e-8..6e-6) or all tiny (1e-9..9e-9) and one refusal '
        'probe in half of the cases; the minimal styles bias method, pad '
        'mode, pad constant and cell side towards the documented defaults so '
        'that arguments really are left out. Non-trivial = the '
        'oracle was evaluated and (some differentiated axis has size <= 4 or '
        'the mode is an *_adjoint mode or ndim >= 2); distinct by sha1 of '
        'the descriptor')
EXHAUSTIVE = {
    'quick': ['1-D: sizes 1..7 x 3 methods x 10 pad modes x pad_const '
              '{0,1,-2.5} x {float64,complex128,float32} x cell side '
              '{1,0.5,0.3}: finite_diff, PartialDerivative, Gradient, '
              'Divergence, Laplacian (matrix, offset, adjoint, derivative, '
              'is_linear)'],
    'thorough': ['1-D: sizes 1..7 x 3 methods x 10 pad modes x pad_const '
                 '{0,1,-2.5} x 3 dtypes x cell side {1,0.5,0.3}',
                 '2-D: all shapes with sizes 2..6 per axis x 3 methods x 10 '
                 'modes x pad_const {0,1,-2.5} x 3 dtypes x 3 cell-side '
                 'patterns, all axes',
                 '3-D: all shapes with sizes 2..4 per axis x 3 methods x 10 '
                 'modes x pad_const {0,1,-2.5} x 3 dtypes x 3 cell-side '
                 'patterns, all axes'],
}

ENUM_DTYPES = ['float64', 'complex128', 'float32']
ENUM_CONSTS = [0, 1, -2.5]
# call styles of the generated part (the enumerated part uses the first of
# each): operator construction, finite_diff call, layout of the input array,
# one inadmissible argument that has to be refused
CTOR_STYLES = ('explicit', 'explicit', 'minimal', 'from-range', 'positional')
FD_CALL_STYLES = ('kw', 'kw', 'minimal', 'negaxis', 'positional')
FD_IN_KINDS = ('C', 'C', 'F', 'F', 'strided', 'strided', 'readonly', 'list')
BAD_KINDS = ('method', 'pad_mode', 'dx', 'out-shape', 'axis', 'spaces')
CELL_PATTERNS = {1: [[1.0], [0.5], [0.3]],
                 2: [[1.0, 1.0], [0.5, 0.3], [0.3, 1.0]],
                 3: [[1.0, 1.0, 1.0], [0.5, 0.3, 1.0], [0.3, 1.0, 0.5]]}


# --------------------------------------------------------------------------
# generators

def _base(shape, cell, dtype, method, mode, c):
    return {'shape': list(shape), 'min': [0.0] * len(shape),
            'cell': list(cell), 'dtype': dtype, 'nob': False,
            'method': method, 'mode': mode, 'pad_const': c,
            'range': 'same', 'fd_out': 'none', 'op_out': False, 'seed': 0}


def enumerate_cases(tier):
    shapes = [(n,) for n in range(1, 8)]
    if tier == 'thorough':
        shapes += list(itertools.product(range(2, 7), repeat=2))
        shapes += list(itertools.product(range(2, 5), repeat=3))
    for shape in shapes:
        for cell in CELL_PATTERNS[len(shape)]:
            for dtype in ENUM_DTYPES:
                for method in S.METHODS:
                    for mode in S.ALL_MODES:
                        for c in ENUM_CONSTS:
                            yield _base(shape, cell, dtype, method, mode, c)


@st.composite
def _shape(draw):
    nd = draw(st.sampled_from([1, 1, 2, 2, 3]))
    if nd == 1:
        n = draw(st.one_of(st.integers(1, 9), st.integers(8, 40)))
        return [n]
    if nd == 2:
        a = draw(st.integers(1, 12))
        b = draw(st.integers(1, max(2, min(12, 80 // a))))
        return draw(st.permutations([a, b]))
    a = draw(st.integers(1, 6))
    b = draw(st.integers(1, 5))
    c = draw(st.integers(2, max(2, min(6, 72 // (a * b)))))
    return draw(st.permutations([a, b, c]))


def _f32(x):
    return float(np.float32(x))


@st.composite
def _strategy(draw):
    shape = list(draw(_shape()))
    nd = len(shape)
    cell = []
    for _ in range(nd):
        kind = draw(st.sampled_from(['unit', 'palette', 'generic',
                                     'generic64']))
        if kind == 'unit':
            cell.append(1.0)
        elif kind == 'palette':
            cell.append(draw(st.sampled_from([0.5, 0.3, 2.0, 0.125, 7.0,
                                              0.1])))
        elif kind == 'generic':
            cell.append(draw(st.floats(0.02, 9.0).map(_f32)))
        else:
            cell.append(draw(st.floats(0.02, 9.0)))
    mn = [draw(st.sampled_from([0.0, -1.0, 2.5, 0.1]) |
               st.floats(-5, 5).map(_f32) | st.floats(-5, 5))
          for _ in range(nd)]
    dtype = draw(st.sampled_from(['float64', 'float64', 'complex128',
                                  'float32', 'complex64']))
    cplx = dtype.startswith('complex')
    # call styles (strata hit by construction): how the operators are
    # constructed and how finite_diff is called.  The styles that leave
    # arguments at their documented defaults need arguments that *are* the
    # defaults, so those are biased towards them below.
    ctor = draw(st.sampled_from(CTOR_STYLES))
    fd_call = draw(st.sampled_from(FD_CALL_STYLES))
    dflt = 'minimal' in (ctor, fd_call) or ctor == 'from-range'

    def prefer():
        return dflt and draw(st.sampled_from([True, True, False]))

    if dflt:
        cell = [1.0 if draw(st.booleans()) else v for v in cell]
    # grids on which "the cell sides are equal" holds only approximately
    # (nearly equal sides; all sides tiny): the divisor is the side of the
    # differentiated axis, whatever the other sides are
    iso = draw(st.sampled_from(['free', 'free', 'free', 'near', 'tiny'])) \
        if nd >= 2 else 'free'
    if iso == 'near':
        cell = [cell[0]] + [
            float(cell[0] * (1 + draw(st.sampled_from(
                [1e-6, -3e-6, 2e-7, 6e-6, -8e-8]))))
            for _ in range(nd - 1)]
    elif iso == 'tiny':
        cell = [draw(st.floats(1e-9, 9e-9)) for _ in range(nd)]
        mn = [0.0] * nd
    method = 'forward' if prefer() else \
        draw(st.sampled_from(S.METHODS))
    mode = 'constant' if prefer() else \
        draw(st.sampled_from(S.ALL_MODES + ('constant',)))
    ckind = 'zero' if prefer() else \
        draw(st.sampled_from(['zero', 'one', 'generic', 'generic',
                              'cplx' if cplx else 'generic']))
    if ckind == 'zero':
        c = draw(st.sampled_from([0, 0.0]))
    elif ckind == 'one':
        c = draw(st.sampled_from([1, -1, -2.5]))
    elif ckind == 'cplx':
        c = complex(draw(st.floats(-4, 4).map(_f32)),
                    draw(st.floats(0.25, 4).map(_f32)))
    else:
        c = draw(st.floats(-50, 50).map(_f32))
    nobk = draw(st.sampled_from(['no', 'no', 'no', 'all', 'sides']))
    if min(shape) < 2:
        nobk = 'no'
    if nobk == 'no':
        nob = False
    elif nobk == 'all':
        nob = True
    else:
        nob = [[draw(st.booleans()), draw(st.booleans())]
               for _ in range(nd)]
    # 'minimal' / 'from-range' construction derives the other space, which
    # is the one on the same grid with the same dtype
    rng_kind = 'same' if ctor in ('minimal', 'from-range') else \
        draw(st.sampled_from(['same', 'same', 'astype']))
    return {'shape': shape, 'min': mn, 'cell': cell, 'dtype': dtype,
            'nob': nob, 'method': method, 'mode': mode, 'pad_const': c,
            'range': rng_kind,
            'fd_out': draw(st.sampled_from(['none', 'C', 'F', 'strided'])),
            'op_out': draw(st.booleans()),
            'ctor': ctor, 'fd_call': fd_call,
            'fd_in': draw(st.sampled_from(FD_IN_KINDS)),
            'bad': draw(st.sampled_from((None,) * len(BAD_KINDS)
                                        + BAD_KINDS)),
            'seed': draw(st.integers(0, 2 ** 31 - 1))}


def strategy(tier):
    return _strategy()


# --------------------------------------------------------------------------
# helpers

def _eps(dtype):
    return float(np.finfo(np.dtype(dtype)).eps)


def _sizeclass(n):
    return str(n) if n <= 4 else '5+'


def _realify(M, off, cplx_dom, cplx_ran):
    """Real-ified (interleaved re, im) version of a real matrix acting on
    complex vectors, matching ``flat.flat``."""
    M = np.asarray(M, dtype=float)
    off = np.asarray(off)
    if cplx_dom != cplx_ran:
        raise HarnessError('mixed real/complex operator')
    if not cplx_dom:
        return M, np.real(off).astype(float)
    Mr = np.kron(M, np.eye(2))
    offc = off.astype(complex)
    return Mr, np.stack([offc.real, offc.imag], axis=-1).ravel()


def _rowtol(K, eps, RM, Rb, cplx):
    r = K * eps * (np.asarray(RM, float) + 2 * np.asarray(Rb, float))
    if cplx:
        r = np.repeat(r, 2)
    return r + 1e-300


def _compare_matrix(sig, got_M, got_off, ref_M, ref_off, rowtol, what):
    if got_M.shape != ref_M.shape:
        raise Violation(sig, '{}: matrix shape {} expected {}'.format(
            what, got_M.shape, ref_M.shape))
    if not (np.all(np.isfinite(got_M)) and np.all(np.isfinite(got_off))):
        raise Violation(sig, '{}: non-finite entries in matrix/offset'
                        ''.format(what))
    err = np.abs(got_M - ref_M)
    bad = err > rowtol[:, None]
    if np.any(bad):
        i, j = (int(v) for v in np.argwhere(bad)[0])
        raise Violation(sig, '{}: matrix entry ({}, {}) got {!r} ref {!r} '
                        '(tol {:.3g}); got row {} ref row {}'.format(
                            what, i, j, float(got_M[i, j]),
                            float(ref_M[i, j]), float(rowtol[i]),
                            np.round(got_M[i], 6).tolist()[:12],
                            np.round(ref_M[i], 6).tolist()[:12]))
    erro = np.abs(got_off - ref_off)
    bad = erro > rowtol
    if np.any(bad):
        i = int(np.argwhere(bad)[0][0])
        raise Violation(sig, '{}: offset entry {} got {!r} ref {!r} (tol '
                        '{:.3g})'.format(what, i, float(got_off[i]),
                                         float(ref_off[i]),
                                         float(rowtol[i])))


def _data(shape, dtype, seed, salt):
    rng = np.random.RandomState((int(seed) * 7919 + salt) % (2 ** 32))
    a = rng.uniform(-1, 1, size=shape) * rng.choice([1.0, 30.0])
    if np.dtype(dtype).kind == 'c':
        a = a + 1j * rng.uniform(-1, 1, size=shape)
    return a.astype(dtype)


FD_DEFAULTS = (('dx', 1.0), ('method', 'forward'), ('pad_mode', 'constant'),
               ('pad_const', 0))


def _layout(arr, kind):
    """The same array values in another memory layout (input of
    ``finite_diff``: "an N-dimensional array")."""
    if kind in ('C', 'list'):
        # ('list' is probed separately at the end of the case)
        return arr
    if kind == 'F':
        return np.asfortranarray(arr)
    if kind == 'strided':
        big = np.zeros(tuple(2 * s for s in arr.shape), dtype=arr.dtype)
        view = big[tuple(slice(1, None, 2) for _ in arr.shape)]
        view[...] = arr
        return view
    if kind == 'readonly':
        f = arr.copy()
        f.setflags(write=False)
        return f
    raise HarnessError(kind)


def _make_out(kind, shape, dtype):
    if kind == 'C':
        out = np.empty(shape, dtype=dtype, order='C')
    elif kind == 'F':
        out = np.empty(shape, dtype=dtype, order='F')
    elif kind == 'strided':
        big = np.empty(tuple(2 * s for s in shape), dtype=dtype)
        big[...] = np.nan
        out = big[tuple(slice(None, None, 2) for _ in shape)]
    else:
        raise HarnessError(kind)
    out[...] = np.nan
    return out


# --------------------------------------------------------------------------
# finite_diff

def _check_finite_diff(desc, shape, dtype, dxs, region, K, notes):
    method, mode, c = desc['method'], desc['mode'], desc['pad_const']
    dt = np.dtype(dtype)
    cplx = dt.kind == 'c'
    eps = _eps(dt)
    size = int(np.prod(shape))
    okind = desc['fd_out']

    style = desc.get('fd_call', 'kw')
    in_kind = desc.get('fd_in', 'C')
    nd = len(shape)

    def call(arr, axis, raw=False):
        f = arr if raw else _layout(arr, in_kind)
        out = None if okind == 'none' else _make_out(okind, shape, dt)
        # the documented "axis" admits the usual negative form
        ax = axis - nd if style == 'negaxis' else axis
        if style == 'positional':
            # documented order: f, axis, dx, method, out, pad_mode, pad_const
            r = finite_diff(f, ax, dxs[axis], method, out, mode, c)
        else:
            kwargs = dict(axis=ax, dx=dxs[axis], method=method,
                          pad_mode=mode, pad_const=c)
            if style == 'minimal':
                # arguments equal to their documented defaults are left out
                for key, default in FD_DEFAULTS:
                    if kwargs[key] == default:
                        del kwargs[key]
                        notes['fd_default_omitted:' + key] += 1
            if out is not None:
                kwargs['out'] = out
            r = finite_diff(f, **kwargs)
        if out is not None and r is not out:
            raise Violation('C13|out-identity|finite_diff|' + region,
                            'result is not the out array')
        if not isinstance(r, np.ndarray) or r.shape != tuple(shape) or \
                r.dtype != dt:
            raise Violation('C13|shape-dtype|finite_diff|' + region,
                            'returned {!r}'.format(
                                (type(r).__name__, getattr(r, 'shape', None),
                                 getattr(r, 'dtype', None))))
        return r

    evaluated = 0
    for axis in range(len(shape)):
        n = shape[axis]
        sig_tail = '{}|{},{},n={}'.format('finite_diff', method, mode,
                                          _sizeclass(n))
        if n < S.min_size(mode):
            allowed = (ValueError,)
            if mode == 'order2_adjoint' and n == 2:
                allowed = (ValueError, IndexError)
            try:
                call(np.zeros(shape, dtype=dt), axis)
            except allowed as e:
                notes['rejected_short_axis'] += 1
                if isinstance(e, IndexError):
                    notes['order2_adjoint_size2_indexerror'] += 1
                continue
            raise Violation('C13|min-size|' + sig_tail,
                            'size {} along axis {} accepted for mode {}'
                            ''.format(n, axis, mode))
        M, b = S.partial_matrix(tuple(shape), axis, method, mode)
        dx = dxs[axis]
        ref_M = M / dx
        ref_off = (complex(c) if cplx else float(np.real(c))) * b / dx
        off = call(np.zeros(shape, dtype=dt), axis).ravel().copy()
        got = np.empty((size, size), dtype=dt)
        e = np.zeros(size, dtype=dt)
        for k in range(size):
            e[k] = 1
            got[:, k] = call(e.reshape(shape), axis).ravel() - off
            e[k] = 0
        RM = np.abs(M).sum(axis=1) / dx
        Rb = np.abs(c) * np.abs(b) / dx
        rowtol = K * eps * (RM + 2 * Rb) + 1e-300
        if not (np.all(np.isfinite(got)) and np.all(np.isfinite(off))):
            raise Violation('C13|matrix|' + sig_tail,
                            'non-finite entries (axis {})'.format(axis))
        bad = np.abs(got - ref_M) > rowtol[:, None]
        if np.any(bad):
            i, j = (int(v) for v in np.argwhere(bad)[0])
            raise Violation(
                'C13|matrix|' + sig_tail,
                'finite_diff axis {}: entry ({}, {}) got {!r} ref {!r}; got '
                'row {} ref row {}'.format(
                    axis, i, j, complex(got[i, j]), float(ref_M[i, j]),
                    np.round(np.real(got[i]), 6).tolist()[:12],
                    np.round(ref_M[i], 6).tolist()[:12]))
        bad = np.abs(off - ref_off) > rowtol
        if np.any(bad):
            i = int(np.argwhere(bad)[0][0])
            raise Violation('C13|matrix|' + sig_tail,
                            'finite_diff axis {}: offset entry {} got {!r} '
                            'ref {!r}'.format(axis, i, complex(off[i]),
                                              complex(ref_off[i])))
        # generic (complex) data
        x = _layout(_data(shape, dt, desc['seed'], axis), in_kind)
        xin = x.copy()
        y = call(x, axis, raw=True)
        if not np.array_equal(x, xin):
            raise Violation('C13|input-modified|' + sig_tail,
                            'finite_diff changed its input')
        ref = S.finite_diff(x, axis, dx, method, mode, c)
        mag = (np.abs(M) @ np.abs(x).ravel().astype(float)).reshape(shape) \
            / dx + Rb.reshape(shape)
        bad = np.abs(y - ref) > K * eps * mag + 1e-300
        if np.any(bad):
            idx = tuple(int(v) for v in np.argwhere(bad)[0])
            raise Violation('C13|data|' + sig_tail,
                            'entry {} got {!r} ref {!r}'.format(
                                idx, y[idx], complex(ref[idx])))
        evaluated += 1
    return evaluated


# --------------------------------------------------------------------------
# operators

def _opmatrix(op, sig):
    """Real-ified matrix and offset ``op(0)`` of an affine operator (like
    ``flat.opmatrix``; additionally validates range membership and turns a
    rejection of an admissible input into a violation)."""
    dom, ran = op.domain, op.range
    n, m = flat.rdim(dom), flat.rdim(ran)
    try:
        y0 = op(flat.unflat(np.zeros(n), dom))
        if y0 not in ran:
            raise Violation(sig.replace('|matrix|', '|space|'),
                            'result not in range')
        off = flat.flat(y0, ran)
        M = np.empty((m, n))
        e = np.zeros(n)
        for k in np.arange(n):
            e[k] = 1.0
            M[:, k] = flat.flat(op(flat.unflat(e, dom)), ran) - off
            e[k] = 0.0
    except (ValueError, IndexError) as e:
        raise Violation(sig, 'evaluation raised {}: {}'.format(
            type(e).__name__, e))
    return M, off


def _check_operator(name, op, ref, desc, region, K, eps, cplx, notes,
                    cache):
    """``ref = (M, b, RM, Rb)`` for the given pad constant (b, Rb already
    scaled by it)."""
    mode, c = desc['mode'], desc['pad_const']
    M, b, RM, Rb = ref
    sig_tail = '{}|{}'.format(name, region)
    affine = (mode == 'constant' and c != 0)

    # (1) matrix and offset
    got_M, got_off = _opmatrix(op, 'C13|matrix|' + sig_tail)
    ref_M, ref_off = _realify(M, b, cplx, cplx)
    rowtol = _rowtol(K, eps, RM, Rb, cplx)
    _compare_matrix('C13|matrix|' + sig_tail, got_M, got_off, ref_M, ref_off,
                    rowtol, name)

    # (4) linearity flag
    if bool(op.is_linear) != (not affine):
        raise Violation(
            'C13|is-linear|{}|{}'.format(
                name, 'constant,c!=0' if affine else mode + ',linear'),
            'is_linear is {} for pad_mode={!r}, pad_const={!r} (op(0) has '
            'max-abs {:.3g})'.format(op.is_linear, mode, c,
                                     float(np.abs(got_off).max(initial=0))))

    # generic data, optional in-place call
    x = flat.unflat(_flat_data(op.domain, desc['seed']), op.domain)
    xin = flat.flat(x, op.domain).copy()
    if desc['op_out']:
        out = op.range.element()
        for arr in build.leaf_arrays_of(out):
            arr[...] = np.nan
        y = op(x, out=out)
        if y is not out:
            raise Violation('C13|out-identity|' + sig_tail,
                            'op(x, out=out) did not return out')
    else:
        y = op(x)
    if y not in op.range:
        raise Violation('C13|space|' + sig_tail, 'result not in range')
    if not np.array_equal(flat.flat(x, op.domain), xin):
        raise Violation('C13|input-modified|' + sig_tail, 'x was modified')
    yv = flat.flat(y, op.range)
    ld = np.longdouble
    refy = ref_M.astype(ld) @ xin.astype(ld) + ref_off.astype(ld)
    mag = _rowtol(1, 1.0, np.asarray(RM) * np.abs(xin).max(initial=0), Rb,
                  cplx)
    bad = ~(np.abs(yv - refy) <= K * eps * mag + 1e-300)
    if np.any(bad):
        i = int(np.argwhere(bad)[0][0])
        raise Violation('C13|data|' + sig_tail + (',out' if desc['op_out']
                                                  else ''),
                        'entry {} got {!r} ref {!r} (tol {:.3g})'.format(
                            i, float(yv[i]), float(refy[i]),
                            float(K * eps * mag[i])))

    # (4) derivative
    point = x
    deriv = op.derivative(point)
    # ``point`` is optional ("does not change the result"): the derivative
    # taken without a point is the same map
    d0 = op.derivative()
    if d0 is not deriv:
        if d0.domain != op.domain or d0.range != op.range:
            raise Violation('C13|derivative|' + sig_tail,
                            'derivative() has other domain/range')
        if not np.array_equal(flat.flat(d0(x), op.range),
                              flat.flat(deriv(x), op.range)):
            raise Violation('C13|derivative|' + sig_tail,
                            'derivative() and derivative(point) differ')
    if affine:
        if not deriv.is_linear:
            raise Violation('C13|derivative|' + sig_tail,
                            'derivative of the affine variant is not linear')
        if deriv.domain != op.domain or deriv.range != op.range:
            raise Violation('C13|derivative|' + sig_tail,
                            'derivative has other domain/range')
        dM, doff = _opmatrix(deriv, 'C13|derivative|' + sig_tail)
        _compare_matrix('C13|derivative|' + sig_tail, dM, doff, ref_M,
                        0 * ref_off, _rowtol(K, eps, RM, 0 * Rb, cplx),
                        name + '.derivative')
        notes['derivative_affine_checked'] += 1
        if desc['nob'] is not False:
            notes['adjoint_skipped_boundary_nodes'] += 1
            return 'affine'
        # (2)/(3) "the operator returned as adjoint is exactly the transpose
        # of the operator's matrix": an affine variant either offers no
        # adjoint (documented: "not linear and has no adjoint") or returns
        # the linear map M^T - never an affine map and never itself
        try:
            adj = op.adjoint
        except (ValueError, NotImplementedError):
            # (OpNotImplementedError is a NotImplementedError)
            notes['affine_adjoint_refused'] += 1
        else:
            _check_adjoint(name, op, deriv, adj, got_M, ref_M, RM, Rb, desc,
                           'C13|adjoint|{}|affine,{}'.format(name, region),
                           sig_tail, K, eps, cplx, notes, cache)
            notes['affine_adjoint_returned_checked'] += 1
        # the adjoint of the derivative (a linear operator in its own right,
        # reached through this call sequence) is the same transpose
        _check_adjoint(name + '.derivative', deriv, deriv, deriv.adjoint,
                       dM, ref_M, RM, Rb, desc,
                       'C13|adjoint|{}.derivative|{}'.format(name, region),
                       '{}.derivative|{}'.format(name, region), K, eps, cplx,
                       notes, cache)
        return 'affine'
    if deriv is not op:
        dM, doff = _opmatrix(deriv, 'C13|derivative|' + sig_tail)
        _compare_matrix('C13|derivative|' + sig_tail, dM, doff, ref_M,
                        ref_off, rowtol, name + '.derivative')

    # (2)/(3) adjoint
    if desc['nob'] is not False:
        notes['adjoint_skipped_boundary_nodes'] += 1
        return 'linear-noadj'
    _check_adjoint(name, op, op, op.adjoint, got_M, ref_M, RM, Rb, desc,
                   'C13|adjoint|' + sig_tail, sig_tail, K, eps, cplx, notes,
                   cache)
    return 'linear'


def _check_adjoint(name, op, lin, adj, got_M, ref_M, RM, Rb, desc, asig,
                   sig_tail, K, eps, cplx, notes, cache):
    """``adj`` (returned as adjoint of ``op``) must map range -> domain, be
    linear, have the matrix ``ref_M^T`` and zero offset, and satisfy the Gram
    identity with the linear part ``lin`` of ``op`` (matrix ``got_M``)."""
    mode = desc['mode']
    if adj.domain != op.range or adj.range != op.domain:
        raise Violation('C13|adjoint-spaces|' + sig_tail,
                        'adjoint maps {!r} -> {!r}'.format(adj.domain,
                                                           adj.range))
    if not adj.is_linear:
        raise Violation('C13|is-linear|{}.adjoint|{}'.format(
            name, mode if lin is op else mode + ',c!=0'),
            'the operator returned as adjoint is not flagged linear'
            + (' (it is the operator itself)' if adj is op else ''))
    N, noff = _opmatrix(adj, asig)
    coltol = K * eps * np.abs(ref_M).sum(axis=0) + 1e-300
    if name.startswith('Laplacian'):
        # cancellation-free magnitude (the matrix is symmetric)
        coltol = _rowtol(K, eps, RM, 0 * np.asarray(Rb), cplx)
    _compare_matrix(asig, N, noff, ref_M.T, np.zeros(ref_M.shape[1]),
                    coltol, name + '.adjoint vs transpose')
    # adjoint identity in the library's own inner products: full Gram
    # matrices for small spaces, two generic pairs otherwise
    if ref_M.shape[0] + ref_M.shape[1] <= 24:
        GX, GY = _gram(op.domain, cache), _gram(op.range, cache)
        lhs, rhs = N.T @ GX, GY @ got_M
        scale = max(np.abs(lhs).max(initial=0), np.abs(rhs).max(initial=0),
                    1e-300)
        defect = np.abs(lhs - rhs).max(initial=0) / scale
        if not defect <= 64 * eps:
            raise Violation('C13|gram|' + sig_tail,
                            'Gram identity defect {:.3g}'.format(defect))
        notes['gram_checked'] += 1
    else:
        rng = np.random.RandomState((int(desc['seed']) + 5) % (2 ** 32))
        for _ in np.arange(2):
            u = flat.unflat(rng.uniform(-1, 1, ref_M.shape[1]), op.domain)
            v = flat.unflat(rng.uniform(-1, 1, ref_M.shape[0]), op.range)
            a = flat.sinner(op.range, lin(u), v)
            b = flat.sinner(op.domain, u, adj(v))
            scale = float(op.range.norm(lin(u)) * op.range.norm(v)) + 1e-300
            if not abs(a - b) <= 64 * eps * np.sqrt(ref_M.shape[0]) * scale:
                raise Violation('C13|gram|' + sig_tail,
                                '<Au,v> = {!r} but <u,A*v> = {!r}'.format(
                                    a, b))
        notes['inner_pairs_checked'] += 1
    notes['adjoint_checked'] += 1


def _gram(space, cache):
    if space not in cache:
        cache[space] = flat.gram(space)
    return cache[space]


def _flat_data(space, seed):
    n = flat.rdim(space)
    rng = np.random.RandomState((int(seed) * 104729 + 17) % (2 ** 32))
    return rng.uniform(-1, 1, size=n) * rng.choice([1.0, 30.0])


def _construct(name, style, space, ran, pdom, pran, axis, method, mode, c,
               notes):
    """Build one operator in the given construction style.

    explicit    every argument by keyword
    positional  every argument by position, in the documented order
    minimal     every argument that equals its documented default is left
                out (range=None, method='forward', pad_mode='constant',
                pad_const=0)
    from-range  like minimal, but Gradient / Divergence get only ``range=``
                and derive their domain from it
    """
    cls = {'PartialDerivative': PartialDerivative, 'Gradient': Gradient,
           'Divergence': Divergence, 'Laplacian': Laplacian}[name]
    has_method = name != 'Laplacian'
    dom, rng = ((pdom, ran) if name == 'Divergence' else
                (space, pran) if name == 'Gradient' else (space, ran))
    if style == 'positional':
        args = [dom] + ([axis] if name == 'PartialDerivative' else []) + \
            [rng] + ([method] if has_method else []) + [mode, c]
        return cls(*args)
    kwargs = {'pad_mode': mode, 'pad_const': c}
    if has_method:
        kwargs['method'] = method
    if name == 'PartialDerivative':
        kwargs['axis'] = axis
    if style == 'explicit':
        return cls(domain=dom, range=rng, **kwargs)
    if style not in ('minimal', 'from-range'):
        raise HarnessError(style)
    for key, default in (('method', 'forward'), ('pad_mode', 'constant'),
                         ('pad_const', 0)):
        if key in kwargs and kwargs[key] == default:
            del kwargs[key]
            notes['op_default_omitted:' + key] += 1
    notes['op_space_derived'] += 1
    if style == 'from-range' and name in ('Gradient', 'Divergence'):
        return cls(range=rng, **kwargs)
    return cls(dom, **kwargs)


REFUSALS = (ValueError, TypeError, IndexError, KeyError, NotImplementedError)


def _probe_refusals(kind, desc, space, shape, dt, dxs, notes):
    """One argument outside the documented set: the call must not return a
    result (the documentation lists the admissible values; a silently
    accepted one yields an array that is no finite difference at all)."""
    nd = len(shape)
    if min(shape) < 2:
        return
    method, mode, c = desc['method'], desc['mode'], desc['pad_const']
    pick = int(desc['seed'])
    zero = np.zeros(shape, dtype=dt)
    good = dict(axis=pick % nd, dx=dxs[pick % nd], method=method,
                pad_mode=mode, pad_const=c)
    pspace = odl.ProductSpace(space, nd)
    calls = []
    if kind == 'method':
        # the set is {'forward', 'backward', 'central'}
        badm = ['upwind', 'centre', '', 'forward_adjoint'][pick % 4]
        calls = [('finite_diff', lambda: finite_diff(zero, **dict(
                      good, method=badm))),
                 ('PartialDerivative', lambda: PartialDerivative(
                     space, 0, method=badm, pad_mode=mode)),
                 ('Gradient', lambda: Gradient(space, method=badm,
                                               pad_mode=mode)),
                 ('Divergence', lambda: Divergence(range=space, method=badm,
                                                   pad_mode=mode))]
    elif kind == 'pad_mode':
        badp = ['reflect', 'edge', 'constant_adjoint', 'order3'][pick % 4]
        calls = [('finite_diff', lambda: finite_diff(zero, **dict(
                      good, pad_mode=badp))),
                 ('PartialDerivative', lambda: PartialDerivative(
                     space, 0, method=method, pad_mode=badp)),
                 ('Gradient', lambda: Gradient(space, method=method,
                                               pad_mode=badp)),
                 ('Divergence', lambda: Divergence(range=space, method=method,
                                                   pad_mode=badp)),
                 ('Laplacian', lambda: Laplacian(space, pad_mode=badp))]
    elif kind == 'dx':
        # "distance between sampling points"
        badx = [0.0, -good['dx'], float('nan'), -0.0][pick % 4]
        calls = [('finite_diff', lambda: finite_diff(zero, **dict(
                      good, dx=badx)))]
    elif kind == 'out-shape':
        # "has to have the same shape as the input array"
        oshape = list(shape)
        oshape[(pick // 2) % nd] += 1 if pick % 2 else -1
        out = np.zeros(oshape, dtype=dt)
        calls = [('finite_diff', lambda: finite_diff(zero, out=out, **good))]
    elif kind == 'axis':
        bada = nd if pick % 2 else -nd - 1
        calls = [('finite_diff', lambda: finite_diff(zero, **dict(
                      good, axis=bada)))]
    elif kind == 'spaces':
        # "either domain or range must be specified", range / domain a power
        # space of length ndim of a discretized space
        wrong = odl.ProductSpace(space, nd + 1)
        calls = [('Gradient', lambda: Gradient()),
                 ('Divergence', lambda: Divergence()),
                 ('Gradient', lambda: Gradient(space, range=wrong)),
                 ('Divergence', lambda: Divergence(domain=wrong,
                                                   range=space)),
                 ('Gradient', lambda: Gradient(space, range=space)),
                 ('Divergence', lambda: Divergence(domain=space)),
                 ('PartialDerivative', lambda: PartialDerivative(pspace, 0)),
                 ('Laplacian', lambda: Laplacian(pspace))]
    else:
        raise HarnessError(kind)
    for site, fn in calls:
        try:
            fn()
        except REFUSALS:
            notes['refusal_checked'] += 1
            continue
        raise Violation('C13|refusal|{}|{}'.format(site, kind),
                        'an argument outside the documented set was '
                        'accepted ({})'.format(kind))


def _probe_array_like(desc, shape, dt, dxs, K, notes):
    """``f : array-like``: a nested list of Python numbers is differentiated
    like the array it denotes."""
    method, mode, c = desc['method'], desc['mode'], desc['pad_const']
    for axis in range(len(shape)):
        n = shape[axis]
        if n < S.min_size(mode):
            continue
        x = _data(shape, dt, desc['seed'], 31 + axis)
        lst = x.tolist()
        arr = np.asarray(lst)
        sig = 'C13|array-like|finite_diff|list'
        try:
            y = finite_diff(lst, axis=axis, dx=dxs[axis], method=method,
                            pad_mode=mode, pad_const=c)
        except (AttributeError, TypeError) as e:
            raise Violation(sig, 'finite_diff(<nested list>) raised {}: {}'
                            ''.format(type(e).__name__, e))
        if not isinstance(y, np.ndarray) or y.shape != tuple(shape) or \
                y.dtype != arr.dtype:
            raise Violation(sig, 'returned {!r}'.format(
                (type(y).__name__, getattr(y, 'shape', None),
                 getattr(y, 'dtype', None))))
        M, b = S.partial_matrix(tuple(shape), axis, method, mode)
        ref = S.finite_diff(arr, axis, dxs[axis], method, mode, c)
        mag = ((np.abs(M) @ np.abs(arr).ravel().astype(float))
               + np.abs(c) * np.abs(b)).reshape(shape) / dxs[axis]
        bad = np.abs(y - ref) > K * _eps(arr.dtype) * mag + 1e-300
        if np.any(bad):
            idx = tuple(int(v) for v in np.argwhere(bad)[0])
            raise Violation(sig, 'entry {} got {!r} ref {!r}'.format(
                idx, y[idx], complex(ref[idx])))
        notes['array_like_checked'] += 1


# --------------------------------------------------------------------------
# the case

def run_case(desc):
    import collections
    shape = [int(s) for s in desc['shape']]
    nd = len(shape)
    dtype = desc['dtype']
    dt = np.dtype(dtype)
    cplx = dt.kind == 'c'
    eps = _eps(dt)
    method, mode, c = desc['method'], desc['mode'], desc['pad_const']
    if isinstance(c, complex) and not cplx:
        raise HarnessError('complex pad_const on a real space')
    nob = desc['nob']
    K = K_BASE + 2 * nd
    notes = collections.Counter()
    cache = {}

    # grid: ncells = n - (#boundary nodes)/2
    mins, maxs, dxs = [], [], []
    for i, n in enumerate(shape):
        if nob is False:
            frac = 0.0
        elif nob is True:
            frac = 1.0
        else:
            frac = 0.5 * (bool(nob[i][0]) + bool(nob[i][1]))
        ncell = n - frac
        if ncell <= 0:
            raise HarnessError('degenerate grid')
        lo = float(desc['min'][i])
        hi = lo + float(desc['cell'][i]) * ncell
        mins.append(lo)
        maxs.append(hi)
        dxs.append((hi - lo) / ncell)
    sd = {'kind': 'discr', 'min': mins, 'max': maxs, 'shape': shape,
          'dtype': dtype, 'nodes_on_bdry': nob}
    space = build.build_space(sd)
    if desc['range'] == 'astype':
        # the only other range the operators admit: same grid, other
        # precision ("up to dtype")
        other = {'float64': 'float32', 'float32': 'float64',
                 'complex128': 'complex64', 'complex64': 'complex128'}[dtype]
        ran = build.build_space(dict(sd, dtype=other))
        eps = max(eps, _eps(other))
    else:
        ran = space
    range_kind = desc['range']
    # "the cell side" of the property is the one the space reports (the grid
    # is an input here; its accuracy belongs to C14): the stride of the grid
    # coordinates carries an absolute error of a few ulp of the coordinates
    feps = np.finfo(float).eps
    for a in range(nd):
        lib = float(space.cell_sides[a])
        slack = 8 * feps * (abs(mins[a]) + abs(maxs[a])) + 4 * feps * dxs[a]
        if not abs(lib - dxs[a]) <= slack:
            raise HarnessError('cell side mismatch {!r} vs {!r}'.format(
                lib, dxs[a]))
        dxs[a] = lib

    nmin = min(shape)
    short_axes = [a for a in range(nd) if shape[a] < S.min_size(mode)]
    # (2 if some too-short axis has two entries: order2_adjoint, see
    # ASSUMPTIONS; the first offending axis decides which error is raised)
    nshort = max([shape[a] for a in short_axes], default=0)
    region = '{},{},n={}'.format(method, mode, _sizeclass(nmin))
    affine = mode == 'constant' and c != 0
    cc = complex(c) if cplx else float(np.real(c))

    # ---- finite_diff on every axis ---------------------------------------
    n_eval = _check_finite_diff(desc, shape, dt, dxs, region, K, notes)

    # ---- operators ---------------------------------------------------------
    ctor = desc.get('ctor', 'explicit')
    if ctor in ('minimal', 'from-range') and ran is not space:
        raise HarnessError('derived spaces need range == domain')
    pdom = odl.ProductSpace(space, nd)
    pran = odl.ProductSpace(ran, nd)

    def make(name, axis=None):
        op = _construct(name, ctor, space, ran, pdom, pran, axis, method,
                        mode, c, notes)
        # documented: a missing range/domain is the one on the same grid
        # (``range == domain``, ``ProductSpace(domain, ndim)``, ``range[0]``)
        dom_exp = pdom if name == 'Divergence' else space
        ran_exp = pran if name == 'Gradient' else ran
        if op.domain != dom_exp or op.range != ran_exp:
            raise Violation('C13|ctor-spaces|{}|{}'.format(name, ctor),
                            'constructed {!r} -> {!r}, expected {!r} -> {!r}'
                            ''.format(op.domain, op.range, dom_exp, ran_exp))
        return op

    kinds = []
    for axis in range(nd):
        n = shape[axis]
        preg = '{},{},n={}'.format(method, mode, _sizeclass(n))
        op = make('PartialDerivative', axis)
        if axis in short_axes:
            _expect_rejected(op, 'PartialDerivative', preg, mode, n, notes)
            continue
        M, b = S.partial_matrix(tuple(shape), axis, method, mode)
        ref = (M / dxs[axis], cc * b / dxs[axis],
               np.abs(M).sum(axis=1) / dxs[axis],
               abs(cc) * np.abs(b) / dxs[axis])
        kinds.append(_check_operator('PartialDerivative', op, ref, desc,
                                     preg, K, eps, cplx, notes, cache))

    grad = make('Gradient')
    div = make('Divergence')
    if short_axes:
        _expect_rejected(grad, 'Gradient', region, mode, nshort, notes)
        _expect_rejected(div, 'Divergence', region, mode, nshort, notes)
    else:
        M, b = S.gradient_matrix(shape, dxs, method, mode)
        ref = (M, cc * b, np.abs(M).sum(axis=1), abs(cc) * np.abs(b))
        kinds.append(_check_operator('Gradient', grad, ref, desc, region, K,
                                     eps, cplx, notes, cache))
        M, b = S.divergence_matrix(shape, dxs, method, mode)
        Rb = sum(np.abs(S.partial_matrix(tuple(shape), a, method, mode)[1])
                 / dxs[a] for a in range(nd))
        ref = (M, cc * b, np.abs(M).sum(axis=1), abs(cc) * Rb)
        kinds.append(_check_operator('Divergence', div, ref, desc, region, K,
                                     eps, cplx, notes, cache))

    # Laplacian (independent of method)
    lreg = '{},n={}'.format(mode, _sizeclass(nmin))
    if mode not in S.LAPLACIAN_MODES:
        try:
            make('Laplacian')
        except ValueError:
            notes['laplacian_mode_rejected'] += 1
        else:
            raise Violation('C13|laplacian-mode|Laplacian|' + mode,
                            'mode documented as not implemented was '
                            'accepted')
    else:
        lap = make('Laplacian')
        if short_axes:
            _expect_rejected(lap, 'Laplacian', lreg, mode, nshort, notes)
        else:
            M, b = S.laplacian_matrix(shape, dxs, mode)
            RM, Rb = 0.0, 0.0
            for a in range(nd):
                Mf, bf = S.partial_matrix(tuple(shape), a, 'forward', mode)
                Mb, bb = S.partial_matrix(tuple(shape), a, 'backward', mode)
                RM = RM + (np.abs(Mf) + np.abs(Mb)).sum(axis=1) / dxs[a] ** 2
                Rb = Rb + (np.abs(bf) + np.abs(bb)) / dxs[a] ** 2
            ref = (M, cc * b, RM, abs(cc) * Rb)
            kinds.append(_check_operator('Laplacian', lap, ref, desc, lreg,
                                         K, eps, cplx, notes, cache))

    # ---- inadmissible arguments are refused -----------------------------------
    bad = desc.get('bad')
    if bad is not None:
        _probe_refusals(bad, desc, space, shape, dt, dxs, notes)

    # ---- array-like input (last: region of a known finding) ------------------
    if desc.get('fd_in', 'C') == 'list':
        _probe_array_like(desc, shape, dt, dxs, K, notes)

    # ---- outcome ------------------------------------------------------------
    strata = ['mode:' + mode, 'method:' + method, 'ndim:{}'.format(nd),
              'dtype:' + dtype, 'nmin:' + _sizeclass(nmin),
              'cfg:{}|{}|n={}'.format(method, mode, _sizeclass(nmin)),
              'pad_const:' + ('zero' if c == 0 else
                              ('complex' if isinstance(c, complex)
                               else 'nonzero')),
              'cell:' + ('unit' if all(v == 1.0 for v in desc['cell'])
                         else 'nonunit'),
              'nob:' + ('no' if nob is False else 'yes'),
              'range:' + range_kind, 'fd_out:' + desc['fd_out'],
              'op_out:' + str(bool(desc['op_out'])),
              'ctor:' + ctor, 'fd_call:' + desc.get('fd_call', 'kw'),
              'fd_in:' + desc.get('fd_in', 'C'),
              'refusal:' + str(bad if notes['refusal_checked'] else None)]
    if notes['affine_adjoint_refused']:
        strata.append('affine-adjoint:refused')
    if notes['affine_adjoint_returned_checked']:
        strata.append('affine-adjoint:returned')
    for key in ('dx', 'method', 'pad_mode', 'pad_const'):
        if notes['fd_default_omitted:' + key]:
            strata.append('fd-default-omitted:' + key)
        if notes['op_default_omitted:' + key]:
            strata.append('op-default-omitted:' + key)
    if nd >= 2 and len(set(dxs)) > 1:
        rel = max(abs(dxs[a] - dxs[0]) for a in range(nd)) / max(dxs)
        if rel < 1e-5:
            strata.append('cells:nearly-equal')
        if max(dxs) < 1e-8:
            strata.append('cells:tiny-unequal')
    if affine:
        strata.append('affine')
    if short_axes:
        strata.append('short-axis-rejected')
    if n_eval == 0 and not kinds:
        return Outcome('rejected', strata=strata, notes=dict(notes))
    small = any(shape[a] <= 4 for a in range(nd) if a not in short_axes)
    nontriv = small or mode in S.ADJOINT_MODES or nd >= 2
    return Outcome('ok', strata=strata, nontrivial=nontriv,
                   notes=dict(notes))


def _expect_rejected(op, name, region, mode, n, notes):
    """Axis below the documented minimum: evaluation must raise."""
    allowed = (ValueError,)
    if mode == 'order2_adjoint' and n == 2:
        # some axis of size 2 (see ASSUMPTIONS)
        allowed = (ValueError, IndexError)
    try:
        op(op.domain.zero())
    except allowed:
        notes['rejected_short_axis'] += 1
        return
    raise Violation('C13|min-size|{}|{}'.format(name, region),
                    'axis of size {} accepted for mode {}'.format(n, mode))


REQUIRED_STRATA = (['mode:' + m for m in S.ALL_MODES] +
                   ['method:' + m for m in S.METHODS] +
                   ['ndim:1', 'ndim:2', 'ndim:3', 'nmin:2', 'nmin:3',
                    'nmin:4', 'nmin:5+', 'affine', 'short-axis-rejected',
                    'nob:yes', 'range:astype', 'op_out:True', 'fd_out:F',
                    'dtype:complex64', 'pad_const:complex',
                    'affine-adjoint:refused', 'affine-adjoint:returned',
                    'ctor:minimal', 'ctor:from-range', 'ctor:positional',
                    'fd_call:minimal', 'fd_call:negaxis',
                    'fd_call:positional', 'fd_in:F', 'fd_in:strided',
                    'fd_in:readonly', 'cells:nearly-equal',
                    'cells:tiny-unequal'] +
                   ['refusal:' + k for k in BAD_KINDS] +
                   ['fd-default-omitted:' + k
                    for k in ('dx', 'method', 'pad_mode', 'pad_const')] +
                   ['op-default-omitted:' + k
                    for k in ('method', 'pad_mode', 'pad_const')])
