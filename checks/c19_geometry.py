"""C19 - acquisition geometries are rigid-motion consistent for all parameters.

Five kinds of generated cases:

``geom``     one geometry (Parallel2d / Parallel3dAxis / Parallel3dEuler /
             FanBeam / ConeBeam; constructor or ``frommatrix``; generic axes,
             initial vectors, translation, curved detectors, helical pitch,
             shift functions) evaluated for one parameter pattern (scalar,
             1-D, pairs, outer, mesh, mixed, rank-mixed, non-broadcastable)
             and optionally sliced;
``detector`` one detector built directly (Flat1d/Flat2d/Circular/Cylindrical/
             Spherical) with generic axes;
``factory``  parallel_beam_geometry / cone_beam_geometry / helical_geometry
             over a generated reconstruction space;
``astra-vec`` the pure-NumPy geometry -> ASTRA vector conversions of
             ``astra_setup.py`` (cone_vec, fanflat_vec, parallel3d_vec) for
             generated flat-detector Fan / Cone / Parallel3dAxis / Euler
             geometries with off-centre detector partitions.
``util``     the documented rotation helpers of ``odl.tomo.util.utility``
             called directly (euler_matrix with 1-3 angles / ``None`` /
             broadcast shapes, axis_rotation_matrix, axis_rotation with
             ``axis_shift``, rotation_matrix_from_to, perpendicular_vector).

Oracle: the NumPy reference model ``vlib/ref/geomref.py`` +
``vlib/ref/rotations.py`` (written from the docstrings, evaluated one
parameter at a time), the relations of the property statement between the
ODL methods themselves, the stack of single-parameter ODL evaluations for
every vectorised call, and corner projection for the factories.

Known findings (``known_findings.d/C19.json``): only three are unrepaired
and have an excluded input region - F31 / K1 (coverage of
``cone_beam_geometry``: every volume) and K5 (curved 3-D detector whose
second alignment step is a half turn, predicate `_halfturn`).  Cases with
``probe: false`` skip exactly the clause known to fail there and count it in
the evidence (``excluded:<id>``); cases with ``probe: true`` (1 in 5,
factories 1 in 2, and every regression replay) evaluate it.  K2, K3, K4,
K6, K7, K8, K9 are repaired in /repo: their clauses run on every case.
Independent clause blocks of one case are all evaluated
(`_Collector`); if several fail, a violation that matches no known finding
is reported in preference, so a known finding never masks a new one.

Deviations from DESIGN.md section 5 (C19):
* budgets 16 000 / 160 000 instead of 1 500 / 50 000 (a case costs ~20 ms;
  the quick tier would otherwise finish in 2 s);
* orthonormality / determinant tolerance 64*eps*(1+|angle|) instead of the
  flat 1e-12 (derived, tighter);
* rank-mixed parameters (scalar angle with an n-D detector array) ARE
  generated: the docstring promises ``broadcast(mparam, dparam).shape``;
  the library raised there (finding K2, repaired in /repo);
* the factory coverage uses ALL generated angles, not ">= 12";
* additional clauses: constructors must not modify the arrays they are
  given, slicing twice / slicing must not change the parent or earlier
  slices (root cause of the incomplete F20 repair; findings K7 / K8, both
  repaired in /repo, the clauses run on every case);
* curved 3-D detectors are only generated with exactly perpendicular
  integer axes (the library compares the dot product with 0.0 exactly).
* call-history clause (every geom / detector case): the property quantifies
  over parameter VALUES, so a result must not depend on earlier calls, on
  the identity of the argument objects or on what the caller did with
  earlier results.  All evaluation methods are called three times through
  ONE set of argument objects (contiguous buffers incl. 0-d arrays / strided
  views of larger arrays / read-only arrays and NumPy scalars / nested
  lists with integer-valued entries as Python ints): first values; the same
  objects overwritten in place with other values and the methods in a
  permuted order (values must be those of the
  reference model for the NEW contents, arguments must come back
  unmodified, arrays returned earlier must not change); again after the
  caller has overwritten the arrays the geometry-level methods returned.
* ``geom.angles`` is passed directly to the evaluation methods (documented:
  "can be used directly as input to any of the other methods"), derived
  parameter sets (``partition``, ``params``, ``grid``, ``det_grid`` ...) and
  ``det_curvature_radius`` are compared with the constructor arguments,
  out-of-bounds rejection is also demanded for ONE offending entry inside an
  array, and the rotation helpers are called directly (kind ``util``).
"""
import os
import traceback

import numpy as np
from hypothesis import strategies as st

from vlib.core import Violation, Outcome, HarnessError, import_odl, odl_root
from vlib.ref import rotations as rr
from vlib.ref import geomref

odl = import_odl()
import odl.tomo  # noqa: E402
from odl.tomo.geometry import detector as odl_det  # noqa: E402

PROPERTY = 'C19'
TECHNIQUE = ('Hypothesis property-based testing: generated geometry / '
             'detector / factory / rotation-helper descriptors against an '
             'independent NumPy reference model (Rodrigues, ZXZ Euler, '
             'documented detector surfaces and trajectories), metamorphic '
             'relations between the geometry methods, vectorised-vs-single '
             'differential, call-history independence (argument objects '
             'refilled in place, permuted call order, results overwritten by '
             'the caller), corner projection for the factories; descriptor '
             'replay')
LEVEL_TEXT = ('Generated-input search over class x constructor/frommatrix x '
              'initial-vector regime (default, dilated, antiparallel, '
              'axis-aligned, generic) x detector kind (flat, circular, '
              'cylindrical, spherical) x helical/shift options x parameter '
              'shape pattern x check_bounds x slicing x argument container '
              '(buffer / strided view / read-only / list) x call order; '
              'every value returned by ODL is compared with a reference '
              'that never imports odl, every vectorised call with the stack '
              'of single calls, and every method again after its argument '
              'objects were overwritten in place. Exploration, not proof.')
LEVEL_NOTE = ('Trusted: NumPy, Hypothesis, vlib/ref/rotations.py and '
              'vlib/ref/geomref.py (formulas quoted from the docstrings), '
              'odl partitions (property C14) for the angle grid. The ASTRA '
              'toolbox itself is absent: of astra_setup.py only the pure-NumPy '
              'geometry -> vector conversions (astra_*_geom_to_vec) are '
              'decided, not astra_projection_geometry / data / projector.')
DESIGN_REF = 'DESIGN.md section 5, C19'
BUDGET = {'quick': 16000, 'thorough': 160000}
EPS = float(np.finfo(float).eps)
K_TOL = 64
TOLERANCES = {
    'rotation': 'orthonormality, det-1, vs reference, group law: '
                '64*eps*(1+|angle|) entry-wise',
    'init_amplification': 'all bounds below are multiplied by 12 (constructor)'
                          ' / 4 (frommatrix): the documented default-vector '
                          'rotation takes arccos of a dot product, vectors '
                          'keep >= 0.1 rad from the degenerate directions '
                          '(1/sin(0.1) ~ 10)',
    'positions': '|got-ref| <= 64*eps*(1+|angle|max)*S entry-wise, S = 1 + '
                 '|translation| + |det_pos| + radii + |offset| + '
                 '|pitch*angle/2pi| + |shifts| + |detector surface point|',
    'directions': 'unit vectors: 64*eps*(1+|angle|)*S/|src-detpoint|; '
                  'skipped when |src-detpoint| < 1e-6*S',
    'vectorised_vs_single': 'same bound as positions (different summation '
                            'order: einsum vs dot)',
    'finite_differences': 'central difference, h = 1e-5*extent: '
                          '10*(h^2*r/6 + eps*S/h) + 64*eps*S',
    'slicing': 'angles exact; values 64*eps*S',
    'history': 'values after the in-place refill vs the reference model: the '
               'bounds of positions / directions above (rotation_matrix '
               '64*eps*(1+|angle|max), surface_normal 64*eps*amp, '
               'surface_measure positions*(1+radius)); at most 12 entries '
               'per call are compared (first, last, evenly spaced); argument '
               'objects and earlier results are compared bit for bit',
    'util': 'rotation helpers 64*eps*(1+|angle|) (x coordinate scale for '
            'axis_rotation); rotation_matrix_from_to 12*64*eps (vectors keep '
            '>= 0.1 rad from collinear); perpendicular_vector '
            '|dot| <= 8*eps*|v||w|',
    'factory_coverage': 'corner parameter inside det_params up to '
                        '1e-9*(extent+1); sampling inequalities up to a '
                        'relative 1e-9',
}
ASSUMPTIONS = [
    'initial vectors are either exact multiples of the documented default '
    'or at least 0.1 rad away from it (the library switches on '
    'allclose/1e-10 thresholds that no caller relies on)',
    'src_to_det_init keeps >= 0.2 rad from the rotation axis; detector axes '
    'keep >= 0.3 rad from each other',
    'curved 3-D detectors get exactly perpendicular (integer) axes: the '
    'library rejects axes whose dot product is not exactly 0.0 (counted as '
    'rejected, not flagged)',
    'shift functions follow the documented contract (one row per angle) and '
    'are evaluated with scalar and 1-D angles only',
    'negative slicing steps are not generated (partitions must be ascending)',
    'of astra_setup.py only the astra_*_geom_to_vec conversions run (no ASTRA)',
    'history clause: the caller overwrites only arrays returned by '
    'geometry-level methods (rotation_matrix, det_refpoint, det_axes, '
    'src_position, det_point_position, det_to_src); the flat detectors '
    'document surface_deriv as "evaluating to `axis`" and hand out the stored '
    'vector for a single parameter, which is not flagged',
    'second parameter fill of the history clause = first fill shifted by '
    '0.382 of each parameter interval (mod 1), same shapes',
]
RULE = ('Hypothesis draws a case descriptor (kind geom / detector / factory '
        '/ astra-vec / util in the ratio 7:1:1:1:1; class, init vectors, '
        'partitions, parameter pattern with explicit fractions of the '
        'parameter intervals, slice, argument container and call order of '
        'the history clause). Non-trivial = generic axis/init vector/matrix, '
        'or array/broadcast parameters, or curved / helical / shifted '
        'geometry, or a factory on a generated volume, or a rotation-helper '
        'call; distinct by sha1 of the descriptor')

CLS = {
    'par2d': 'Parallel2dGeometry', 'par3d_axis': 'Parallel3dAxisGeometry',
    'par3d_euler': 'Parallel3dEulerGeometry', 'fan': 'FanBeamGeometry',
    'cone': 'ConeBeamGeometry',
}
DET_CLS = {'flat1d': 'Flat1dDetector', 'flat2d': 'Flat2dDetector',
           'circ': 'CircularDetector', 'cyl': 'CylindricalDetector',
           'sph': 'SphericalDetector'}

# exactly perpendicular integer axes for the curved 3-D detectors
EXACT_PAIRS = [
    [[1, 0, 0], [0, 0, 1]], [[1, 0, 0], [0, 0, 1]],
    [[3, 4, 0], [-4, 3, 0]], [[1, 2, 2], [2, 1, -2]],
    [[2, -2, 1], [1, 2, 2]], [[0, 0, 2], [5, 0, 0]],
    [[1, 1, 0], [1, -1, 0]], [[1, 1, 0], [0, 0, 3]],
    [[0, 1, 0], [0, 0, 1]], [[0, 0, 1], [0, -1, 0]],
    [[-1, 0, 0], [0, 0, 1]], [[0, -1, 0], [1, 0, 0]],
    [[2, 3, 6], [3, -6, 2]], [[1, 0, 0], [0, 0, -1]],
]


def _r(x):
    return float(np.float32(x))


# --------------------------------------------------------------------------
# building ODL objects from descriptors

def build_part(pds):
    parts = []
    for pd in pds:
        if pd['t'] == 'u':
            parts.append(odl.uniform_partition(
                pd['min'], pd['max'], int(pd['n']),
                nodes_on_bdry=bool(pd.get('nob', False))))
        else:
            parts.append(odl.nonuniform_partition(
                np.array(pd['pts'], dtype=float), min_pt=pd['min'],
                max_pt=pd['max']))
    out = parts[0]
    for p in parts[1:]:
        out = out.append(p)
    return out


def make_shift(sd, k):
    """Shift function ``angle -> (n, k)`` per the documented contract."""
    if sd is None:
        return None
    c = [float(v) for v in sd['c']]
    kind = sd['kind']
    if kind == 'constlist':
        # the form used in the docstrings for det_shift_func
        return lambda angle: list(c)
    if kind == 'const':
        return lambda angle: np.stack(
            [c[i] + 0.0 * np.asarray(angle, dtype=float) for i in range(k)],
            axis=-1)
    if kind == 'sin':
        amp, ph, f = sd['amp'], sd['phase'], float(sd['freq'])
        return lambda angle: np.stack(
            [c[i] + amp[i] * np.sin(f * np.asarray(angle, dtype=float) +
                                    ph[i]) for i in range(k)], axis=-1)
    if kind == 'lin':
        b = sd['b']
        return lambda angle: np.stack(
            [c[i] + b[i] * np.asarray(angle, dtype=float) for i in range(k)],
            axis=-1)
    raise HarnessError('unknown shift kind {!r}'.format(kind))


def _shift_mag(sd):
    if sd is None:
        return 0.0
    m = float(np.max(np.abs(sd['c'])))
    if sd['kind'] == 'sin':
        m += float(np.max(np.abs(sd['amp'])))
    if sd['kind'] == 'lin':
        m += 40.0 * float(np.max(np.abs(sd['b'])))
    return m


def _as_arg(v, argtype, nested=False):
    if v is None:
        return None
    if argtype == 'array':
        a = np.array(v, dtype=float)
        return a
    if argtype == 'iarray':
        a = np.array(v, dtype=float)
        if np.all(a == np.round(a)):
            return a.astype(int)
        return a
    if argtype == 'tuple':
        if nested:
            return tuple(tuple(float(x) for x in r) for r in v)
        return tuple(float(x) for x in v)
    if nested:
        return [[float(x) for x in r] for r in v]
    return [float(x) for x in v]


def _curv_arg(curv, ndim):
    if curv is None:
        return None
    if ndim == 2:
        return float(curv)
    second = curv[1]
    if second == 'inf':
        second = float('inf')
    return (float(curv[0]), second)


def build_geometry(g, apart, dpart):
    """Return ``(geometry, passed)``; ``passed`` maps argument names to
    ``(object handed to ODL, copy of its values)`` for the purity clause."""
    cls = g['cls']
    ndim = geomref.NDIM[cls]
    at = g.get('argtype', 'list')
    kw = {}
    passed = {}

    def put(name, key, nested=False):
        v = g.get(key)
        if v is None:
            return
        if key == 'det_axes_init' and ndim == 2:
            v = v[0]
            nested = False
        a = _as_arg(v, at, nested)
        kw[name] = a
        if isinstance(a, np.ndarray):
            passed[name] = (a, a.copy())

    if not g.get('check_bounds', True):
        kw['check_bounds'] = False
    src_f = make_shift(g.get('src_shift'), ndim)
    det_f = make_shift(g.get('det_shift'), ndim)
    if src_f is not None:
        kw['src_shift_func'] = src_f
    if det_f is not None:
        kw['det_shift_func'] = det_f
    C = getattr(odl.tomo, CLS[cls])
    if g.get('mode', 'ctor') == 'frommatrix':
        M = np.array(g['matrix'], dtype=float)
        passed['init_matrix'] = (M, M.copy())
        if cls in ('fan', 'cone'):
            if g.get('curv') is not None:
                kw['det_curvature_radius'] = _curv_arg(g['curv'], ndim)
            if cls == 'cone':
                if g.get('pitch'):
                    kw['pitch'] = float(g['pitch'])
                if g.get('offset'):
                    kw['offset_along_axis'] = float(g['offset'])
            geom = C.frommatrix(apart, dpart, float(g['src_radius']),
                                float(g['det_radius']), M, **kw)
        else:
            geom = C.frommatrix(apart, dpart, M, **kw)
        return geom, passed
    put('translation', 'translation')
    if cls == 'par2d':
        put('det_pos_init', 'det_pos_init')
        put('det_axis_init', 'det_axes_init')
        geom = C(apart, dpart, **kw)
    elif cls == 'par3d_euler':
        put('det_pos_init', 'det_pos_init')
        put('det_axes_init', 'det_axes_init', nested=True)
        geom = C(apart, dpart, **kw)
    elif cls == 'par3d_axis':
        put('axis', 'axis')
        put('det_pos_init', 'det_pos_init')
        put('det_axes_init', 'det_axes_init', nested=True)
        geom = C(apart, dpart, **kw)
    elif cls == 'fan':
        put('src_to_det_init', 'src_to_det_init')
        put('det_axis_init', 'det_axes_init')
        if g.get('curv') is not None:
            kw['det_curvature_radius'] = _curv_arg(g['curv'], 2)
        geom = C(apart, dpart, float(g['src_radius']), float(g['det_radius']),
                 **kw)
    else:
        put('axis', 'axis')
        put('src_to_det_init', 'src_to_det_init')
        put('det_axes_init', 'det_axes_init', nested=True)
        if g.get('curv') is not None:
            kw['det_curvature_radius'] = _curv_arg(g['curv'], 3)
        if g.get('pitch'):
            kw['pitch'] = float(g['pitch'])
        if g.get('offset'):
            kw['offset_along_axis'] = float(g['offset'])
        geom = C(apart, dpart, float(g['src_radius']), float(g['det_radius']),
                 **kw)
    return geom, passed


def build_detector(dd, part):
    kind = dd['type']
    cb = bool(dd.get('check_bounds', True))
    at = dd.get('argtype', 'list')
    if kind == 'flat1d':
        return odl_det.Flat1dDetector(part, _as_arg(dd['axes'][0], at),
                                      check_bounds=cb)
    if kind == 'circ':
        return odl_det.CircularDetector(part, _as_arg(dd['axes'][0], at),
                                        float(dd['radius']), check_bounds=cb)
    axes = _as_arg(dd['axes'], at, nested=True)
    if kind == 'flat2d':
        return odl_det.Flat2dDetector(part, axes, check_bounds=cb)
    if kind == 'cyl':
        return odl_det.CylindricalDetector(part, axes, float(dd['radius']),
                                           check_bounds=cb)
    if kind == 'sph':
        return odl_det.SphericalDetector(part, axes, float(dd['radius']),
                                         check_bounds=cb)
    raise HarnessError('unknown detector type {!r}'.format(kind))


# --------------------------------------------------------------------------
# calling ODL and comparing

def _odl_frame(exc):
    """``file.py:function`` of the innermost odl frame, or None."""
    root = os.path.join(odl_root(), 'odl') + os.sep
    site = None
    for fr in traceback.extract_tb(exc.__traceback__):
        fn = os.path.abspath(fr.filename)
        if fn.startswith(root):
            site = '{}:{}'.format(os.path.basename(fn), fr.name)
    return site


def _call(sig_prefix, region, f, *args, **kwargs):
    """Call ODL; an exception raised inside odl for an admissible input is a
    violation with the raising site in its signature."""
    try:
        return f(*args, **kwargs)
    except Violation:
        raise
    except Exception as e:  # noqa
        site = _odl_frame(e)
        if site is None:
            raise
        raise Violation('{}|{}|{}'.format(sig_prefix, site, region),
                        '{}: {}'.format(type(e).__name__, str(e)[:300]))


def _shape_of(x):
    return tuple(np.shape(x))


def _close(got, ref, tol):
    got = np.asarray(got, dtype=float)
    ref = np.asarray(ref, dtype=float)
    if got.shape != ref.shape:
        return False, float('inf')
    if got.size == 0:
        return True, 0.0
    err = np.abs(got - ref)
    if not np.all(np.isfinite(got)):
        return False, float('nan')
    m = float(np.max(err))
    return m <= tol, m


def _require(got, ref, tol, sig, what):
    ok, err = _close(got, ref, tol)
    if not ok:
        raise Violation(sig, '{}: got {} expected {} (err {:.3g}, tol {:.3g})'
                             ''.format(what, np.asarray(got).tolist(),
                                       np.asarray(ref).tolist(), err, tol))


def _bshape(comps):
    return np.broadcast(*[np.asarray(c, dtype=float) for c in comps]).shape \
        if len(comps) > 1 else np.shape(np.asarray(comps[0], dtype=float))


def _entries(comps, shape):
    """Yield ``(index, [float per component])`` over the broadcast shape."""
    bc = [np.broadcast_to(np.asarray(c, dtype=float), shape) for c in comps]
    for idx in np.ndindex(*shape):
        yield idx, [float(b[idx]) for b in bc]


def _single_arg(vals):
    return vals[0] if len(vals) == 1 else list(vals)


def _vec_arg(comps):
    """Argument for a vectorised ODL call: arrays stay arrays, scalars stay
    Python floats."""
    out = []
    for c in comps:
        if np.shape(c) == ():
            out.append(float(c))
        else:
            out.append(np.array(c, dtype=float))
    return out[0] if len(out) == 1 else tuple(out)


def _params_from_fracs(fracs, lo, hi):
    """Parameter arrays inside ``[lo, hi]`` from fractions in [0, 1]."""
    out = []
    for f, a, b in zip(fracs, lo, hi):
        f = np.asarray(f, dtype=float)
        v = a + f * (b - a)
        v = np.where(f <= 0.0, a, np.where(f >= 1.0, b, v))
        v = np.clip(v, a, b)
        out.append(float(v) if v.shape == () else v)
    return out


# --------------------------------------------------------------------------
# detector clauses

def _rank(comps):
    return max(1, len(_bshape(comps)))


def _within(comps):
    return len(comps) > 1 and len({_shape_of(c) for c in comps}) > 1


def _patclass(mcomps, dcomps):
    flags = []
    if mcomps is not None and dcomps is not None and \
            _rank(mcomps) != _rank(dcomps):
        flags.append('rankmix')
    if dcomps is not None and _within(dcomps):
        flags.append('within-d')
    if mcomps is not None and _within(mcomps):
        flags.append('within-m')
    return '+'.join(flags) or 'plain'


def _cmp_vectorised(method, got, shape, tail, singles, tol, who, pc):
    """``got`` must have shape ``shape + tail`` and equal the stack of
    single evaluations entry by entry."""
    gshape = _shape_of(got)
    if gshape != tuple(shape) + tuple(tail):
        raise Violation(
            'C19|vec-shape|{}|{}|{}'.format(method, who, pc),
            'shape {} expected {} + {}'.format(gshape, tuple(shape), tail))
    got = np.asarray(got, dtype=float)
    for idx, ref in singles.items():
        if not np.all(np.isfinite(ref)):
            # degenerate single evaluation (0/0 when the source sits on the
            # detector point): nothing to compare
            continue
        ok, err = _close(got[idx], ref, tol)
        if not ok:
            raise Violation(
                'C19|vec-value|{}|{}|{}'.format(method, who, pc),
                'entry {}: vectorised {} single {} (err {:.3g} tol {:.3g})'
                ''.format(idx, got[idx].tolist(), np.asarray(ref).tolist(),
                          err, tol))


def _halfturn(refdet):
    """Input region of known finding K5: the minimal rotation taking the
    documented base tangent (0, -1, 0) of the curved 3-D surfaces to
    ``axes[0]`` maps the base height axis (0, 0, 1) to ``-axes[1]``."""
    if refdet.kind not in ('cyl', 'sph'):
        return False
    f = rr.rotation_from_to([0.0, -1.0, 0.0], refdet.axes[0]).dot(
        [0.0, 0.0, 1.0])
    return bool(np.dot(f, refdet.axes[1]) < -1 + 1e-9)


def check_detector(det, refdet, kind, dlo, dhi, dcomps, cb, strata,
                   scale_extra=0.0, amp=1.0, probe=True):
    """Single-parameter detector clauses (surface vs reference, derivative
    vs reference and finite differences, normal, measure); returns the
    single evaluations for the vectorised comparison."""
    dname = DET_CLS[kind]
    D = len(dlo)
    n = D + 1
    if type(det).__name__ != dname:
        raise Violation('C19|detector-class|{}'.format(dname),
                        'got {}'.format(type(det).__name__))
    # axes: normalised input
    got_axes = np.atleast_2d(det.axis if D == 1 else det.axes)
    _require(got_axes, np.array(refdet.axes), 16 * EPS * amp,
             'C19|detector-axes|{}'.format(dname), 'unit axes')
    if refdet.radius is not None:
        _require(det.radius, refdet.radius, 0.0,
                 'C19|detector-radius|{}'.format(dname), 'radius')
    r = refdet.radius or 0.0
    S = 1.0 + 2 * r + float(np.max(np.abs(np.concatenate([dlo, dhi])))) \
        + scale_extra
    tol = K_TOL * EPS * S * amp
    shape = _bshape(dcomps)
    surf, deriv, normal, meas = {}, {}, {}, {}
    if _halfturn(refdet):
        strata.append('curved-axes:halfturn')
        if not probe:
            raise _Excluded('C19-K5')
        # probe the known region at points with a non-zero angle (at
        # phi = 0 the mirrored surface coincides with the documented one)
        for f in (0.8, 0.3):
            q = [float(a + f * (b - a)) for a, b in zip(dlo, dhi)]
            sq = _call('C19|raise-single', dname, det.surface, q)
            dq = _call('C19|raise-single', dname, det.surface_deriv, q)
            if not (_close(sq, refdet.surface(q), tol)[0] and
                    _close(dq, refdet.deriv(q), tol)[0]):
                raise Violation(
                    'C19|surface-ref|{}|halfturn'.format(dname),
                    'surface({}) = {} reference {}; surface_deriv = {} '
                    'reference {}; axes {}'.format(
                        q, np.asarray(sq).tolist(),
                        refdet.surface(q).tolist(), np.asarray(dq).tolist(),
                        refdet.deriv(q).tolist(),
                        np.array(refdet.axes).tolist()))
    pre = 'C19|raise-single'
    for k, (idx, p) in enumerate(_entries(dcomps, shape)):
        arg = _single_arg(p)
        s = _call(pre, dname, det.surface, arg)
        if _shape_of(s) != (n,):
            raise Violation('C19|single-shape|surface|' + dname,
                            'shape {}'.format(_shape_of(s)))
        ref_s = refdet.surface(arg)
        ok, err = _close(s, ref_s, tol)
        if not ok:
            region = 'halfturn' if _halfturn(refdet) else 'value'
            raise Violation(
                'C19|surface-ref|{}|{}'.format(dname, region),
                'surface({}) = {} reference {} (err {:.3g}); axes {}'.format(
                    arg, np.asarray(s).tolist(), ref_s.tolist(), err,
                    np.array(refdet.axes).tolist()))
        surf[idx] = np.array(s, dtype=float)
        d = np.array(_call(pre, dname, det.surface_deriv, arg), dtype=float)
        tail = (n,) if D == 1 else (2, 3)
        if d.shape != tail:
            raise Violation('C19|single-shape|surface_deriv|' + dname,
                            'shape {}'.format(d.shape))
        _require(d, refdet.deriv(arg), tol,
                 'C19|surface-deriv|{}|analytic'.format(dname),
                 'surface_deriv({})'.format(arg))
        deriv[idx] = d
        nv = np.array(_call(pre, dname, det.surface_normal, arg), dtype=float)
        if nv.shape != (n,):
            raise Violation('C19|single-shape|surface_normal|' + dname,
                            'shape {}'.format(nv.shape))
        rows = np.atleast_2d(d)
        rown = np.sqrt(np.sum(rows * rows, axis=1))
        if abs(np.sqrt(np.dot(nv, nv)) - 1.0) > 16 * EPS:
            raise Violation('C19|surface-normal|{}|unit'.format(dname),
                            'normal {} at {}'.format(nv.tolist(), arg))
        if np.max(np.abs(rows.dot(nv)) / rown) > K_TOL * EPS:
            raise Violation('C19|surface-normal|{}|orthogonal'.format(dname),
                            'normal {} derivs {}'.format(nv.tolist(),
                                                         rows.tolist()))
        orient = (np.linalg.det(np.column_stack([nv, rows[0]])) if D == 1
                  else np.linalg.det(np.column_stack([rows[0], rows[1], nv])))
        if not orient > 0:
            raise Violation('C19|surface-normal|{}|orientation'.format(dname),
                            'normal {} derivs {}'.format(nv.tolist(),
                                                         rows.tolist()))
        normal[idx] = nv
        mv = _call(pre, dname, det.surface_measure, arg)
        if _shape_of(mv) != ():
            raise Violation('C19|single-shape|surface_measure|' + dname,
                            'shape {}'.format(_shape_of(mv)))
        want = rown[0] if D == 1 else float(np.sqrt(np.sum(
            np.cross(rows[0], rows[1]) ** 2)))
        if abs(float(mv) - want) > K_TOL * EPS * (1 + want) or \
                abs(float(mv) - refdet.measure(arg)) > tol * (1 + r):
            raise Violation('C19|surface-measure|' + dname,
                            'measure {} derivs give {} reference {}'.format(
                                float(mv), want, refdet.measure(arg)))
        meas[idx] = float(mv)
        # finite differences at an interior copy of the point
        if k < 3:
            ext = dhi - dlo
            q = np.clip(np.array(p), dlo + 1e-3 * ext, dhi - 1e-3 * ext)
            dq = np.atleast_2d(np.array(_call(
                pre, dname, det.surface_deriv, _single_arg(list(q))),
                dtype=float))
            for j in range(D):
                h = 1e-5 * ext[j]
                qp, qm = q.copy(), q.copy()
                qp[j] += h
                qm[j] -= h
                fp = np.array(_call(pre, dname, det.surface,
                                    _single_arg(list(qp))), dtype=float)
                fm = np.array(_call(pre, dname, det.surface,
                                    _single_arg(list(qm))), dtype=float)
                fd = (fp - fm) / (2 * h)
                tol_fd = 10 * (h * h * r * max(1.0, r) / 6 + EPS * S / h) \
                    + tol
                ok, err = _close(dq[j], fd, tol_fd)
                if not ok:
                    raise Violation(
                        'C19|surface-deriv|{}|fd'.format(dname),
                        'd/dp{} at {}: deriv {} finite difference {} (err '
                        '{:.3g} tol {:.3g})'.format(j, q.tolist(),
                                                    dq[j].tolist(),
                                                    fd.tolist(), err, tol_fd))
            strata.append('fd-checked')
    return {'surface': surf, 'deriv': deriv, 'normal': normal,
            'measure': meas, 'tol': tol}


def check_detector_vec(det, kind, dcomps, single, strata):
    """Vectorised detector methods against the single evaluations."""
    shape = _bshape(dcomps)
    if shape == ():
        return
    dname = DET_CLS[kind]
    D = len(dcomps)
    n = D + 1
    tol = single['tol']
    pc = _patclass(None, dcomps)
    varg = _vec_arg(dcomps)
    pre = 'C19|vec-raise'
    reg = '{}|{}'.format(dname, pc)
    got = _call(pre, reg, det.surface, varg)
    _cmp_vectorised('surface', got, shape, (n,), single['surface'], tol,
                    dname, pc)
    got = _call(pre, reg, det.surface_deriv, varg)
    _cmp_vectorised('surface_deriv', got, shape, (n,) if D == 1 else (2, 3),
                    single['deriv'], tol, dname, pc)
    got = _call(pre, reg, det.surface_normal, varg)
    _cmp_vectorised('surface_normal', got, shape, (n,), single['normal'],
                    K_TOL * EPS, dname, pc)
    strata.append('det-vectorised:' + pc)


def check_detector_measure_vec(det, kind, dcomps, meas, strata):
    """Vectorised ``surface_measure`` (kept last: known finding K4)."""
    shape = _bshape(dcomps)
    if shape == ():
        return
    dname = DET_CLS[kind]
    pc = _patclass(None, dcomps)
    got = _call('C19|vec-raise', '{}|{}'.format(dname, pc),
                det.surface_measure, _vec_arg(dcomps))
    tolm = K_TOL * EPS * (1 + max(abs(v) for v in meas.values()))
    _cmp_vectorised('surface_measure', got, shape, (), meas, tolm, dname, pc)


def check_detector_bounds(det, kind, dlo, dhi, cb, refdet, strata):
    dname = DET_CLS[kind]
    ext = dhi - dlo
    out = [float(dhi[0] + 0.37 * ext[0] + 0.1)] + \
        [float(0.5 * (a + b)) for a, b in zip(dlo[1:], dhi[1:])]
    arg = _single_arg(out)
    for method in ('surface', 'surface_deriv'):
        f = getattr(det, method)
        if cb:
            try:
                f(arg)
            except ValueError:
                continue
            raise Violation('C19|bounds|{}|{}|no-raise'.format(method, dname),
                            'parameter {} outside {}..{} accepted with '
                            'check_bounds=True'.format(arg, dlo, dhi))
        else:
            got = _call('C19|bounds|raise-unchecked', dname, f, arg)
            if method == 'surface':
                S = 1.0 + 2 * (refdet.radius or 0.0) + float(np.max(np.abs(
                    out)))
                _require(got, refdet.surface(arg), K_TOL * EPS * S,
                         'C19|bounds|surface|{}|value'.format(dname),
                         'surface outside the partition, check_bounds=False')
    if cb:
        # one offending entry inside an array of admissible ones
        mid = [float(0.5 * (a + b)) for a, b in zip(dlo, dhi)]
        varg = [np.array([c, c, o]) for c, o in zip(mid, out)]
        varg = varg[0] if len(varg) == 1 else tuple(varg)
        for method in ('surface', 'surface_deriv'):
            try:
                getattr(det, method)(varg)
            except ValueError:
                continue
            raise Violation(
                'C19|bounds|{}|{}|no-raise-vectorised'.format(method, dname),
                'parameter array {} with an entry outside {}..{} accepted '
                'with check_bounds=True'.format(np.asarray(varg).tolist(),
                                                dlo, dhi))
    strata.append('bounds:' + ('checked' if cb else 'unchecked'))


# --------------------------------------------------------------------------
# geometry clauses

_KNOWN = None


def _is_known(sig):
    """Known-finding signatures are used ONLY to choose which of several
    violations of one case is reported (an unknown one wins), never to
    suppress anything."""
    global _KNOWN
    if _KNOWN is None:
        from vlib import runner
        _KNOWN = runner.load_known(PROPERTY)
    from vlib import runner
    return runner.match_known(sig, _KNOWN) is not None


class _Excluded(Exception):
    """The case lies in the input region of a known finding and the
    descriptor does not ask for probing it."""

    def __init__(self, fid):
        Exception.__init__(self, fid)
        self.fid = fid


class _Collector(object):
    """Evaluate independent clause blocks; report an unknown violation in
    preference to one that matches a known finding (no masking)."""

    def __init__(self):
        self.found = []

    def run(self, f, *args, **kwargs):
        try:
            f(*args, **kwargs)
        except Violation as v:
            self.found.append(v)

    def finish(self):
        for v in self.found:
            if not _is_known(v.signature):
                raise v
        if self.found:
            raise self.found[0]


def _limits(pds):
    return (np.array([float(p['min']) for p in pds]),
            np.array([float(p['max']) for p in pds]))


def _det_kind(g):
    ndim = geomref.NDIM[g['cls']]
    curv = g.get('curv')
    if ndim == 2:
        return 'flat1d' if curv is None else 'circ'
    if curv is None:
        return 'flat2d'
    return 'cyl' if (curv[1] is None or curv[1] == 'inf'
                     or curv[1] == float('inf')) else 'sph'


def _init_amp(g):
    """Error amplification of the documented default-vector rotation (the
    library takes arccos of a dot product; vectors keep >= 0.1 rad from the
    degenerate directions, so at most 1/sin(0.1) ~ 10)."""
    if g.get('mode', 'ctor') == 'frommatrix':
        return 4.0
    return 12.0


class _GeomEval(object):
    """Single-parameter ODL evaluations with caching by parameter value."""

    def __init__(self, geom, cname, M, D):
        self.geom, self.cname, self.M, self.D = geom, cname, M, D
        self.cache = {}

    def get(self, method, mvals, dvals=None, **kw):
        key = (method, tuple(mvals), None if dvals is None else tuple(dvals),
               tuple(sorted(kw.items())))
        if key not in self.cache:
            f = getattr(self.geom, method)
            args = [_single_arg(mvals)]
            if dvals is not None:
                args.append(_single_arg(dvals))
            self.cache[key] = np.array(_call(
                'C19|raise-single', '{}|{}'.format(self.cname, method), f,
                *args, **kw), dtype=float)
        return self.cache[key]


def _check_rotation(R, Rref, n, ang, cname, region):
    if R.shape != (n, n):
        raise Violation('C19|single-shape|rotation_matrix|' + cname,
                        'shape {}'.format(R.shape))
    tol = K_TOL * EPS * (1 + ang)
    if rr.orthonormality_defect(R) > tol:
        raise Violation('C19|rot-orthonormal|{}|{}'.format(cname, region),
                        'R^T R - I = {:.3g}; R = {}'.format(
                            rr.orthonormality_defect(R), R.tolist()))
    if abs(rr.det(R) - 1.0) > tol:
        raise Violation('C19|rot-det|{}|{}'.format(cname, region),
                        'det {}'.format(rr.det(R)))
    _require(R, Rref, tol, 'C19|rot-ref|{}|{}'.format(cname, region),
             'rotation_matrix')


def _group_angles(lo, hi, fa, fb, cb):
    if not cb:
        return -7.0 + 14.0 * fa, -7.0 + 14.0 * fb
    if lo <= 0 <= hi:
        return fa * hi * 0.5, fb * hi * 0.5
    if lo > 0 and 2 * lo <= hi:
        w = hi / 2 - lo
        return lo + fa * w, lo + fb * w
    if hi < 0 and 2 * hi >= lo:
        w = hi - lo / 2
        return lo / 2 + fa * w, lo / 2 + fb * w
    return None


def run_geom(desc):
    g = desc['g']
    cls = g['cls']
    cname = CLS[cls]
    n = geomref.NDIM[cls]
    mode = g.get('mode', 'ctor')
    cb = bool(g.get('check_bounds', True))
    kind = _det_kind(g)
    dname = DET_CLS[kind]
    pat = desc['pat']
    at = g.get('argtype', 'list')
    argcls = 'array' if (at in ('array', 'iarray') or
                         mode == 'frommatrix') else 'seq'
    strata = ['geom:{}|{}|{}'.format(cls, mode, kind), 'cls:' + cls,
              'mode:' + mode, 'det:' + kind, 'pattern:' + pat['kind'],
              'check_bounds:' + str(cb), 'argtype:' + at]
    if mode == 'frommatrix':
        strata.append('matrix:' + g.get('mkind', '?'))
    for key in ('axis', 'det_pos_init', 'src_to_det_init', 'det_axes_init',
                'translation'):
        if key + '_mode' in g:
            strata.append('{}:{}'.format(key, g[key + '_mode']))
    if g.get('pitch'):
        strata.append('helical')
    if g.get('offset'):
        strata.append('offset_along_axis')
    if g.get('src_shift') is not None:
        strata.append('src_shift:' + g['src_shift']['kind'])
    if g.get('det_shift') is not None:
        strata.append('det_shift:' + g['det_shift']['kind'])
    apart = build_part(desc['apart'])
    dpart = build_part(desc['dpart'])
    strata.append('apart:' + '/'.join(p['t'] for p in desc['apart']))
    strata.append('dpart:' + '/'.join(p['t'] for p in desc['dpart']))
    M, D = len(desc['apart']), len(desc['dpart'])
    if cls == 'par3d_euler':
        strata.append('euler-angles:{}'.format(M))
    try:
        geom, passed = build_geometry(g, apart, dpart)
    except ValueError as e:
        if 'not perpendicular' in str(e):
            return Outcome('rejected', strata=strata + [
                'rejected:curved-axes-not-exactly-perpendicular'])
        raise
    except TypeError as e:
        if 'Cannot cast ufunc' in str(e) and _odl_frame(e):
            uf = str(e).split("'")[1] if "'" in str(e) else '?'
            raise Violation(
                'C19|ctor|{}|inplace-int-array:{}'.format(cname, uf),
                'constructor raises for integer array arguments: {}'.format(
                    str(e)[:200]))
        raise
    if type(geom).__name__ != cname:
        raise Violation('C19|class|' + cname, type(geom).__name__)
    src_f = make_shift(g.get('src_shift'), n)
    det_f = make_shift(g.get('det_shift'), n)
    ref = geomref.RefGeometry(g, src_shift=src_f, det_shift=det_f)
    divergent = ref.divergent

    mlo, mhi = _limits(desc['apart'])
    dlo, dhi = _limits(desc['dpart'])
    mcomps = _params_from_fracs(pat['m'], mlo, mhi)
    dcomps = _params_from_fracs(pat['d'], dlo, dhi)
    amax = float(max(np.max(np.abs(mlo)), np.max(np.abs(mhi)), 8.0 * (not cb)))
    A = 1.0 + amax
    amp = _init_amp(g)
    r_curv = ref.det.radius or 0.0
    S = (ref.scale() + abs(ref.pitch) * amax / (2 * np.pi) +
         _shift_mag(g.get('src_shift')) + _shift_mag(g.get('det_shift')) +
         2 * r_curv + float(max(np.max(np.abs(dlo)), np.max(np.abs(dhi)))))
    tol = K_TOL * EPS * S * A * amp
    tol_dir = K_TOL * EPS * A * amp
    region = mode if mode == 'ctor' else 'frommatrix:' + g.get('mkind', '?')

    # ---- static configuration -------------------------------------------
    def static(name, got, want, t):
        _require(got, want, t, 'C19|init|{}|{}|{}'.format(cname, name,
                                                          region), name)
    static('translation', geom.translation, ref.t, 0.0)
    if ref.axis is not None:
        static('axis', geom.axis, ref.axis, 16 * EPS)
    if not divergent:
        static('det_pos_init', geom.det_pos_init, ref.det_pos + ref.t,
               K_TOL * EPS * S * amp)
    else:
        static('src_to_det_init', geom.src_to_det_init, ref.s,
               16 * EPS * amp)
        static('src_radius', geom.src_radius, ref.rs, 0.0)
        static('det_radius', geom.det_radius, ref.rd, 0.0)
        if cls == 'cone':
            static('pitch', geom.pitch, ref.pitch, 0.0)
            static('offset_along_axis', geom.offset_along_axis, ref.offset,
                   0.0)
    if n == 2:
        static('det_axis_init', geom.det_axis_init, ref.axes_init[0],
               16 * EPS * amp)
    else:
        static('det_axes_init', geom.det_axes_init, np.array(ref.axes_init),
               16 * EPS * amp)
    if geom.ndim != n or geom.check_bounds != cb or \
            geom.detector.check_bounds != cb:
        raise Violation('C19|init|{}|flags'.format(cname),
                        'ndim {} check_bounds {} / {}'.format(
                            geom.ndim, geom.check_bounds,
                            geom.detector.check_bounds))

    # derived parameter sets: "motion parameters come before the detector
    # parameters", `partition` is `det_partition` appended to
    # `motion_partition`
    both = apart.append(dpart)
    for name, got, want in (
            ('motion_partition', geom.motion_partition, apart),
            ('det_partition', geom.det_partition, dpart),
            ('partition', geom.partition, both),
            ('motion_params', geom.motion_params, apart.set),
            ('det_params', geom.det_params, dpart.set),
            ('params', geom.params, both.set),
            ('motion_grid', geom.motion_grid, apart.grid),
            ('det_grid', geom.det_grid, dpart.grid),
            ('grid', geom.grid, both.grid)):
        if not got == want:
            raise Violation('C19|init|{}|{}'.format(cname, name),
                            '{} = {!r} expected {!r}'.format(name, got, want))
    if divergent and geom.det_curvature_radius != ref.det.radius:
        raise Violation('C19|init|{}|det_curvature_radius'.format(cname),
                        'det_curvature_radius {!r} for {!r}'.format(
                            geom.det_curvature_radius, g.get('curv')))

    # ---- detector clauses --------------------------------------------------
    probe = bool(desc.get('probe', True))
    strata.append('probe-known-regions:' + str(probe))
    dsingle = check_detector(geom.detector, ref.det, kind, dlo, dhi, dcomps,
                             cb, strata, amp=amp, probe=probe)
    meas = dsingle['measure']

    # ---- single-parameter evaluation vs reference and relations -----------
    ev = _GeomEval(geom, cname, M, D)
    shape_m = _bshape(mcomps)
    shape = _bshape(list(mcomps) + list(dcomps))
    dmid = [float(0.5 * (a + b)) for a, b in zip(dlo, dhi)]
    helreg = ('shift' if (src_f or det_f) else
              'helical' if (ref.pitch or ref.offset) else 'plain')
    axes_name = 'det_axis' if n == 2 else 'det_axes'
    axes_init_odl = np.atleast_2d(geom.det_axis_init if n == 2
                                  else geom.det_axes_init)
    mall = list(_entries(mcomps, shape_m))
    joint = list(_entries(list(mcomps) + list(dcomps), shape))
    for idx, mv in mall:
        ang = float(np.max(np.abs(mv)))
        R = ev.get('rotation_matrix', mv)
        _check_rotation(R, ref.rot(_single_arg(mv)), n, ang, cname, region)
        rp = ev.get('det_refpoint', mv)
        if rp.shape != (n,):
            raise Violation('C19|single-shape|det_refpoint|' + cname,
                            'shape {}'.format(rp.shape))
        _require(rp, ref.refpoint(_single_arg(mv)), tol,
                 'C19|refpoint-ref|{}|{}|{}'.format(cname, helreg, region),
                 'det_refpoint({})'.format(mv))
        if divergent:
            sp = ev.get('src_position', mv)
            if sp.shape != (n,):
                raise Violation('C19|single-shape|src_position|' + cname,
                                'shape {}'.format(sp.shape))
            _require(sp, ref.src(_single_arg(mv)), tol,
                     'C19|src-ref|{}|{}|{}'.format(cname, helreg, region),
                     'src_position({})'.format(mv))
        ax = np.atleast_2d(ev.get(axes_name, mv))
        if ax.shape != axes_init_odl.shape:
            raise Violation('C19|single-shape|{}|{}'.format(axes_name, cname),
                            'shape {}'.format(ax.shape))
        _require(ax, axes_init_odl.dot(R.T), tol_dir,
                 'C19|detaxes|{}|compose'.format(cname),
                 '{}({}) vs R * det_axes_init'.format(axes_name, mv))
        _require(ax, ref.axes(_single_arg(mv)), tol_dir,
                 'C19|detaxes|{}|ref|{}'.format(cname, region),
                 '{}({})'.format(axes_name, mv))
    for idx, vals in joint:
        mv, dv = vals[:M], vals[M:]
        marg, darg = _single_arg(mv), _single_arg(dv)
        R = ev.get('rotation_matrix', mv)
        rp = ev.get('det_refpoint', mv)
        surf = np.array(geom.detector.surface(darg), dtype=float)
        dpp = ev.get('det_point_position', mv, dv)
        if dpp.shape != (n,):
            raise Violation('C19|single-shape|det_point_position|' + cname,
                            'shape {}'.format(dpp.shape))
        _require(dpp, rp + R.dot(surf), tol,
                 'C19|detpos-compose|{}|{}'.format(cname, dname),
                 'det_point_position({}, {}) vs det_refpoint + R * surface'
                 ''.format(mv, dv))
        _require(dpp, ref.detpos(marg, darg), tol,
                 'C19|detpos-ref|{}|{}|{}'.format(cname, dname, region),
                 'det_point_position({}, {})'.format(mv, dv))
        ax = np.atleast_2d(ev.get(axes_name, mv))
        if not divergent:
            v = ev.get('det_to_src', mv, dv)
            if v.shape != (n,):
                raise Violation('C19|single-shape|det_to_src|' + cname,
                                'shape {}'.format(v.shape))
            if abs(np.sqrt(np.dot(v, v)) - 1.0) > tol_dir:
                raise Violation('C19|det2src-parallel|{}|unit'.format(cname),
                                'det_to_src {}'.format(v.tolist()))
            if np.max(np.abs(ax.dot(v))) > tol_dir:
                raise Violation(
                    'C19|det2src-parallel|{}|orthogonal'.format(cname),
                    'det_to_src {} det axes {}'.format(v.tolist(),
                                                       ax.tolist()))
            v0 = ev.get('det_to_src', mv, dmid)
            _require(v, v0, tol_dir,
                     'C19|det2src-parallel|{}|constant'.format(cname),
                     'det_to_src({}, {}) vs detector midpoint'.format(mv, dv))
            _require(v, ref.det2src(marg, darg), tol_dir,
                     'C19|det2src-parallel|{}|ref|{}'.format(cname, region),
                     'det_to_src({}, {})'.format(mv, dv))
        else:
            sp = ev.get('src_position', mv)
            vu = ev.get('det_to_src', mv, dv, normalized=False)
            vn = ev.get('det_to_src', mv, dv)
            if vu.shape != (n,) or vn.shape != (n,):
                raise Violation('C19|single-shape|det_to_src|' + cname,
                                'shapes {} {}'.format(vu.shape, vn.shape))
            _require(vu, sp - dpp, tol,
                     'C19|det2src-div|{}|length'.format(cname),
                     'det_to_src(normalized=False) vs src - det point')
            _require(vu, ref.det2src(marg, darg, normalized=False), tol,
                     'C19|det2src-div|{}|ref|{}'.format(cname, region),
                     'det_to_src(normalized=False)')
            ln = float(np.sqrt(np.dot(sp - dpp, sp - dpp)))
            if ln > 1e-6 * S:
                td = tol_dir + K_TOL * EPS * A * amp * S / ln
                if abs(np.sqrt(np.dot(vn, vn)) - 1.0) > td:
                    raise Violation('C19|det2src-div|{}|unit'.format(cname),
                                    'normalized det_to_src {} has length {}'
                                    ''.format(vn.tolist(),
                                              np.sqrt(np.dot(vn, vn))))
                _require(vn, (sp - dpp) / ln, td,
                         'C19|det2src-div|{}|parallel'.format(cname),
                         'normalized det_to_src vs (src - det point)/|.|')
            else:
                strata.append('degenerate:source-on-detector')

    # ---- independent clause blocks: every block is evaluated, the
    # violation reported for the case is chosen by `_Collector.finish` ----
    col = _Collector()
    pc_m = _patclass(mcomps, None)
    pc = _patclass(mcomps, dcomps)
    pre = 'C19|vec-raise'

    def vec_motion():
        marg = _vec_arg(mcomps)
        todo = [('rotation_matrix', (n, n)), ('det_refpoint', (n,)),
                (axes_name, (n,) if n == 2 else (2, 3))]
        if divergent:
            todo.append(('src_position', (n,)))
        for method, tail in todo:
            got = _call(pre, '{}|{}'.format(dname, pc_m),
                        getattr(geom, method), marg)
            singles = {idx: ev.get(method, mv) for idx, mv in mall}
            _cmp_vectorised(method, got, shape_m, tail, singles,
                            tol if tail == (n,) and method != axes_name
                            else tol_dir, cname, pc_m)
        strata.append('vec-motion:' + pc_m)

    def vec_joint():
        marg, darg = _vec_arg(mcomps), _vec_arg(dcomps)
        calls = [('det_point_position', {})]
        calls += ([('det_to_src', {}), ('det_to_src', {'normalized': False})]
                  if divergent else [('det_to_src', {})])
        for method, kw in calls:
            got = _call(pre, '{}|{}'.format(dname, pc),
                        getattr(geom, method), marg, darg, **kw)
            singles = {idx: ev.get(method, vals[:M], vals[M:], **kw)
                       for idx, vals in joint}
            _cmp_vectorised(method + ('' if not kw else ':unnormalized'),
                            got, shape, (n,), singles, tol, cname, pc)
        strata.append('vec-joint:' + pc)

    def group_law():
        ab = _group_angles(float(mlo[0]), float(mhi[0]),
                           float(desc['group'][0]), float(desc['group'][1]),
                           cb)
        if ab is None:
            return
        a, b = ab
        Ra = ev.get('rotation_matrix', [a])
        Rb = ev.get('rotation_matrix', [b])
        Rab = ev.get('rotation_matrix', [a + b])
        _require(Rab, Ra.dot(Rb), K_TOL * EPS * (1 + abs(a) + abs(b)),
                 'C19|rot-group|{}|{}'.format(cname, region),
                 'R({}+{}) vs R(a) R(b)'.format(a, b))
        strata.append('group-law')

    def bounds():
        ext = mhi - mlo
        mout = [float(mhi[0] + 0.37 * ext[0] + 0.1)] + \
            [float(0.5 * (a + b)) for a, b in zip(mlo[1:], mhi[1:])]
        for method in ('rotation_matrix', 'det_refpoint'):
            f = getattr(geom, method)
            if cb:
                try:
                    f(_single_arg(mout))
                except ValueError:
                    continue
                raise Violation(
                    'C19|bounds|{}|{}|no-raise'.format(method, cname),
                    'angle {} outside {}..{} accepted with '
                    'check_bounds=True'.format(mout, mlo, mhi))
            got = _call('C19|bounds|raise-unchecked', cname, f,
                        _single_arg(mout))
            want = (ref.rot(_single_arg(mout)) if method == 'rotation_matrix'
                    else ref.refpoint(_single_arg(mout)))
            _require(got, want, K_TOL * EPS * (S + abs(ref.pitch) * 3) *
                     (1 + abs(mout[0])) * amp,
                     'C19|bounds|{}|{}|value'.format(method, cname),
                     method + ' outside the partition, check_bounds=False')
        if cb:
            # one offending entry inside an array of admissible ones
            mmid = [float(0.5 * (a + b)) for a, b in zip(mlo, mhi)]
            varg = [np.array([c, o, c]) for c, o in zip(mmid, mout)]
            varg = varg[0] if M == 1 else tuple(varg)
            for method in ('rotation_matrix', 'det_refpoint'):
                try:
                    getattr(geom, method)(varg)
                except ValueError:
                    continue
                raise Violation(
                    'C19|bounds|{}|{}|no-raise-vectorised'.format(method,
                                                                  cname),
                    'angle array {} with an entry outside {}..{} accepted '
                    'with check_bounds=True'.format(
                        np.asarray(varg).tolist(), mlo, mhi))
        check_detector_bounds(geom.detector, kind, dlo, dhi, cb, ref.det,
                              strata)

    def history():
        hist = desc.get('hist') or {}
        form = hist.get('form', 'buffer')
        if form not in HIST_FORMS:
            raise HarnessError('unknown history form {!r}'.format(form))
        m2 = _params_from_fracs(_second_fracs(pat['m']), mlo, mhi)
        d2 = _params_from_fracs(_second_fracs(pat['d']), dlo, dhi)
        fills = [[list(mcomps), list(dcomps)], [m2, d2]]
        shape_d = _bshape(dcomps)
        ent_m = [_subset(list(_entries(f[0], shape_m))) for f in fills]
        ent_d = [_subset(list(_entries(f[1], shape_d))) for f in fills]
        ent_j = [_subset(list(_entries(list(f[0]) + list(f[1]), shape)))
                 for f in fills]
        tol_rot = K_TOL * EPS * A

        def ref_axes(v):
            a = ref.axes(_single_arg(v))
            return a[0] if n == 2 else a

        calls = [
            ('rotation_matrix', geom.rotation_matrix, [0], {}, shape_m,
             (n, n), _table(ent_m, lambda v: ref.rot(_single_arg(v))),
             tol_rot),
            ('det_refpoint', geom.det_refpoint, [0], {}, shape_m, (n,),
             _table(ent_m, lambda v: ref.refpoint(_single_arg(v))), tol),
            (axes_name, getattr(geom, axes_name), [0], {}, shape_m,
             (n,) if n == 2 else (2, 3), _table(ent_m, ref_axes), tol_dir),
        ]
        if divergent:
            calls.append(
                ('src_position', geom.src_position, [0], {}, shape_m, (n,),
                 _table(ent_m, lambda v: ref.src(_single_arg(v))), tol))
        calls.append(
            ('det_point_position', geom.det_point_position, [0, 1], {},
             shape, (n,),
             _table(ent_j, lambda v: ref.detpos(_single_arg(v[:M]),
                                                _single_arg(v[M:]))), tol))
        if not divergent:
            calls.append(
                ('det_to_src', geom.det_to_src, [0, 1], {}, shape, (n,),
                 _table(ent_j, lambda v: ref.det2src(_single_arg(v[:M]),
                                                     _single_arg(v[M:]))),
                 tol_dir))
        else:
            raw = _table(ent_j, lambda v: ref.det2src(
                _single_arg(v[:M]), _single_arg(v[M:]), normalized=False))
            calls.append(
                ('det_to_src:unnormalized', geom.det_to_src, [0, 1],
                 {'normalized': False}, shape, (n,), raw, tol))
            unit_memo = {}

            def unit_tables(fill):
                # entries whose source sits on the detector point have no
                # direction: not compared
                if fill not in unit_memo:
                    vals, tols = {}, {}
                    for idx, v in raw(fill).items():
                        ln = float(np.sqrt(np.dot(v, v)))
                        if ln > 1e-6 * S:
                            vals[idx] = v / ln
                            tols[idx] = (tol_dir +
                                         K_TOL * EPS * A * amp * S / ln)
                    unit_memo[fill] = (vals, tols)
                return unit_memo[fill]

            calls.append(
                ('det_to_src', geom.det_to_src, [0, 1], {}, shape, (n,),
                 lambda fill: unit_tables(fill)[0],
                 [unit_tables(0)[1], unit_tables(1)[1]]))
        calls = [c + (True,) for c in calls]
        calls += _detector_history_calls(geom.detector, ref.det, D, shape_d,
                                         ent_d, [1], dsingle['tol'], amp)
        _check_history(calls, _ParamObjects(fills[0], form), fills, hist,
                       cname + '|' + dname, strata)

    def angles_direct():
        # "`geometry.angles` can be used directly as input to any of the
        # other methods of the geometry": shape (N,) for one motion
        # parameter, (M, N) otherwise
        ang = geom.angles
        grid = apart.grid
        want = (np.array(grid.coord_vectors[0], dtype=float) if M == 1
                else np.array(grid.points(), dtype=float).T)
        if _shape_of(ang) != want.shape or not np.array_equal(ang, want):
            raise Violation('C19|angles|{}|grid'.format(cname),
                            'angles {} but the angle partition has the grid '
                            'points {}'.format(np.asarray(ang).tolist(),
                                               want.tolist()))
        cols = np.atleast_2d(want)
        N = cols.shape[1]
        ents = [_subset([((k,), [float(v) for v in cols[:, k]])
                         for k in range(N)])]
        todo = [('rotation_matrix', (ang,), (n, n),
                 lambda v: ref.rot(_single_arg(v)), K_TOL * EPS * A),
                ('det_refpoint', (ang,), (n,),
                 lambda v: ref.refpoint(_single_arg(v)), tol),
                (axes_name, (ang,), (n,) if n == 2 else (2, 3),
                 lambda v: (ref.axes(_single_arg(v))[0] if n == 2
                            else ref.axes(_single_arg(v))), tol_dir),
                ('det_point_position', (ang, _single_arg(dmid)), (n,),
                 lambda v: ref.detpos(_single_arg(v), _single_arg(dmid)),
                 tol)]
        if divergent:
            todo.append(('src_position', (ang,), (n,),
                         lambda v: ref.src(_single_arg(v)), tol))
        else:
            todo.append(('det_to_src', (ang, _single_arg(dmid)), (n,),
                         lambda v: ref.det2src(_single_arg(v),
                                               _single_arg(dmid)), tol_dir))
        for method, args, tail, fn, t in todo:
            got = _call(pre, '{}|angles'.format(cname), getattr(geom, method),
                        *args)
            if _shape_of(got) != (N,) + tail:
                raise Violation(
                    'C19|angles|{}|{}|shape'.format(cname, method),
                    '{}(geom.angles) has shape {} expected {}'.format(
                        method, _shape_of(got), (N,) + tail))
            got = np.asarray(got, dtype=float)
            for idx, want_v in _table(ents, fn)(0).items():
                ok, err = _close(got[idx], want_v, t)
                if not ok:
                    raise Violation(
                        'C19|angles|{}|{}|value|{}'.format(cname, method,
                                                           region),
                        '{}(geom.angles)[{}] = {} reference at angle {}: {} '
                        '(err {:.3g} tol {:.3g})'.format(
                            method, idx[0], got[idx].tolist(),
                            cols[:, idx[0]].tolist(),
                            np.asarray(want_v).tolist(), err, t))
            if not np.array_equal(geom.angles, want):
                raise Violation(
                    'C19|angles|{}|{}|modified'.format(cname, method),
                    'geom.angles changed after {}(geom.angles)'.format(
                        method))
        strata.append('angles-direct')

    col.run(check_detector_vec, geom.detector, kind, dcomps, dsingle, strata)
    col.run(angles_direct)
    if shape_m != ():
        col.run(vec_motion)
    if shape != ():
        col.run(vec_joint)
    if M == 1:
        col.run(group_law)
    col.run(bounds)
    col.run(history)
    bad = pat.get('bad')
    if bad:
        col.run(_check_bad, geom, bad, cname, dname, mlo, mhi, dlo, dhi, M, D)
        strata.append('bad-shapes:' + bad)
    if desc.get('slice') is not None:
        col.run(_check_slice, geom, ref, desc['slice'], cname, argcls, n, M,
                D, tol, dlo, dhi, divergent, strata, passed)
    else:
        col.run(_check_purity, passed, cname)
    col.run(check_detector_measure_vec, geom.detector, kind, dcomps, meas,
            strata)
    col.finish()

    generic = (mode == 'frommatrix' or any(
        g.get(k + '_mode') not in (None, 'default')
        for k in ('axis', 'det_pos_init', 'src_to_det_init',
                  'det_axes_init')))
    nontriv = bool(generic or shape != () or kind in ('circ', 'cyl', 'sph')
                   or g.get('pitch') or src_f or det_f)
    return Outcome('ok', strata=strata, nontrivial=nontriv)


def _check_purity(passed, cname):
    for name, (obj, orig) in sorted(passed.items()):
        if not np.array_equal(obj, orig):
            raise Violation(
                'C19|ctor-arg-mutated|{}|{}'.format(cname, name),
                'array passed as {} was changed in place from {} to {}'
                ''.format(name, orig.tolist(), obj.tolist()))


def _check_bad(geom, bad, cname, dname, mlo, mhi, dlo, dhi, M, D):
    m3 = [a + np.array([0.2, 0.5, 0.8]) * (b - a) for a, b in zip(mlo, mhi)]
    m4 = [a + np.array([0.2, 0.4, 0.6, 0.8]) * (b - a)
          for a, b in zip(mlo, mhi)]
    d3 = [a + np.array([0.2, 0.5, 0.8]) * (b - a) for a, b in zip(dlo, dhi)]
    d4 = [a + np.array([0.2, 0.4, 0.6, 0.8]) * (b - a)
          for a, b in zip(dlo, dhi)]

    def one(x):
        return x[0] if len(x) == 1 else tuple(x)

    calls = []
    if bad == 'md':
        calls = [('det_point_position', geom.det_point_position,
                  (one(m3), one(d4))),
                 ('det_to_src', geom.det_to_src, (one(m4), one(d3)))]
    elif bad == 'within-m' and M > 1:
        marg = tuple([m3[0]] + [c for c in m4[1:]])
        calls = [('rotation_matrix', geom.rotation_matrix, (marg,)),
                 ('det_refpoint', geom.det_refpoint, (marg,))]
    elif bad == 'within-d' and D > 1:
        darg = (d3[0], d4[1])
        m0 = one([float(0.5 * (a + b)) for a, b in zip(mlo, mhi)])
        calls = [('surface', geom.detector.surface, (darg,)),
                 ('det_point_position', geom.det_point_position, (m0, darg))]
    for name, f, args in calls:
        try:
            out = f(*args)
        except Exception:  # noqa
            continue
        raise Violation('C19|bad-shapes|{}|{}|{}'.format(name, cname, bad),
                        'non-broadcastable parameter shapes accepted, '
                        'result shape {}'.format(_shape_of(out)))


# --------------------------------------------------------------------------
# call history / argument aliasing
#
# The property quantifies over parameters, not over call sequences: what a
# method returns for given parameter VALUES must not depend on which calls
# were made before, on the identity of the objects that carry the values, or
# on what the caller did with earlier results.  The clause below evaluates a
# set of methods three times through ONE set of argument objects:
#
#   pass 1  arguments hold the pattern's values (fill A), canonical order;
#   pass 2  the same objects, overwritten in place with other values
#           (fill B), methods in a permuted order: results must be the
#           values for fill B (reference model), the arguments must come
#           back unchanged, and the results of pass 1 must not have changed;
#   pass 3  every writeable result of pass 1 and 2 is overwritten by the
#           caller, then the calls are repeated (canonical order): still the
#           values for fill B.
#
# ``form`` is the documented array-like container the values travel in.

HIST_FORMS = ('buffer', 'view', 'readonly', 'list')
_PAD = -777.25
_GOLD = 0.3819660112501051


def _second_fracs(fracs):
    """Fractions of fill B: every entry moves by 0.38 of the interval
    (mod 1), so no entry keeps its value."""
    out = []
    for f in fracs:
        a = np.mod(np.asarray(f, dtype=float) + _GOLD, 1.0)
        out.append(float(a) if a.shape == () else a.tolist())
    return out


def _intify(v):
    """Nested lists / float with integer-valued entries as Python ints (the
    docstring examples pass ``0``, ``[-1, 0, 1]`` ...)."""
    if isinstance(v, list):
        return [_intify(x) for x in v]
    return int(v) if v == int(v) else v


class _ParamObjects(object):
    """The argument objects of the history clause.  ``groups`` is a list of
    component lists (motion components, detector components); every group
    becomes one positional argument (the component itself for a
    one-parameter group, else a tuple of components)."""

    def __init__(self, groups, form):
        self.form = form
        self.hold = []      # per group: list of objects
        self.base = []      # per group: list of owning arrays (or None)
        for comps in groups:
            objs, bases = [], []
            for c in comps:
                shp = tuple(np.shape(c))
                if form == 'buffer':
                    b = np.full(shp, _PAD)
                    objs.append(b)
                    bases.append(None)
                elif form == 'view':
                    # every second entry of the last axis of a larger array
                    big = np.full(shp[:-1] + (2 * shp[-1] + 1,) if shp
                                  else (3,), _PAD)
                    v = big[..., 1::2] if shp else big[1:2].reshape(())
                    objs.append(v)
                    bases.append(big)
                else:
                    objs.append(None)
                    bases.append(None)
            self.hold.append(objs)
            self.base.append(bases)
        self.tuples = [None] * len(groups)
        self.values = None

    def fill(self, groups):
        self.values = [[np.array(c, dtype=float) for c in comps]
                       for comps in groups]
        for gi, comps in enumerate(self.values):
            for ci, c in enumerate(comps):
                if self.form in ('buffer', 'view'):
                    self.hold[gi][ci][...] = c
                elif self.form == 'readonly':
                    if c.shape == ():
                        self.hold[gi][ci] = np.float64(c)
                    else:
                        a = c.copy()
                        a.flags.writeable = False
                        self.hold[gi][ci] = a
                    self.tuples[gi] = None
                else:
                    new = _intify(c.tolist())
                    old = self.hold[gi][ci]
                    if isinstance(old, list) and isinstance(new, list):
                        old[:] = new            # the same list, refilled
                    else:
                        self.hold[gi][ci] = new
                        self.tuples[gi] = None

    def args(self, sel):
        out = []
        for gi in sel:
            objs = self.hold[gi]
            if len(objs) == 1:
                out.append(objs[0])
            else:
                if self.tuples[gi] is None:
                    self.tuples[gi] = tuple(objs)
                out.append(self.tuples[gi])
        return out

    def changed(self):
        """Description of the first argument object whose content is no
        longer what the harness put there, or None."""
        for gi, comps in enumerate(self.values):
            for ci, c in enumerate(comps):
                cur = np.array(self.hold[gi][ci], dtype=float)
                if cur.shape != c.shape or not np.array_equal(cur, c):
                    return 'parameter group {} component {}: {} -> {}'.format(
                        gi, ci, c.tolist(), cur.tolist())
                big = self.base[gi][ci]
                if big is not None:
                    pad = big[..., 0::2] if c.shape else big[[0, 2]]
                    if not np.all(pad == _PAD):
                        return ('parameter group {} component {}: entries of '
                                'the owning array outside the view were '
                                'written'.format(gi, ci))
        return None


def _subset(entries, limit=12):
    if len(entries) <= limit:
        return entries
    pick = sorted(set(int(round(i)) for i in
                      np.linspace(0, len(entries) - 1, limit)))
    return [entries[i] for i in pick]


def _table(ents, fn):
    """``fill index -> {entry index: fn(values)}``, evaluated lazily once."""
    memo = {}

    def get(fill):
        if fill not in memo:
            memo[fill] = {idx: np.asarray(fn(vals), dtype=float)
                          for idx, vals in ents[fill]}
        return memo[fill]
    return get


def _detector_history_calls(det, refdet, D, shape_d, ents, sel, tol, amp):
    """History-clause entries for the four detector methods (expected values
    from the reference detector)."""
    n = D + 1
    r = refdet.radius or 0.0
    return [
        ('surface', det.surface, sel, {}, shape_d, (n,),
         _table(ents, lambda v: refdet.surface(_single_arg(v))), tol),
        ('surface_deriv', det.surface_deriv, sel, {}, shape_d,
         (n,) if D == 1 else (2, 3),
         _table(ents, lambda v: refdet.deriv(_single_arg(v))), tol),
        ('surface_normal', det.surface_normal, sel, {}, shape_d, (n,),
         _table(ents, lambda v: refdet.normal(_single_arg(v))),
         K_TOL * EPS * amp),
        ('surface_measure', det.surface_measure, sel, {}, shape_d, (),
         _table(ents, lambda v: refdet.measure(_single_arg(v))),
         tol * (1 + r)),
    ]


def _check_history(calls, pobj, fills, hist, who, strata):
    """``calls``: list of ``(label, function, group selection, kwargs,
    shape, tail, expected, tolerance[, overwrite])`` where ``expected(fill
    index)`` maps entry index -> reference value (entries to compare),
    ``tolerance`` is a float or a list (per fill) of dicts entry index ->
    float, and ``overwrite`` says whether the caller writes into the
    returned array before pass 3 (geometry-level evaluations only: the flat
    detectors document their derivative as "evaluating to `axis`", i.e. may
    hand out the stored vector).  ``fills``: the two lists of parameter
    groups."""
    form = pobj.form
    sig = 'C19|history|{}|{}|' + who
    rank = {'surface': 0, 'surface_deriv': 1, 'surface_normal': 2,
            'surface_measure': 3, 'rotation_matrix': 4}

    def whole_pass(seq, step):
        # run the whole pass; of several failures report the one in the
        # most elementary method (the composite ones inherit it)
        bad = []
        for i in seq:
            try:
                step(i)
            except Violation as v:
                bad.append((rank.get(calls[i][0], 5 + i), i, v))
        if bad:
            v = min(bad, key=lambda b: b[:2])[2]
            raise Violation(v.signature, '[arguments passed as {}] {}'.format(
                form, v.detail))

    def call(c, what):
        label, f, sel, kw = c[:4]
        try:
            out = f(*pobj.args(sel), **kw)
        except Exception as e:  # noqa
            site = _odl_frame(e)
            if site is None:
                raise
            raise Violation(sig.format('raise:' + site, label),
                            '{} ({}): {}: {}'.format(
                                label, what, type(e).__name__, str(e)[:300]))
        bad = pobj.changed()
        if bad is not None:
            raise Violation(sig.format('argument-modified', label),
                            '{} ({}) changed its argument; {}'.format(
                                label, what, bad))
        return out

    def compare(c, got, fill, clause, what):
        label, shape, tail, expected, tol = c[0], c[4], c[5], c[6], c[7]
        if _shape_of(got) != tuple(shape) + tuple(tail):
            raise Violation(sig.format('shape', label),
                            '{} ({}): shape {} expected {} + {}'.format(
                                label, what, _shape_of(got), tuple(shape),
                                tuple(tail)))
        arr = np.asarray(got, dtype=float)
        for idx, want in expected(fill).items():
            t = tol[fill][idx] if isinstance(tol, list) else tol
            ok, err = _close(arr[idx], want, t)
            if not ok:
                raise Violation(
                    sig.format(clause, label),
                    '{} ({}), entry {}: got {} but the parameters held there '
                    'give {} (err {:.3g}, tol {:.3g})'.format(
                        label, what, idx, arr[idx].tolist(),
                        np.asarray(want).tolist(), err, t))

    if not calls:
        return
    order = list(range(len(calls)))
    keys = hist.get('order') or []
    perm = sorted(order, key=lambda i: (keys[i % len(keys)] if keys else -i,
                                        -i))
    pobj.fill(fills[0])
    first = {}

    def step1(i):
        # values of this pass are decided by the vectorised-vs-single clauses
        first[i] = call(calls[i], 'first values')
    whole_pass(order, step1)
    kept = {i: np.array(v, dtype=float) for i, v in first.items()}
    pobj.fill(fills[1])
    second = {}

    def step2(i):
        second[i] = call(calls[i], 'objects refilled in place')
        compare(calls[i], second[i], 1, 'refill-value',
                'same argument objects, new values written into them')
    whole_pass(perm, step2)
    for i in order:
        if not np.array_equal(np.asarray(first[i], dtype=float), kept[i],
                              equal_nan=True):
            raise Violation(sig.format('result-aliased', calls[i][0]),
                            'the array returned by the first call of {} '
                            'changed during later calls'.format(calls[i][0]))
    wrote = 0
    again = [i for i in order if len(calls[i]) > 8 and calls[i][8]]
    for res in (first, second):
        for i in again:
            r = res[i]
            if isinstance(r, np.ndarray) and r.flags.writeable and r.size:
                r[...] = np.nan
                wrote += 1
    if wrote:
        def step3(i):
            third = call(calls[i], 'after the caller overwrote the results')
            compare(calls[i], third, 1, 'result-overwritten',
                    'same arguments again after the caller wrote into the '
                    'arrays returned before')
        whole_pass(again, step3)
    strata.append('history:' + form)
    if wrote:
        strata.append('history-results-overwritten')


# --------------------------------------------------------------------------
# slicing

def _slice_index(sl):
    a = sl['a']
    ai = int(a[1]) if a[0] == 'i' else slice(a[1], a[2], a[3])
    if sl.get('d') is None:
        return ai, ai
    return ai, (ai,) + tuple(slice(x[0], x[1], x[2]) for x in sl['d'])


def _snapshot(G, angles, dpts, divergent, n):
    cfg = {'translation': np.array(G.translation, dtype=float),
           'det_axes_init': np.atleast_2d(np.array(
               G.det_axis_init if n == 2 else G.det_axes_init, dtype=float)),
           'detector_class': type(G.detector).__name__,
           'det_curvature_radius': getattr(G.detector, 'radius', None)}
    if hasattr(G, 'axis'):
        cfg['axis'] = np.array(G.axis, dtype=float)
    if divergent:
        cfg['src_to_det_init'] = np.array(G.src_to_det_init, dtype=float)
        cfg['src_radius'] = G.src_radius
        cfg['det_radius'] = G.det_radius
        if n == 3:
            cfg['pitch'] = G.pitch
            cfg['offset_along_axis'] = G.offset_along_axis
    else:
        cfg['det_pos_init'] = np.array(G.det_pos_init, dtype=float)
    vals = []
    for a in angles:
        a = float(a)
        row = [np.array(G.det_refpoint(a), dtype=float)]
        if divergent:
            row.append(np.array(G.src_position(a), dtype=float))
        for d in dpts:
            row.append(np.array(G.det_point_position(a, d), dtype=float))
            row.append(np.array(G.det_to_src(a, d), dtype=float))
        vals.append(np.concatenate(row))
    return cfg, np.array(vals)


def _cmp_snapshot(new, old, tol, sig, what):
    cfg_n, val_n = new
    cfg_o, val_o = old
    for key in sorted(cfg_o):
        a, b = cfg_n.get(key), cfg_o[key]
        if isinstance(b, np.ndarray):
            same = _close(a, b, 64 * EPS * (1 + float(np.max(np.abs(b)))))[0]
        else:
            same = (a == b)
        if not same:
            raise Violation(sig.format('config:' + key),
                            '{}: {} = {} but the original geometry has {}'
                            ''.format(what, key, np.asarray(a).tolist()
                                      if isinstance(a, np.ndarray) else a,
                                      np.asarray(b).tolist()
                                      if isinstance(b, np.ndarray) else b))
    ok, err = _close(val_n, val_o, tol)
    if not ok:
        raise Violation(sig.format('values'),
                        '{}: positions / directions at the selected angles '
                        'differ from the original geometry by {:.3g} (tol '
                        '{:.3g})'.format(what, err, tol))


def _slice(geom, index, cname):
    dn = type(geom.detector).__name__
    try:
        return geom[index]
    except ValueError as e:
        if 'not perpendicular' in str(e) and _odl_frame(e):
            # known finding K10: the curved detectors compare the dot product
            # of their axes with 0.0 exactly; the axes the library re-derives
            # from the normalised rotation axis fail that test by rounding
            raise Violation(
                'C19|slice-raise|curved-axes-not-exactly-perpendicular|{}|{}'
                ''.format(cname, dn), str(e)[:300])
        raise Violation('C19|slice-raise|{}|{}|{}'.format(
            _odl_frame(e) or 'harness', cname, dn),
            '{}: {}'.format(type(e).__name__, str(e)[:300]))
    except Exception as e:  # noqa
        if _odl_frame(e) is None:
            raise
        raise Violation('C19|slice-raise|{}|{}|{}'.format(
            _odl_frame(e), cname, dn),
            '{}: {}'.format(type(e).__name__, str(e)[:300]))


def _check_slice(geom, ref, sl, cname, argcls, n, M, D, tol, dlo, dhi,
                 divergent, strata, passed):
    ai, index = _slice_index(sl)
    strata.append('slice:' + ('int' if sl['a'][0] == 'i' else
                              'step' if sl['a'][3] not in (None, 1)
                              else 'range') +
                  ('+det' if sl.get('d') is not None else ''))
    all_angles = np.array(geom.angles, dtype=float)
    sel = np.atleast_1d(all_angles[ai])
    want_part = geom.partition[index]
    want_dpart = want_part.byaxis[1:]
    lo = np.array(want_dpart.min_pt, dtype=float)
    hi = np.array(want_dpart.max_pt, dtype=float)
    dpts = [_single_arg([float(a + f * (b - a)) for a, b in zip(lo, hi)])
            for f in (0.1, 0.5, 0.9)]
    sub = sel[:6]
    sig = 'C19|slice|' + cname + '|{}|args=' + argcls
    before = _snapshot(geom, sub, dpts, divergent, n)
    s1 = _slice(geom, index, cname)
    if type(s1).__name__ != cname:
        raise Violation(sig.format('class'), type(s1).__name__)
    got_angles = np.atleast_1d(np.array(s1.angles, dtype=float))
    if got_angles.shape != sel.shape or not np.array_equal(got_angles, sel):
        raise Violation(sig.format('angles'),
                        'sliced angles {} expected {}'.format(
                            got_angles.tolist(), sel.tolist()))
    if s1.partition != want_part:
        raise Violation(sig.format('partition'),
                        'sliced partition {!r} expected {!r}'.format(
                            s1.partition, want_part))
    first = _snapshot(s1, sub, dpts, divergent, n)
    _cmp_snapshot(first, before, tol, sig, 'geom[{}]'.format(index))
    # values of the slice against the reference model too
    for a in sub[:3]:
        _require(s1.det_point_position(float(a), dpts[1]),
                 ref.detpos(float(a), dpts[1]), tol,
                 sig.format('values-ref'), 'sliced det_point_position')
    psig = 'C19|slice-purity|' + cname + '|{}'
    after = _snapshot(geom, sub, dpts, divergent, n)
    _cmp_snapshot(after, before, tol / 8, psig.format('parent-changed') + '|{}',
                  'the original geometry after slicing')
    _check_purity(passed, cname)
    if sl.get('repeat'):
        s2 = _slice(geom, index, cname)
        second = _snapshot(s2, sub, dpts, divergent, n)
        _cmp_snapshot(second, before, tol,
                      psig.format('second-slice-differs') + '|{}',
                      'the second geom[{}]'.format(index))
        again = _snapshot(s1, sub, dpts, divergent, n)
        _cmp_snapshot(again, first, tol / 8,
                      psig.format('first-slice-changed') + '|{}',
                      'the first slice after slicing again')
        strata.append('slice-repeat')


# --------------------------------------------------------------------------
# detectors built directly

def run_detector(desc):
    dd = desc['det']
    kind = dd['type']
    dname = DET_CLS[kind]
    cb = bool(dd.get('check_bounds', True))
    pat = desc['pat']
    strata = ['detector:' + kind, 'det:' + kind, 'pattern:' + pat['kind'],
              'check_bounds:' + str(cb), 'det-axes:' + dd.get('axes_mode', '?')]
    part = build_part(desc['dpart'])
    try:
        det = build_detector(dd, part)
    except ValueError as e:
        if 'not perpendicular' in str(e):
            return Outcome('rejected', strata=strata + [
                'rejected:curved-axes-not-exactly-perpendicular'])
        raise
    refdet = geomref.RefDetector(kind, dd['axes'], dd.get('radius'))
    dlo, dhi = _limits(desc['dpart'])
    dcomps = _params_from_fracs(pat['d'], dlo, dhi)
    probe = bool(desc.get('probe', True))
    strata.append('probe-known-regions:' + str(probe))
    dsingle = check_detector(det, refdet, kind, dlo, dhi, dcomps, cb, strata,
                             probe=probe)
    meas = dsingle['measure']
    col = _Collector()
    col.run(check_detector_vec, det, kind, dcomps, dsingle, strata)
    col.run(check_detector_bounds, det, kind, dlo, dhi, cb, refdet, strata)

    def bad_within():
        d3 = dlo[0] + np.array([0.2, 0.5, 0.8]) * (dhi[0] - dlo[0])
        d4 = dlo[1] + np.array([0.2, 0.4, 0.6, 0.8]) * (dhi[1] - dlo[1])
        for name in ('surface', 'surface_deriv'):
            try:
                out = getattr(det, name)((d3, d4))
            except Exception:  # noqa
                continue
            raise Violation('C19|bad-shapes|{}|{}|within-d'.format(name,
                                                                   dname),
                            'non-broadcastable parameter shapes accepted, '
                            'result shape {}'.format(_shape_of(out)))
        strata.append('bad-shapes:within-d')

    def history():
        hist = desc.get('hist') or {}
        form = hist.get('form', 'buffer')
        if form not in HIST_FORMS:
            raise HarnessError('unknown history form {!r}'.format(form))
        d2 = _params_from_fracs(_second_fracs(pat['d']), dlo, dhi)
        fills = [[list(dcomps)], [d2]]
        shape_d = _bshape(dcomps)
        ents = [_subset(list(_entries(f[0], shape_d))) for f in fills]
        calls = _detector_history_calls(det, refdet, len(dlo), shape_d, ents,
                                        [0], dsingle['tol'], 1.0)
        _check_history(calls, _ParamObjects(fills[0], form), fills, hist,
                       dname, strata)

    if pat.get('bad') == 'within-d' and len(dlo) == 2:
        col.run(bad_within)
    col.run(history)
    col.run(check_detector_measure_vec, det, kind, dcomps, meas, strata)
    col.finish()
    nontriv = (dd.get('axes_mode') != 'default' or kind in ('circ', 'cyl',
                                                            'sph')
               or _bshape(dcomps) != ())
    return Outcome('ok', strata=strata, nontrivial=nontriv)


# --------------------------------------------------------------------------
# factories

def _corners(mn, mx):
    import itertools
    return np.array(list(itertools.product(*zip(mn, mx))), dtype=float)


def _rotz_inv(pts, angles):
    """``Rz(-a) p`` for all angles and points: shape (A, P, ndim)."""
    c, s = np.cos(angles)[:, None], np.sin(angles)[:, None]
    x, y = pts[None, :, 0], pts[None, :, 1]
    out = [c * x + s * y, -s * x + c * y]
    if pts.shape[1] == 3:
        out.append(np.broadcast_to(pts[None, :, 2], out[0].shape))
    return np.stack(out, axis=-1)


def run_factory(desc):
    fac = desc['factory']
    sp = desc['space']
    nd = len(sp['shape'])
    mn, mx = np.array(sp['min'], float), np.array(sp['max'], float)
    shape = [int(s) for s in sp['shape']]
    strata = ['factory:{}|{}d'.format(fac, nd), 'factory:' + fac,
              'space-ndim:{}'.format(nd),
              'cells:' + ('1' if min(shape) == 1 else
                          'small' if max(shape) <= 10 else 'large'),
              'space:' + sp.get('mode', '?')]
    space = odl.uniform_discr(mn, mx, shape)
    corners = _corners(mn, mx)
    rho = float(np.max(np.sqrt(np.sum(corners[:, :2] ** 2, axis=1))))
    side = (mx - mn) / np.array(shape)
    min_side = float(min(side[:2]))
    omega = np.pi / min_side
    num_angles, det_shape = desc.get('num_angles'), desc.get('det_shape')
    kw = {}
    if num_angles is not None:
        kw['num_angles'] = int(num_angles)
        strata.append('num_angles:given')
    if det_shape is not None:
        kw['det_shape'] = (int(det_shape[0]) if nd == 2
                           else [int(v) for v in det_shape])
        strata.append('det_shape:given')
    rel = 1e-9

    if fac == 'parallel':
        fname = 'parallel_beam_geometry'
        geom = _call('C19|factory-raise', fname,
                     odl.tomo.parallel_beam_geometry, space, **kw)
        want = 'Parallel2dGeometry' if nd == 2 else 'Parallel3dAxisGeometry'
        g = {'cls': 'par2d' if nd == 2 else 'par3d_axis'}
    else:
        rs, rd = float(desc['src_radius']), float(desc['det_radius'])
        r = rs + rd
        if fac == 'cone':
            fname = 'cone_beam_geometry'
            if desc.get('short_scan'):
                kw['short_scan'] = True
                strata.append('short_scan')
            f = odl.tomo.cone_beam_geometry
            args = (space, rs, rd)
            want = 'FanBeamGeometry' if nd == 2 else 'ConeBeamGeometry'
            g = {'cls': 'fan' if nd == 2 else 'cone', 'src_radius': rs,
                 'det_radius': rd}
        else:
            fname = 'helical_geometry'
            turns = float(desc['num_turns'])
            n_pi = int(desc.get('n_pi', 1))
            kw['n_pi'] = n_pi
            f = odl.tomo.helical_geometry
            args = (space, rs, rd, turns)
            want = 'ConeBeamGeometry'
            g = {'cls': 'cone', 'src_radius': rs, 'det_radius': rd,
                 'pitch': float((mx[2] - mn[2]) / turns),
                 'offset': float(mn[2])}
            strata.append('n_pi:{}'.format(n_pi))
        if rs <= rho:
            # documented precondition: the source must be outside the volume
            try:
                f(*args, **kw)
            except ValueError:
                return Outcome('rejected', strata=strata + [
                    'rejected:source-inside-volume'])
            raise Violation('C19|factory-precondition|{}'.format(fname),
                            'src_radius {} <= rho {} accepted'.format(rs, rho))
        geom = _call('C19|factory-raise', fname, f, *args, **kw)
    if type(geom).__name__ != want:
        raise Violation('C19|factory-type|' + fname,
                        '{} for a {}d space'.format(type(geom).__name__, nd))

    angles = np.array(geom.angles, dtype=float)
    N = angles.size
    amin = float(geom.motion_params.min_pt[0])
    amax = float(geom.motion_params.max_pt[0])
    dmin = np.array(geom.det_params.min_pt, dtype=float)
    dmax = np.array(geom.det_params.max_pt, dtype=float)
    dshape = tuple(int(v) for v in geom.detector.shape)
    if num_angles is not None and N != int(num_angles):
        raise Violation('C19|factory-sampling|{}|num_angles'.format(fname),
                        '{} angles, {} requested'.format(N, num_angles))
    if det_shape is not None and dshape != tuple(
            int(v) for v in np.atleast_1d(det_shape)):
        raise Violation('C19|factory-sampling|{}|det_shape'.format(fname),
                        'detector shape {}, {} requested'.format(dshape,
                                                                 det_shape))

    # the returned geometry is the documented default configuration
    ref = geomref.RefGeometry(g)
    S = ref.scale() + float(np.max(np.abs(np.concatenate([dmin, dmax])))) + \
        abs(ref.pitch) * amax
    tol = K_TOL * EPS * S * (1 + amax) * 4
    dpts = [_single_arg([float(v) for v in dmin]),
            _single_arg([float(v) for v in dmax]),
            _single_arg([float(0.25 * a + 0.75 * b)
                         for a, b in zip(dmin, dmax)])]
    for a in angles[[0, N // 2, N - 1]] if N >= 3 else angles:
        a = float(a)
        for d in dpts:
            _require(geom.det_point_position(a, d), ref.detpos(a, d), tol,
                     'C19|factory-config|{}|det_point_position'.format(fname),
                     'det_point_position({}, {}) vs default configuration'
                     ''.format(a, d))
            ln = (float(np.sqrt(np.sum(ref.det2src(a, d, normalized=False)
                                       ** 2))) if ref.divergent else S)
            _require(geom.det_to_src(a, d), ref.det2src(a, d),
                     K_TOL * EPS * (1 + amax) * 8 * (1 + S / max(ln, 1e-300)),
                     'C19|factory-config|{}|det_to_src'.format(fname),
                     'det_to_src({}, {}) vs default configuration'.format(
                         a, d))
        if ref.divergent:
            _require(geom.src_position(a), ref.src(a), tol,
                     'C19|factory-config|{}|src_position'.format(fname),
                     'src_position({})'.format(a))

    loc = _rotz_inv(corners, angles)          # corners in the rotated frame
    ext = dmax - dmin

    def covered(vals, lo, hi, axis_name):
        slack = 1e-9 * (hi - lo + 1.0)
        worst = max(float(np.max(vals) - hi), float(lo - np.min(vals)))
        if worst > slack:
            raise Violation(
                'C19|factory-coverage|{}|{}'.format(fname, axis_name),
                'volume corners project up to {:.4g} ({:.3g} of the '
                'half-width) outside the detector range [{:.6g}, {:.6g}]; '
                'space [{}, {}] shape {}{}'.format(
                    worst, worst / (0.5 * (hi - lo)), lo, hi, mn.tolist(),
                    mx.tolist(), shape,
                    '' if fac == 'parallel' else
                    ', src_radius {} det_radius {}'.format(rs, rd)))

    if fac == 'parallel':
        if abs(amin) > 0 or abs(amax - np.pi) > 4 * EPS * np.pi:
            raise Violation('C19|factory-sampling|{}|range'.format(fname),
                            'angle range [{}, {}]'.format(amin, amax))
        if num_angles is None and np.pi / N > np.pi / (rho * omega) * (1 + rel):
            raise Violation('C19|factory-sampling|{}|angles'.format(fname),
                            '{} angles over pi: spacing {} > pi/(rho Omega) '
                            '= {}'.format(N, np.pi / N, np.pi / (rho * omega)))
        if det_shape is None and ext[0] / dshape[0] > np.pi / omega * (1 + rel):
            raise Violation('C19|factory-sampling|{}|detector'.format(fname),
                            'pixel size {} > pi/Omega = {}'.format(
                                ext[0] / dshape[0], np.pi / omega))
        if nd == 3:
            covered(corners[:, 2], dmin[1], dmax[1], 'vertical')
        covered(loc[..., 0], dmin[0], dmax[0], 'horizontal')
        strata.append('coverage-evaluated')
        return Outcome('ok', strata=strata, nontrivial=True)

    # divergent: default configuration, source at (0, -rs), detector plane
    # y = rd with axes e_x (and e_z), all rotated by the angle
    w = ext[0]
    full = 2 * np.pi * (1.0 if fac == 'cone' else turns)
    if fac == 'cone' and desc.get('short_scan'):
        fan_angle = 2 * np.arctan(0.5 * w / r)
        full = min(np.pi + fan_angle, 2 * np.pi)
    if abs(amin) > 0 or abs(amax - full) > 16 * EPS * full:
        raise Violation('C19|factory-sampling|{}|range'.format(fname),
                        'angle range [{}, {}], documented [0, {}]'.format(
                            amin, amax, full))
    if num_angles is None and \
            (amax - amin) / N > (r + rho) / r * np.pi / (rho * omega) * (1 + rel):
        raise Violation('C19|factory-sampling|{}|angles'.format(fname),
                        'angular spacing {} > (r+rho)/r pi/(rho Omega) = {}'
                        ''.format((amax - amin) / N,
                                  (r + rho) / r * np.pi / (rho * omega)))
    if det_shape is None and \
            w / dshape[0] > np.pi * np.hypot(r, w / 2) / (r * omega) * (1 + rel):
        raise Violation('C19|factory-sampling|{}|detector'.format(fname),
                        'pixel size {} > pi sqrt(r^2+(w/2)^2)/(r Omega) = {}'
                        ''.format(w / dshape[0],
                                  np.pi * np.hypot(r, w / 2) / (r * omega)))
    depth = rs + loc[..., 1]                  # distance along the central ray
    if np.min(depth) <= 0:
        raise HarnessError('corner behind the source')
    u = r * loc[..., 0] / depth
    if fac == 'helical':
        pitch = (mx[2] - mn[2]) / turns
        if abs(geom.pitch - pitch) > 8 * EPS * abs(pitch) or \
                geom.offset_along_axis != mn[2]:
            raise Violation('C19|factory-config|{}|pitch'.format(fname),
                            'pitch {} offset {}'.format(
                                geom.pitch, geom.offset_along_axis))
        z0 = float(geom.src_position(amin)[2])
        z1 = float(geom.src_position(amax)[2])
        ztol = 64 * EPS * (abs(mn[2]) + abs(mx[2]) + 1) * (1 + amax)
        if abs(z0 - mn[2]) > ztol or abs(z1 - mx[2]) > ztol:
            raise Violation('C19|factory-coverage|{}|axial'.format(fname),
                            'source travels from z={} to z={}, volume '
                            '[{}, {}]'.format(z0, z1, mn[2], mx[2]))
        need = n_pi * abs(pitch) / 4 * r / rs
        if min(dmax[1], -dmin[1]) < need * (1 - rel):
            raise Violation('C19|factory-coverage|{}|axial-window'.format(
                fname), 'detector half height {} < n_pi*pitch/4*(rs+rd)/rs '
                            '= {}'.format(min(dmax[1], -dmin[1]), need))
        strata.append('coverage-evaluated')
        return Outcome('ok', strata=strata, nontrivial=True)
    if not desc.get('probe', True):
        # input region of the known findings F31 / K1 (every volume)
        strata.append('probe-known-regions:False')
        return Outcome('ok', strata=strata, nontrivial=True,
                       notes={'excluded:C19-F31/K1': 1})
    if nd == 3:
        covered(r * loc[..., 2] / depth, dmin[1], dmax[1], 'vertical')
    covered(u, dmin[0], dmax[0], 'horizontal')
    strata.append('coverage-evaluated')
    return Outcome('ok', strata=strata, nontrivial=True)


# --------------------------------------------------------------------------
# geometry -> ASTRA vector conversions (pure NumPy, callable without ASTRA)

ASTRA_FUNCS = {'fan': 'astra_conebeam_2d_geom_to_vec',
               'cone': 'astra_conebeam_3d_geom_to_vec',
               'par3d_axis': 'astra_parallel_3d_geom_to_vec',
               'par3d_euler': 'astra_parallel_3d_geom_to_vec'}


def _pixel_centres(pd):
    """Grid points of a uniform partition descriptor (pixel centres)."""
    n, lo, hi = int(pd['n']), float(pd['min']), float(pd['max'])
    if pd.get('nob'):
        return lo + np.arange(n) * (hi - lo) / (n - 1)
    return lo + (np.arange(n) + 0.5) * (hi - lo) / n


def run_astra(desc):
    """Documented vector layout (docstrings + comments of astra_setup.py):

    cone_vec / parallel3d_vec rows ``(src | ray, d, u, v)``, every triple in
    ASTRA's (z, y, x) component order, ``d`` the centre of the detector,
    ``u`` the vector from detector pixel (0, 0) to (0, 1), ``v`` from (0, 0)
    to (1, 0); ``ray = -(detector-to-source vector)``.
    fanflat_vec rows ``(src, d, u)`` with the whole geometry rotated by
    -90 degrees ("we subtract pi/2 from the geometry angles").
    Hence, for an ``n0 x n1`` detector, pixel ``(i, j)`` has its centre at
    ``d + (i - (n0-1)/2) v + (j - (n1-1)/2) u``, which must be
    ``det_point_position`` at the (i, j)-th pixel-centre parameters, and
    ``src`` must be ``src_position`` - both taken from the reference model.
    """
    from odl.tomo.backends import astra_setup
    g = desc['g']
    cls = g['cls']
    cname = CLS[cls]
    n = geomref.NDIM[cls]
    fname = ASTRA_FUNCS[cls]
    mode = g.get('mode', 'ctor')
    dlo, dhi = _limits(desc['dpart'])
    offc = bool(np.any(np.abs(dlo + dhi) > 1e-12 * (dhi - dlo)))
    region = 'det-offcentre' if offc else 'det-centred'
    strata = ['astra-vec:' + fname, 'astra-cls:' + cls, 'mode:' + mode,
              'astra-' + region]
    if offc:
        strata.append('det-offcentre')
    for key, tag in (('pitch', 'astra-helical'), ('translation',
                                                  'astra-translation'),
                     ('src_shift', 'astra-shifted'), ('det_shift',
                                                      'astra-shifted')):
        if g.get(key):
            strata.append(tag)
    apart = build_part(desc['apart'])
    dpart = build_part(desc['dpart'])
    geom, _ = build_geometry(g, apart, dpart)
    ref = geomref.RefGeometry(g, src_shift=make_shift(g.get('src_shift'), n),
                              det_shift=make_shift(g.get('det_shift'), n))
    vec = np.asarray(_call('C19|astra-vec|raise', fname,
                           getattr(astra_setup, fname), geom), dtype=float)
    angles = np.array(geom.angles, dtype=float)
    params = angles[None, :] if angles.ndim == 1 else angles
    N = params.shape[1]
    width = 6 if n == 2 else 12
    sig = 'C19|astra-vec|' + fname + '|{}|' + region
    if vec.shape != (N, width):
        raise Violation(sig.format('shape'), 'shape {} expected {}'.format(
            vec.shape, (N, width)))
    mlo, mhi = _limits(desc['apart'])
    amax = float(max(np.max(np.abs(mlo)), np.max(np.abs(mhi))))
    S = (ref.scale() + abs(ref.pitch) * amax / (2 * np.pi) +
         _shift_mag(g.get('src_shift')) + _shift_mag(g.get('det_shift')) +
         float(max(np.max(np.abs(dlo)), np.max(np.abs(dhi)))))
    amp = _init_amp(g)
    tol = K_TOL * EPS * S * (1 + amax) * amp
    centres = [_pixel_centres(pd) for pd in desc['dpart']]
    shape = [len(c) for c in centres]
    mid = [float(0.5 * (a + b)) for a, b in zip(dlo, dhi)]
    rot90 = rr.rot2d(np.pi / 2)
    for k in range(N):
        m = [float(v) for v in params[:, k]]
        marg = _single_arg(m)
        row = vec[k]
        if n == 2:
            head, d, u = (rot90.dot(row[2 * i:2 * i + 2]) for i in range(3))
            v = None
        else:
            head, d, u, v = (row[3 * i:3 * i + 3][::-1] for i in range(4))
        if ref.divergent:
            _require(head, ref.src(marg), tol, sig.format('src'),
                     'row {} (angle {}): source position'.format(k, m))
        else:
            _require(head, -ref.det2src(marg, _single_arg(mid)),
                     K_TOL * EPS * (1 + amax) * amp, sig.format('ray'),
                     'row {} (angles {}): ray direction'.format(k, m))
        corners = sorted({(i, j) for i in (0, shape[0] - 1)
                          for j in ((0, shape[1] - 1) if n == 3 else (0,))})
        for i, j in corners:
            if n == 2:
                got = d + (i - (shape[0] - 1) / 2.0) * u
                darg = float(centres[0][i])
            else:
                got = (d + (i - (shape[0] - 1) / 2.0) * v +
                       (j - (shape[1] - 1) / 2.0) * u)
                darg = [float(centres[0][i]), float(centres[1][j])]
            _require(got, ref.detpos(marg, darg), tol,
                     sig.format('pixel-centres'),
                     'row {} (angle {}): centre of detector pixel {} from '
                     '(d, u, v) vs det_point_position at parameter {}'
                     ''.format(k, m, (i, j) if n == 3 else i, darg))
    return Outcome('ok', strata=strata, nontrivial=True)


# --------------------------------------------------------------------------
# rotation helpers of odl.tomo.util.utility called directly

def _arr_or_scalar(v):
    return float(v) if np.shape(v) == () else np.array(v, dtype=float)


def run_util(desc):
    """The documented rotation helpers with the argument forms their
    docstrings admit (all geometry classes are built on them):

    euler_matrix(phi[, theta[, psi]])  "ZXZ"; a ``None`` among three angles
        "is equivalent to 0.0"; shape ``broadcast(phi, theta, psi).shape +
        (ndim, ndim)``;
    axis_rotation_matrix(axis, angle)  Rodrigues, unit axis;
    axis_rotation(axis, angle, vectors, axis_shift)  rotation about the line
        through ``axis_shift`` ("only shifts perpendicular to axis matter");
    rotation_matrix_from_to(u, v)  a rotation taking u/|u| to v/|v|, about
        ``u x v`` (Notes);
    perpendicular_vector(vec)  same shape, ``dot(vec, perp_vec) == 0`` along
        the last axis.
    """
    from odl.tomo.util import utility as ut
    fn = desc['fn']
    strata = ['util:' + fn, 'util']
    sig = 'C19|util|' + fn + '|{}'

    def rotation(R, want, ang, where):
        t = K_TOL * EPS * (1 + ang)
        if _shape_of(R) != _shape_of(want):
            raise Violation(sig.format('shape'), '{}: shape {}'.format(
                where, _shape_of(R)))
        R = np.asarray(R, dtype=float)
        if rr.orthonormality_defect(R) > t or abs(rr.det(R) - 1.0) > t:
            raise Violation(sig.format('orthonormal'),
                            '{}: R = {} (R^T R - I = {:.3g}, det {})'.format(
                                where, R.tolist(),
                                rr.orthonormality_defect(R), rr.det(R)))
        _require(R, want, t, sig.format('value'), where)

    if fn == 'euler_matrix':
        angs = [None if a is None else _arr_or_scalar(a)
                for a in desc['angles']]
        strata.append('util-euler:' + ''.join(
            'n' if a is None else 's' if np.shape(a) == () else 'a'
            for a in angs))
        given = [a for a in angs if a is not None]
        shape = np.broadcast(*given).shape
        nd = 2 if len(angs) == 1 else 3
        keep = [None if a is None else np.array(a) for a in angs]
        got = _call('C19|util|raise', fn, ut.euler_matrix, *angs)
        if _shape_of(got) != tuple(shape) + (nd, nd):
            raise Violation(sig.format('shape'),
                            'shape {} expected {} + ({}, {})'.format(
                                _shape_of(got), tuple(shape), nd, nd))
        full = [np.broadcast_to(0.0 if a is None else a, shape)
                for a in angs]
        got = np.asarray(got, dtype=float)
        for idx in np.ndindex(*shape):
            v = [float(f[idx]) for f in full]
            want = rr.rot2d(v[0]) if nd == 2 else rr.euler_zxz(*v)
            rotation(got[idx], want, max(abs(x) for x in v),
                     'euler_matrix at {}'.format(v))
        for a, k in zip(angs, keep):
            if a is not None and not np.array_equal(a, k):
                raise Violation(sig.format('argument-modified'),
                                'angle array changed from {} to {}'.format(
                                    k.tolist(), np.asarray(a).tolist()))
        return Outcome('ok', strata=strata, nontrivial=True)

    if fn in ('axis_rotation_matrix', 'axis_rotation'):
        axis = rr.unit(desc['axis'])
        axis_arg = axis if desc.get('argtype') == 'array' else axis.tolist()
        ang = _arr_or_scalar(desc['angle'])
        if fn == 'axis_rotation_matrix':
            shape = np.shape(ang)
            got = _call('C19|util|raise', fn, ut.axis_rotation_matrix,
                        axis_arg, ang)
            if _shape_of(got) != tuple(shape) + (3, 3):
                raise Violation(sig.format('shape'),
                                'shape {} expected {} + (3, 3)'.format(
                                    _shape_of(got), tuple(shape)))
            got = np.asarray(got, dtype=float)
            for idx in np.ndindex(*shape):
                a = float(np.asarray(ang)[idx])
                rotation(got[idx], rr.rodrigues(axis, a), abs(a),
                         'axis_rotation_matrix({}, {})'.format(
                             axis.tolist(), a))
            strata.append('util-angle-rank:{}'.format(len(shape)))
            return Outcome('ok', strata=strata, nontrivial=True)
        vec = np.array(desc['vectors'], dtype=float)
        vec_arg = vec.copy() if desc.get('argtype') == 'array' \
            else vec.tolist()
        kw = {}
        shift = np.zeros(3)
        if desc.get('shift') is not None:
            shift = np.array(desc['shift'], dtype=float)
            kw['axis_shift'] = (shift.copy() if desc.get('argtype') == 'array'
                                else shift.tolist())
            strata.append('util-axis-shift')
        got = _call('C19|util|raise', fn, ut.axis_rotation, axis_arg,
                    float(ang), vec_arg, **kw)
        got = np.asarray(got, dtype=float)
        rows = np.atleast_2d(vec)
        if got.size != rows.size or got.shape[-1] != 3:
            raise Violation(sig.format('shape'), 'shape {} for vectors of '
                            'shape {}'.format(got.shape, vec.shape))
        centre = shift - np.dot(axis, shift) * axis
        R = rr.rodrigues(axis, float(ang))
        want = np.array([centre + R.dot(v - centre) for v in rows])
        S = 1.0 + float(np.max(np.abs(rows))) + float(np.max(np.abs(shift)))
        _require(got.reshape(rows.shape), want,
                 K_TOL * EPS * (1 + abs(float(ang))) * S, sig.format('value'),
                 'axis_rotation({}, {}, {}, axis_shift={})'.format(
                     axis.tolist(), float(ang), vec.tolist(), shift.tolist()))
        for name, a, k in (('vectors', vec_arg, vec),
                           ('axis_shift', kw.get('axis_shift'), shift)):
            if isinstance(a, np.ndarray) and not np.array_equal(a, k):
                raise Violation(sig.format('argument-modified'),
                                '{} changed from {} to {}'.format(
                                    name, k.tolist(), a.tolist()))
        strata.append('util-vectors-rank:{}'.format(vec.ndim))
        return Outcome('ok', strata=strata, nontrivial=True)

    if fn == 'rotation_matrix_from_to':
        u = np.array(desc['u'], dtype=float)
        v = np.array(desc['v'], dtype=float)
        got = _call('C19|util|raise', fn, ut.rotation_matrix_from_to,
                    u.tolist(), v.tolist())
        nd = len(u)
        # vectors keep >= 0.1 rad from collinear: arccos amplification <= 12
        t = 12 * K_TOL * EPS
        if _shape_of(got) != (nd, nd):
            raise Violation(sig.format('shape'), 'shape {}'.format(
                _shape_of(got)))
        got = np.asarray(got, dtype=float)
        if rr.orthonormality_defect(got) > t or abs(rr.det(got) - 1) > t:
            raise Violation(sig.format('orthonormal'), 'R = {}'.format(
                got.tolist()))
        _require(got.dot(rr.unit(u)), rr.unit(v), t, sig.format('maps'),
                 'R u/|u| vs v/|v| for u = {}, v = {}'.format(
                     u.tolist(), v.tolist()))
        _require(got, rr.rotation_from_to(u, v), t, sig.format('value'),
                 'rotation about u x v (Notes)')
        strata.append('util-from-to:{}d'.format(nd))
        return Outcome('ok', strata=strata, nontrivial=True)

    if fn == 'perpendicular_vector':
        vec = np.array(desc['vec'], dtype=float)
        arg = vec.copy() if desc.get('argtype') == 'array' else vec.tolist()
        got = _call('C19|util|raise', fn, ut.perpendicular_vector, arg)
        if _shape_of(got) != vec.shape:
            raise Violation(sig.format('shape'), 'shape {} for input shape '
                            '{}'.format(_shape_of(got), vec.shape))
        got = np.asarray(got, dtype=float)
        dots = np.sum(got * vec, axis=-1)
        lens = np.sqrt(np.sum(got * got, axis=-1))
        vlen = np.sqrt(np.sum(vec * vec, axis=-1))
        if not np.all(np.isfinite(got)) or np.any(lens == 0) or \
                np.any(np.abs(dots) > 8 * EPS * lens * vlen):
            raise Violation(sig.format('perpendicular'),
                            'perpendicular_vector({}) = {}: dot products {}'
                            ''.format(vec.tolist(), got.tolist(),
                                      np.asarray(dots).tolist()))
        if isinstance(arg, np.ndarray) and not np.array_equal(arg, vec):
            raise Violation(sig.format('argument-modified'),
                            'vec changed to {}'.format(arg.tolist()))
        strata.append('util-perp:rank{}|{}d'.format(vec.ndim,
                                                     vec.shape[-1]))
        return Outcome('ok', strata=strata, nontrivial=True)
    raise HarnessError('unknown util function {!r}'.format(fn))


def run_case(desc):
    kind = desc['kind']
    if kind == 'util':
        return run_util(desc)
    try:
        if kind == 'geom':
            return run_geom(desc)
        if kind == 'detector':
            return run_detector(desc)
        if kind == 'astra-vec':
            return run_astra(desc)
    except _Excluded as e:
        return Outcome('excluded', strata=['excluded:' + e.fid],
                       notes={'excluded:' + e.fid: 1})
    if kind == 'factory':
        return run_factory(desc)
    raise HarnessError('unknown case kind {!r}'.format(kind))


# --------------------------------------------------------------------------
# strategies

SCALES = [1.0, 1.0, 0.5, 2.0, 3.75, 10.0, 0.25]
FRACS = st.one_of(st.sampled_from([0.0, 1.0, 0.5, 0.25, 0.75]),
                  st.floats(0.0, 1.0).map(_r))


def _round_vec(v):
    return [_r(x) for x in np.asarray(v, dtype=float)]


def _perp_frame(d):
    d = rr.unit(d)
    h = np.eye(3)[int(np.argmin(np.abs(d)))]
    p1 = rr.unit(np.cross(d, h))
    return d, p1, np.cross(d, p1)


@st.composite
def _dir_near(draw, default, lo=0.1, hi=np.pi - 0.1):
    """Unit 3-vector at an angle in [lo, hi] from ``default``."""
    th = draw(st.sampled_from([np.pi / 2, np.pi / 2, None]))
    if th is None or not (lo <= th <= hi):
        th = draw(st.floats(lo, hi))
    ph = draw(st.floats(0.0, 2 * np.pi))
    d, p1, p2 = _perp_frame(default)
    return np.cos(th) * d + np.sin(th) * (np.cos(ph) * p1 + np.sin(ph) * p2)


@st.composite
def _any_dir(draw, n):
    if n == 2:
        a = draw(st.floats(0.0, 2 * np.pi))
        return np.array([np.cos(a), np.sin(a)])
    z = draw(st.floats(-1.0, 1.0))
    a = draw(st.floats(0.0, 2 * np.pi))
    s = np.sqrt(max(0.0, 1 - z * z))
    return np.array([s * np.cos(a), s * np.sin(a), z])


@st.composite
def _principal(draw, default, allow_none=True):
    """``(mode, vector or None)`` for a principal vector with the given
    documented default (2-D or 3-D)."""
    default = np.asarray(default, dtype=float)
    n = len(default)
    modes = ['same', 'anti', 'unitvec', 'generic', 'generic', 'generic']
    if allow_none:
        modes += ['default', 'default']
    mode = draw(st.sampled_from(modes))
    sc = draw(st.sampled_from(SCALES))
    if mode == 'default':
        return mode, None
    if mode == 'same':
        return mode, [float(x) for x in sc * default]
    if mode == 'anti':
        return mode, [float(x) for x in -sc * default]
    if mode == 'unitvec':
        others = [s * e for e in np.eye(n) for s in (1.0, -1.0)
                  if abs(np.dot(e, default)) < 0.5]
        v = others[draw(st.integers(0, len(others) - 1))]
        return mode, [float(x) for x in sc * v]
    if n == 2:
        th = draw(st.floats(0.1, np.pi - 0.1)) * draw(
            st.sampled_from([1.0, -1.0]))
        v = rr.rot2d(th).dot(default)
    else:
        v = draw(_dir_near(default))
    return mode, _round_vec(sc * v)


@st.composite
def _det_axes(draw, n, curved):
    """``(mode, axes or None)``."""
    mode = draw(st.sampled_from(['default', 'default', 'explicit',
                                 'explicit']))
    if mode == 'default':
        return mode, None
    if n == 2:
        v = draw(_any_dir(2)) * draw(st.sampled_from(SCALES))
        return 'generic', [_round_vec(v)]
    if curved:
        pair = draw(st.sampled_from(EXACT_PAIRS))
        sc = draw(st.sampled_from([1.0, 1.0, 2.0, 0.5]))
        return 'exact', [[float(sc * x) for x in v] for v in pair]
    a0 = draw(_any_dir(3))
    skew = draw(st.sampled_from(['orth', 'orth', 'skew']))
    if skew == 'orth':
        _, p1, p2 = _perp_frame(a0)
        ph = draw(st.floats(0.0, 2 * np.pi))
        a1 = np.cos(ph) * p1 + np.sin(ph) * p2
    else:
        a1 = draw(_dir_near(a0, 0.3, np.pi - 0.3))
    s0, s1 = draw(st.sampled_from(SCALES)), draw(st.sampled_from(SCALES))
    return skew, [_round_vec(s0 * a0), _round_vec(s1 * a1)]


@st.composite
def _translation(draw, n):
    mode = draw(st.sampled_from(['none', 'none', 'generic', 'int']))
    if mode == 'none':
        return 'default', None
    if mode == 'int':
        return mode, [float(draw(st.integers(-4, 4))) for _ in range(n)]
    return mode, [_r(draw(st.floats(-5, 5))) for _ in range(n)]


@st.composite
def _matrix(draw, n, exact_only=False):
    kinds = ['perm'] if exact_only else ['rot', 'rot', 'refl', 'scaled',
                                         'perm', 'shear']
    kind = draw(st.sampled_from(kinds))
    if kind == 'perm':
        perm = draw(st.permutations(list(range(n))))
        signs = [draw(st.sampled_from([1.0, -1.0])) for _ in range(n)]
        A = np.zeros((n, n))
        for i, (p, s) in enumerate(zip(perm, signs)):
            A[p, i] = s
        A = A * draw(st.sampled_from([1.0, 1.0, 2.0, 0.5]))
    else:
        if n == 2:
            A = rr.rot2d(draw(st.floats(0, 2 * np.pi)))
        else:
            A = rr.euler_zxz(draw(st.floats(0, 2 * np.pi)),
                             draw(st.floats(0.0, np.pi)),
                             draw(st.floats(0, 2 * np.pi)))
        if kind == 'refl':
            flip = np.ones(n)
            flip[draw(st.integers(0, n - 1))] = -1.0
            A = A.dot(np.diag(flip))
        elif kind == 'scaled':
            A = A * draw(st.sampled_from([0.5, 2.0, 3.75, 10.0]))
        elif kind == 'shear':
            T = np.eye(n)
            T[0, n - 1] = draw(st.floats(-0.4, 0.4))
            A = A.dot(T)
        A = np.array([[_r(x) for x in row] for row in A])
    if draw(st.booleans()):
        shift = [_r(draw(st.floats(-5, 5))) for _ in range(n)]
        A = np.column_stack([A, shift])
        kind += '+shift'
    return kind, [[float(x) for x in row] for row in A]


@st.composite
def _shift_desc(draw, k, allow_list):
    kinds = ['const', 'sin', 'sin', 'lin'] + (['constlist'] if allow_list
                                              else [])
    kind = draw(st.sampled_from(kinds))
    sd = {'kind': kind,
          'c': [_r(draw(st.floats(-0.5, 0.5))) for _ in range(k)]}
    if kind == 'sin':
        sd['amp'] = [_r(draw(st.floats(-0.5, 0.5))) for _ in range(k)]
        sd['phase'] = [_r(draw(st.floats(0, 6.0))) for _ in range(k)]
        sd['freq'] = draw(st.sampled_from([1.0, 2.0, 0.5, 3.0]))
    elif kind == 'lin':
        sd['b'] = [_r(draw(st.floats(-0.1, 0.1))) for _ in range(k)]
    return sd


@st.composite
def _part1d(draw, lo, hi, nmax=12, nmin=1, uniform=False):
    n = draw(st.integers(nmin, nmax))
    t = 'u' if uniform else draw(st.sampled_from(['u', 'u', 'u', 'n']))
    if t == 'n' and n >= 2:
        fr = sorted(set(_r(f) for f in draw(st.lists(
            st.floats(0.02, 0.98), min_size=n, max_size=n))))
        pts = [float(lo + f * (hi - lo)) for f in fr]
        pts = [p for p in pts if lo < p < hi]
        if len(pts) >= 2 and all(b - a > 1e-6 * (hi - lo)
                                 for a, b in zip(pts, pts[1:])):
            return {'t': 'n', 'min': float(lo), 'max': float(hi), 'pts': pts}
    nob = draw(st.booleans()) if n >= 2 else False
    return {'t': 'u', 'min': float(lo), 'max': float(hi), 'n': n, 'nob': nob}


@st.composite
def _angle_part(draw, nmax=12, long=False):
    lo = draw(st.sampled_from([0.0, 0.0, 0.0, -np.pi, None]))
    if lo is None:
        lo = _r(draw(st.floats(-2.0, 2.0)))
    ext = draw(st.sampled_from([np.pi, 2 * np.pi, 2 * np.pi, None] +
                               ([4 * np.pi, 6 * np.pi] if long else [])))
    if ext is None:
        ext = _r(draw(st.floats(0.3, 7.0)))
    return draw(_part1d(float(lo), float(lo + ext), nmax=nmax))


@st.composite
def _flat_part(draw, nmax=8, uniform=False):
    mode = draw(st.sampled_from(['sym', 'sym', 'asym', 'offcentre']))
    w = draw(st.sampled_from([1.0, 2.0, None, None]))
    if w is None:
        w = _r(draw(st.floats(0.1, 30.0)))
    if mode == 'sym':
        lo, hi = -w, w
    elif mode == 'asym':
        lo, hi = -w, _r(w * draw(st.floats(0.1, 2.0)))
    else:
        lo = _r(w * draw(st.floats(0.1, 1.0)))
        hi = lo + w
    return draw(_part1d(float(lo), float(hi), nmax=nmax, uniform=uniform))


@st.composite
def _arc_part(draw, lim, nmax=8):
    lo = -_r(draw(st.floats(0.05, lim)))
    hi = _r(draw(st.floats(0.05, lim)))
    if draw(st.integers(0, 5)) == 0:
        lo = _r(hi * 0.25)          # off-centre arc
    return draw(_part1d(float(lo), float(hi), nmax=nmax))


def _det_parts(kind, uniform=False):
    if uniform:
        # ASTRA vector geometries: flat detectors with equal pixels
        return st.tuples(*[_flat_part(8, uniform=True) for _ in range(
            1 if kind == 'flat1d' else 2)]).map(list)
    if kind == 'flat1d':
        return st.tuples(_flat_part(12)).map(list)
    if kind == 'circ':
        return st.tuples(_arc_part(1.4, 12)).map(list)
    if kind == 'flat2d':
        return st.tuples(_flat_part(), _flat_part()).map(list)
    if kind == 'cyl':
        return st.tuples(_arc_part(1.4), _flat_part()).map(list)
    return st.tuples(_arc_part(1.4), _arc_part(1.2)).map(list)


def _fr_array(draw, shape):
    size = int(np.prod(shape, dtype=int))
    vals = draw(st.lists(FRACS, min_size=size, max_size=size))
    return np.array(vals, dtype=float).reshape(shape).tolist()


@st.composite
def _pattern(draw, M, D, restricted=False, joint=True):
    """Fractions of the parameter intervals, shaped by the pattern kind."""
    if restricted:
        kinds = ['scalar', 'm1d', 'd1d', 'pairs1d', 'size1']
    else:
        kinds = ['scalar', 'm1d', 'd1d', 'pairs1d', 'pairs1d', 'pairs2d',
                 'outer', 'outer', 'mesh', 'mesh', 'size1', 'rankmix']
        if M + D >= 3:
            kinds += ['mixed', 'mixed']
    if not joint:
        kinds = ['scalar', 'd1d', 'pairs2d', 'mesh', 'mixed'] if D == 2 \
            else ['scalar', 'd1d', 'pairs2d']
    kind = draw(st.sampled_from(kinds))
    k = draw(st.integers(1, 4))
    ll = draw(st.integers(1, 3))
    ms, ds = [()] * M, [()] * D
    if kind == 'm1d':
        ms = [(k,)] * M
    elif kind == 'd1d':
        ds = [(k,)] * D
    elif kind == 'pairs1d':
        ms, ds = [(k,)] * M, [(k,)] * D
    elif kind == 'pairs2d':
        ms, ds = [(k, ll)] * M, [(k, ll)] * D
    elif kind == 'outer':
        ms, ds = [(k, 1)] * M, [(1, ll)] * D
    elif kind == 'size1':
        ms, ds = [(k,)] * M, [(1,)] * D
        if draw(st.booleans()):
            ms, ds = [(1,)] * M, [(k,)] * D
    elif kind == 'mesh':
        T = M + D if joint else D
        sizes = [draw(st.integers(1, 3 if T <= 3 else 2)) for _ in range(T)]
        shapes = []
        for i in range(T):
            shp = [1] * T
            shp[i] = sizes[i]
            shapes.append(tuple(shp))
        if joint:
            ms, ds = shapes[:M], shapes[M:]
        else:
            ds = shapes
    elif kind == 'mixed':
        # rank-1 arrays and scalars mixed inside a parameter tuple
        T = M + D
        flags = [draw(st.booleans()) for _ in range(T)]
        if all(flags) or not any(flags):
            flags[0], flags[-1] = True, False
        if not joint:
            flags = [False] * M + [True, False] if draw(st.booleans()) \
                else [False] * M + [False, True]
        shapes = [(k,) if f else () for f in flags]
        ms, ds = shapes[:M], shapes[M:]
    elif kind == 'rankmix':
        var = draw(st.sampled_from(['s-2d', '2d-s', '1d-2d']))
        if var == 's-2d':
            ds = [(k, ll)] * D
        elif var == '2d-s':
            ms = [(k, ll)] * M
        else:
            ms, ds = [(ll,)] * M, [(k, ll)] * D
    pat = {'kind': kind,
           'm': [_fr_array(draw, s) if s else draw(FRACS) for s in ms],
           'd': [_fr_array(draw, s) if s else draw(FRACS) for s in ds]}
    if draw(st.integers(0, 5)) == 0:
        opts = ['md'] if joint else []
        if M > 1 and joint:
            opts.append('within-m')
        if D > 1:
            opts.append('within-d')
        if opts:
            pat['bad'] = draw(st.sampled_from(opts))
    return pat


@st.composite
def _slice_desc(draw, n_angles, dparts):
    if n_angles < 1:
        return None
    sl = {}
    form = draw(st.sampled_from(['range', 'step', 'step', 'int']))
    if form == 'int':
        sl['a'] = ['i', draw(st.integers(-n_angles, n_angles - 1))]
    else:
        start = draw(st.integers(0, n_angles - 1))
        stop = draw(st.integers(start + 1, n_angles))
        step = 1 if form == 'range' else draw(st.integers(1, 3))
        sl['a'] = ['s', draw(st.sampled_from([start, start, None]))
                   if start == 0 else start,
                   draw(st.sampled_from([stop, stop, None]))
                   if stop == n_angles else stop,
                   draw(st.sampled_from([1, None])) if step == 1 else step]
    if draw(st.integers(0, 3)) == 0:
        d = []
        for p in dparts:
            nn = p['n'] if p['t'] == 'u' else len(p['pts'])
            a = draw(st.integers(0, nn - 1))
            b = draw(st.integers(a + 1, nn))
            d.append([a, b, draw(st.sampled_from([None, 1, 2]))])
        sl['d'] = d
    sl['repeat'] = draw(st.booleans())
    return sl


def _ncells(p):
    return p['n'] if p['t'] == 'u' else len(p['pts'])


@st.composite
def _hist_desc(draw):
    """Container of the parameter values and the call order of the second
    pass of the history clause (sort keys; ties keep the reverse order)."""
    return {'form': draw(st.sampled_from(['buffer', 'buffer', 'view',
                                          'readonly', 'list'])),
            'order': draw(st.lists(st.integers(0, 3), min_size=3,
                                   max_size=3))}


@st.composite
def _geom_case(draw, astra=False):
    cls = draw(st.sampled_from(
        ['fan', 'fan', 'cone', 'cone', 'cone', 'par3d_axis', 'par3d_axis',
         'par3d_euler'] if astra else
        ['par2d', 'par3d_axis', 'par3d_euler', 'par3d_euler', 'fan', 'fan',
         'cone', 'cone', 'cone']))
    n = geomref.NDIM[cls]
    dflt = geomref.DEFAULTS[cls]
    g = {'cls': cls, 'check_bounds': draw(st.sampled_from([True, True, True,
                                                           False])),
         'argtype': draw(st.sampled_from(['list', 'list', 'tuple', 'array',
                                          'array', 'iarray']))}
    divergent = cls in ('fan', 'cone')
    curv = None
    if divergent:
        g['src_radius'] = draw(st.sampled_from([1.0, 5.0, None, None, 0.0]))
        if g['src_radius'] is None:
            g['src_radius'] = _r(draw(st.floats(0.5, 20.0)))
        g['det_radius'] = draw(st.sampled_from([1.0, 10.0, None, None, 0.0]))
        if g['det_radius'] is None or (g['det_radius'] == 0.0 and
                                       g['src_radius'] == 0.0):
            g['det_radius'] = _r(draw(st.floats(0.5, 20.0)))
        if not astra and draw(st.booleans()):
            rc = draw(st.sampled_from([None, None, 2.0, 10.0]))
            if rc is None:
                rc = _r(draw(st.floats(0.5, 30.0)))
            if n == 2:
                curv = rc
            else:
                curv = draw(st.sampled_from([[rc, None], [rc, 'inf'],
                                             [rc, rc], [rc, rc]]))
        g['curv'] = curv
    kind = _det_kind(g)
    curved3 = kind in ('cyl', 'sph')
    mode = draw(st.sampled_from(['ctor', 'ctor', 'ctor', 'frommatrix']))
    g['mode'] = mode
    if mode == 'frommatrix':
        g['mkind'], g['matrix'] = draw(_matrix(n, exact_only=curved3))
    else:
        pkey = dflt['principal']
        g[pkey + '_mode'], g[pkey] = draw(_principal(dflt[pkey]))
        if cls == 'par3d_axis':
            m2 = draw(st.sampled_from(['default', 'default', 'generic']))
            g['det_pos_init_mode'] = m2
            g['det_pos_init'] = None if m2 == 'default' else _round_vec(
                draw(_any_dir(3)) * draw(st.sampled_from(SCALES)))
        if cls == 'cone':
            m2 = draw(st.sampled_from(['default', 'default', 'generic']))
            g['src_to_det_init_mode'] = m2
            if m2 == 'default':
                g['src_to_det_init'] = None
            else:
                ax = dflt['axis'] if g['axis'] is None else g['axis']
                g['src_to_det_init'] = _round_vec(
                    draw(_dir_near(ax, 0.2, np.pi - 0.2)) *
                    draw(st.sampled_from(SCALES)))
        g['det_axes_init_mode'], g['det_axes_init'] = draw(
            _det_axes(n, curved3))
        g['translation_mode'], g['translation'] = draw(_translation(n))
    shifted = False
    if divergent:
        if cls == 'cone':
            if draw(st.booleans()):
                g['pitch'] = draw(st.sampled_from([2.0, -1.5, None]))
                if g['pitch'] is None:
                    g['pitch'] = _r(draw(st.floats(0.1, 5.0)))
            if draw(st.integers(0, 2)) == 0:
                g['offset'] = _r(draw(st.floats(-3.0, 3.0)))
        if draw(st.integers(0, 3)) == 0:
            shifted = True
            which = draw(st.sampled_from(['src', 'det', 'both']))
            if which in ('src', 'both'):
                g['src_shift'] = draw(_shift_desc(n, False))
            if which in ('det', 'both'):
                g['det_shift'] = draw(_shift_desc(n, True))
    if cls == 'par3d_euler':
        M = draw(st.sampled_from([2, 3, 3]))
        apart = [draw(_angle_part(nmax=3)) for _ in range(M)]
    else:
        M = 1
        apart = [draw(_angle_part(long=bool(g.get('pitch'))))]
    dpart = draw(_det_parts(kind, uniform=astra))
    if astra:
        return {'kind': 'astra-vec', 'g': g, 'apart': apart, 'dpart': dpart}
    desc = {'kind': 'geom', 'probe': draw(st.integers(0, 4)) == 0,
            'g': g, 'apart': apart, 'dpart': dpart,
            'pat': draw(_pattern(M, len(dpart), restricted=shifted)),
            'group': [draw(FRACS), draw(FRACS)], 'slice': None,
            'hist': draw(_hist_desc())}
    if cls != 'par3d_euler' and draw(st.integers(0, 2)) == 0:
        desc['slice'] = draw(_slice_desc(_ncells(apart[0]), dpart))
    return desc


@st.composite
def _detector_case(draw):
    kind = draw(st.sampled_from(['flat1d', 'flat2d', 'circ', 'cyl', 'cyl',
                                 'sph', 'sph']))
    n = 2 if kind in ('flat1d', 'circ') else 3
    dd = {'type': kind, 'check_bounds': draw(st.sampled_from([True, True,
                                                              False])),
          'argtype': draw(st.sampled_from(['list', 'tuple', 'array']))}
    if kind in ('circ', 'cyl', 'sph'):
        dd['radius'] = draw(st.sampled_from([1.0, 2.0, 10.0, None]))
        if dd['radius'] is None:
            dd['radius'] = _r(draw(st.floats(0.3, 40.0)))
    mode, axes = draw(_det_axes(n, kind in ('cyl', 'sph')))
    if axes is None:
        mode, axes = 'default', [[1.0, 0.0]] if n == 2 else [
            [1.0, 0.0, 0.0], [0.0, 0.0, 1.0]]
    dd['axes_mode'], dd['axes'] = mode, axes
    dpart = draw(_det_parts(kind))
    return {'kind': 'detector', 'probe': draw(st.integers(0, 4)) == 0,
            'det': dd, 'dpart': dpart,
            'pat': draw(_pattern(0, len(dpart), joint=False)),
            'hist': draw(_hist_desc())}


@st.composite
def _factory_case(draw):
    fac = draw(st.sampled_from(['parallel', 'cone', 'cone', 'helical']))
    nd = 3 if fac == 'helical' else draw(st.sampled_from([2, 3]))
    mode = draw(st.sampled_from(['centred', 'offcentre', 'offcentre',
                                 'generic']))
    cells = draw(st.sampled_from(['1', 'small', 'small', 'large']))
    mn, mx, shape = [], [], []
    for i in range(nd):
        ext = draw(st.sampled_from([2.0, None, None]))
        if ext is None:
            ext = _r(draw(st.floats(0.2, 10.0)))
        if mode == 'centred':
            lo = -ext / 2
        elif mode == 'offcentre':
            lo = -ext / 2 + _r(draw(st.floats(-1.0, 1.0)) * ext)
        else:
            lo = _r(draw(st.floats(-5.0, 5.0)))
        mn.append(float(lo))
        mx.append(float(lo + ext))
        if cells == '1':
            shape.append(draw(st.sampled_from([1, 1, 2])))
        elif cells == 'small':
            shape.append(draw(st.integers(2, 10)))
        else:
            shape.append(draw(st.integers(11, 50)))
    desc = {'kind': 'factory', 'probe': draw(st.booleans()),
            'factory': fac,
            'space': {'min': mn, 'max': mx, 'shape': shape, 'mode': mode},
            'num_angles': None, 'det_shape': None}
    corners = _corners(mn[:2], mx[:2])
    rho = float(np.max(np.sqrt(np.sum(corners ** 2, axis=1))))
    min_side = min((mx[i] - mn[i]) / shape[i] for i in range(2))
    ratio = rho / min_side
    if ratio > 120 or draw(st.integers(0, 3)) == 0:
        desc['num_angles'] = draw(st.integers(1, 40))
    if ratio > 120 or draw(st.integers(0, 3)) == 0:
        desc['det_shape'] = [draw(st.integers(1, 30)) for _ in range(nd - 1)]
    if fac != 'parallel':
        f = draw(st.sampled_from([1.05, 1.5, 2.0, 5.0, 50.0, None, None]))
        if f is None:
            f = draw(st.floats(1.02, 8.0))
        if draw(st.integers(0, 19)) == 0:
            f = draw(st.sampled_from([1.0, 0.5]))      # documented rejection
        desc['src_radius'] = _r(rho * f) if f != 1.0 else rho
        gfac = draw(st.sampled_from([0.0, 1.0, None, None]))
        if gfac is None:
            gfac = draw(st.floats(0.1, 5.0))
        desc['det_radius'] = _r(rho * gfac)
        if fac == 'cone':
            desc['short_scan'] = draw(st.booleans())
        else:
            desc['num_turns'] = draw(st.sampled_from([1.0, 2.0, 0.5, 3.5]))
            desc['n_pi'] = draw(st.sampled_from([1, 1, 3]))
            if desc['num_angles'] is None and ratio * desc['num_turns'] > 120:
                desc['num_angles'] = draw(st.integers(1, 40))
    return desc


@st.composite
def _angle_vals(draw, shape):
    special = st.sampled_from([0.0, np.pi / 2, np.pi, -np.pi / 2, 2 * np.pi])
    one = st.one_of(special, st.floats(-7.0, 7.0).map(_r))
    if shape is None:
        return draw(one)
    size = int(np.prod(shape, dtype=int))
    vals = draw(st.lists(one, min_size=size, max_size=size))
    return np.array(vals, dtype=float).reshape(shape).tolist()


@st.composite
def _util_case(draw):
    fn = draw(st.sampled_from(['euler_matrix', 'euler_matrix',
                               'axis_rotation_matrix', 'axis_rotation',
                               'axis_rotation', 'rotation_matrix_from_to',
                               'perpendicular_vector']))
    desc = {'kind': 'util', 'fn': fn,
            'argtype': draw(st.sampled_from(['list', 'array']))}
    if fn == 'euler_matrix':
        count = draw(st.sampled_from([1, 2, 3, 3]))
        k, ll = draw(st.integers(1, 3)), draw(st.integers(1, 3))
        shapes = draw(st.sampled_from([
            [None] * 3, [(k,)] * 3, [(k, ll)] * 3,
            [(k, 1), (1, ll), None], [None, (k,), (k,)],
            [(k,), None, None], [(k, 1, 1), (1, ll, 1), (1, 1, 2)]]))
        angles = [draw(_angle_vals(shp)) for shp in shapes[:count]]
        if count == 3:
            drop = draw(st.sampled_from([None, None, 1, 2]))
            if drop is not None:
                angles[drop] = None
        desc['angles'] = angles
    elif fn in ('axis_rotation_matrix', 'axis_rotation'):
        desc['axis'] = [float(x) for x in draw(st.one_of(
            st.sampled_from([[0.0, 0.0, 1.0], [1.0, 0.0, 0.0],
                             [0.0, -1.0, 0.0]]), _any_dir(3)))]
        if fn == 'axis_rotation_matrix':
            k, ll = draw(st.integers(1, 3)), draw(st.integers(1, 3))
            desc['angle'] = draw(_angle_vals(draw(st.sampled_from(
                [None, (k,), (k, ll), (1,)]))))
        else:
            desc['angle'] = draw(_angle_vals(None))
            nvec = draw(st.sampled_from([None, 1, 2, 4]))
            vec = st.lists(st.floats(-5, 5).map(_r), min_size=3, max_size=3)
            desc['vectors'] = draw(vec) if nvec is None else draw(
                st.lists(vec, min_size=nvec, max_size=nvec))
            desc['shift'] = draw(st.one_of(st.none(), vec))
    elif fn == 'rotation_matrix_from_to':
        if draw(st.booleans()):
            u = draw(_any_dir(2))
            th = draw(st.floats(0.1, np.pi - 0.1)) * draw(
                st.sampled_from([1.0, -1.0]))
            v = rr.rot2d(th).dot(u)
        else:
            u = draw(_any_dir(3))
            v = draw(_dir_near(u))
        desc['u'] = _round_vec(u * draw(st.sampled_from(SCALES)))
        desc['v'] = _round_vec(v * draw(st.sampled_from(SCALES)))
    else:
        n = draw(st.sampled_from([2, 3, 3]))
        lead = draw(st.sampled_from([(), (1,), (3,), (2, 2)]))
        size = int(np.prod(lead, dtype=int))
        rows = []
        for _ in range(size):
            form = draw(st.sampled_from(['generic', 'generic', 'unit',
                                         'last-only']))
            if form == 'generic':
                v = [_r(draw(st.floats(-5, 5))) for _ in range(n)]
                if not any(v):
                    v[0] = 1.0
            elif form == 'unit':
                v = [0.0] * n
                v[draw(st.integers(0, n - 1))] = draw(
                    st.sampled_from([1.0, -2.0]))
            else:
                v = [0.0] * (n - 1) + [_r(draw(st.floats(0.5, 5)))]
            rows.append(v)
        desc['vec'] = np.array(rows, dtype=float).reshape(
            tuple(lead) + (n,)).tolist()
    return desc


def strategy(tier):
    return st.one_of(_geom_case(), _geom_case(), _geom_case(), _geom_case(),
                     _geom_case(), _geom_case(), _geom_case(),
                     _detector_case(), _factory_case(),
                     _geom_case(astra=True), _util_case())


REQUIRED_STRATA = [
    'cls:par2d', 'cls:par3d_axis', 'cls:par3d_euler', 'cls:fan', 'cls:cone',
    'euler-angles:2', 'euler-angles:3', 'det:flat1d', 'det:flat2d',
    'det:circ', 'det:cyl', 'det:sph', 'mode:frommatrix', 'matrix:refl',
    'matrix:rot+shift', 'helical', 'offset_along_axis', 'src_shift:sin',
    'det_shift:constlist', 'pattern:scalar', 'pattern:mesh',
    'pattern:outer', 'pattern:mixed', 'pattern:pairs2d', 'bad-shapes:md',
    'check_bounds:False', 'slice:step', 'slice:int', 'slice-repeat',
    'group-law', 'fd-checked', 'apart:n', 'detector:cyl', 'detector:sph',
    'detector:flat2d', 'factory:parallel', 'factory:cone',
    'factory:helical', 'coverage-evaluated', 'axis:generic', 'axis:anti',
    'det_pos_init:generic', 'src_to_det_init:generic',
    'det_axes_init:skew', 'det_axes_init:exact', 'translation:generic',
    'astra-vec:astra_conebeam_3d_geom_to_vec',
    'astra-vec:astra_conebeam_2d_geom_to_vec',
    'astra-vec:astra_parallel_3d_geom_to_vec', 'det-offcentre',
    'history:buffer', 'history:view', 'history:readonly', 'history:list',
    'angles-direct', 'util:euler_matrix', 'util:axis_rotation_matrix',
    'util:axis_rotation', 'util:rotation_matrix_from_to',
    'util:perpendicular_vector', 'util-axis-shift',
]
