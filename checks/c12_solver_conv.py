"""C12 - solvers decrease what they promise and converge to optimality.

Generator: small problems with *known answers by construction*.
 * linear systems: SPD matrices Q diag(lam) Q^T (self-adjoint for the
   constant-weighted inner products drawn here) with prescribed spectrum
   (condition strata 1 .. 1e4, clustered spectra), general operators (dense
   matrices with prescribed singular values incl. rank-deficient ones,
   Gradient / Divergence on tiny grids, Broadcast / ProductSpaceOperator /
   Reduction blocks, identity / scaling / multiply), consistent and
   inconsistent right-hand sides;
 * **same-space operators whose in-place evaluation is not alias-safe**
   (stratum ``*:square-inplace``, hit by construction in every clause that
   takes an operator): PartialDerivative / Laplacian and sums / compositions
   with them on uniform grids, full 2 x 2 block operators with off-diagonal
   blocks on X x X (blocks: matrices, stencils, or the four blocks of one
   matrix with prescribed singular values).  `op(x, out=x)` gives a wrong
   result for these, so a solver that saves a temporary by re-using one
   buffer for input and output when ``op.domain == op.range`` goes wrong
   here and only here.  CG sees the same regime through an SPD matrix cut
   into blocks and through -Laplacian with zero boundary values; pdhg /
   admm_linearized (one operator) get a single such operator on purpose;
 * documented options: `projection` of landweber / kaczmarz (metric
   projection onto a box), `l` of douglas_rachford_pd / forward_backward_pd
   (Huber terms handed over as infimal convolution), callable `lam`,
   BacktrackingLineSearch called directly (descent / ascent direction,
   plain callable with dir_derivative and max_num_iter),
   power_method_opnorm(maxiter=None), CG started at the solution;
 * non-smooth problems  min phi(x) + 1/2||Ax - b||^2 + sum_i g_i(L_i x)  and
   min phi(x) s.t. Lx = b  **built backwards from their solution**
   (vlib.problems.build_nonsmooth): x*, the certificates
   y_i in subdiff g_i(L_i x*), s in subdiff phi(x*) are chosen first, b is
   solved from the optimality system, so the KKT system holds by
   construction and x* is the unique minimiser.
Only operators whose library adjoint is exact (C05's Gram identity, computed
in the same run) are used; the rest is counted as ``excluded`` (F04).

Oracles: monotonicity invariants at every callback (CG energy error, CGN /
Landweber residual, Kaczmarz distance to a solution, steepest-descent
objective under BacktrackingLineSearch), the documented Landweber / Kaczmarz
iteration formula re-computed in NumPy with the true adjoint matrix, the
Armijo condition of a direct line-search call, finite termination of CG and CGN
reaching the least-squares residual, the power-method bound, the documented
admissibility inequalities of the step-size helpers, and for the non-smooth
solvers (i) a solution is a fixed point, (ii) bounded calibrated progress
from a random start, (iii) the KKT residual at the reached point through
sub-gradient inclusion distance with reference sub-differentials.
"""
import numpy as np
from hypothesis import strategies as st

from vlib import problems as pb
from vlib.core import Violation, Outcome, HarnessError
from vlib.problems import odl, S, unflat, toflat, wnorm

PROPERTY = 'C12'
TECHNIQUE = ('Hypothesis property-based testing with problems built '
             'backwards from their solution: invariant checking at every '
             'callback, fixed-point / bounded-progress / KKT-inclusion '
             'oracles from NumPy reference sub-differentials; descriptor '
             'replay')
LEVEL_TEXT = ('Generated-input search over solver x problem family x '
              'operator kind x functional class x condition stratum x step '
              'fraction x start point. Safety-type clauses (monotone '
              'quantities, fixed points, norm bound, step-size inequalities) '
              'are decided exactly per case from independent linear algebra; '
              'liveness is asserted only in bounded form against a '
              'calibration table measured on the unchanged tree and relaxed '
              'x10 in iterations and >= x100 in accuracy. Exploration, not '
              'proof.')
LEVEL_NOTE = ('Trusted: NumPy/LAPACK SVD, lstsq, scipy lsq_linear (BVLS) for '
              'the inclusion distance, the reference sub-differentials in '
              'vlib/problems.py, forward evaluation of the ODL operators '
              '(matrices) and the library inner product (Gram diagonals). '
              'The proximal operators themselves are C07\'s subject; a '
              'wrong proximal surfaces here as non-convergence. Not '
              'asserted: convergence of pdhg with theta < 1, of '
              'accelerated_proximal_gradient with gamma > 1/L, rates.')
DESIGN_REF = 'DESIGN.md section 5, C12'
BUDGET = {'quick': 1500, 'thorough': 12000}

SLACK = 1e-10
TOLERANCES = {
    'monotone': 'q_k <= q_{k-1} * (1 + 1e-10) + 1e-13 * scale at every '
                'callback (CGN / Landweber residual, Kaczmarz distance, '
                'steepest-descent objective); CGN only until its normal-'
                'equation residual reaches 1e-10 of its start; after that '
                'point r_k <= r_conv * (1 + 1e-6) + 1e-10 * scale (known '
                'finding C12-K3: it grows without bound)',
    'cg_energy': 'strict decrease e_k < e_{k-1} while e_{k-1} > '
                 '1e-11 * cond * e_0 + 1e-12 * cond * (||x*||_A + e_0); '
                 '||x_n - x*|| <= 1e-8 * cond * ||x_0 - x*|| + 1e-12 * cond '
                 '* (||x*|| + ||x_0 - x*||) after n = dim steps for cond <= '
                 '1e2 (measured: 3e-9 at cond 1e2, 8e-4 at cond 1e3 - finite '
                 'termination is lost to rounding beyond); x100 after d '
                 'steps for d < n distinct eigenvalues',
    'cgn_ls': 'min_{k<=n} r_k <= r_LS + 1e-6 * cond^2 * ||rhs|| for cond <= 10 '
              '(measured gap / ||rhs||: 1e-7 at cond 10, 0.2 at cond 1e2 - '
              'finite termination of CG on the normal equations is lost to '
              'rounding beyond)',
    'power': '||A x0|| / ||x0|| * (1 - 1e-10) <= estimate <= sigma_max * '
             '(1 + 1e-10) (also for maxiter=None with the default rtol / '
             'atol)',
    'projection': 'projected Landweber from a feasible start: same residual '
                  'rule (f(x+) <= f(x) - (1/omega - ||A||^2/2)||x+ - x||^2); '
                  'Kaczmarz with projection onto a box containing the '
                  'solution: same distance rule (projection non-expansive)',
    'cg_at_solution': 'max |x_k - x*| <= 1e-12 max|x*| when rhs = op(x*) '
                      '(initial residual exactly zero)',
    'iteration': 'landweber and kaczmarz (fixed order, inner-loop callback): '
                 'the k-th observed iterate equals the documented iteration '
                 'x <- x - omega A^*(A x - rhs) (then the projection) carried '
                 'out in NumPy with the true adjoint matrix, max-norm '
                 'deviation <= 1e-10 k max(|iterates|, |x0|, |x*|)',
    'armijo': 'direct BacktrackingLineSearch call: f(x + s d) <= f(x) - '
              'discount |s <grad f(x), d>| (1 - 1e-9) + 1e-12 |f(x0)| with '
              'reference values / gradient; sign(s) = + along -grad, - along '
              '+grad; skipped when |<grad, d>| <= 1e-9 |f(x)|',
    'stepsize': 'tau*sigma*||L||^2 < 1 (pdhg), tau*sum sigma_i ||L_i||^2 < '
                '4 (DR) strictly; documented default formulas to 1e-12 '
                'relative; given values returned unchanged',
    'fixed_point': '||x_k - x*|| <= 1e-9 * scale for k = 1..5',
    'progress': '||x_K - x*|| <= rho * ||x_0 - x*|| with (K, rho = 1e-2) '
                'from the calibration table CALIB (measured iteration '
                'counts x10 capped at 4000, rho x100), 4K before a miss '
                'counts; runs below 0.1 * start at 4K (slow tails) get 32K '
                '(not the block-operator problems on X x X: 4K; measured '
                'maximum 583 iterations over 412 such problems)',
    'stability': 'rate class hi (condition / scale-mismatch number > 12): '
                 'only ||x_k - x*|| <= 1e3 max(||x_0 - x*||, scale) for k <= '
                 '300 (the run ends early once within 1e-3 ||x_0 - x*||)',
    'kkt': 'inclusion distance with delta-enlarged reference '
           'sub-differentials (delta from eps = rho*||x0-x*||) <= '
           '2 * (||A||^2 + sum ||L_i||^2 Lip_i) * eps + 1e-9 * scale',
}
ASSUMPTIONS = [
    'only operators with an exact library adjoint (defect <= 1e-10): '
    'unweighted or equally constant-weighted matrices, finite differences '
    'on uniform grids without boundary nodes, blocks thereof',
    'step sizes strictly inside the documented admissible regions, computed '
    'from exact operator norms (SVD), never from op.norm(estimate=True)',
    'pdhg progress is asserted for theta = 1 only; accelerated proximal '
    'gradient for gamma <= 1/L',
    'liveness only in bounded calibrated form; budgets are iteration '
    'counts; a time-out is a harness matter',
    'kaczmarz(random=True) with np.random re-seeded from the descriptor '
    'before each run; power_method_opnorm with explicit xstart',
    'BacktrackingLineSearch raising at a point whose reference gradient is '
    'below rounding level is termination at the optimum (documented)',
    '`l` argument of douglas_rachford_pd / forward_backward_pd: only the '
    'split lam*Huber_gamma = (lam||.||_1) box (1/(2t)||.||^2), t = gamma/lam '
    'in [0.4, 2.5]; forward_backward_pd steps then satisfy the documented '
    'condition with nu = min(t, 1/t) (admissible under both readings of '
    'the docstring: grad l^* nu-Lipschitz / l nu-strongly convex)',
    'projections are metric projections onto boxes (diagonal Gram matrices); '
    'projected Landweber starts inside the box, the Kaczmarz box contains '
    'the solution',
    'power_method_opnorm(maxiter=None) on non-self-adjoint operators is the '
    'region of known finding C12-K4 (excluded by construction, counted, '
    'probed once per run through its replay)',
]
RULE = ('Hypothesis draws (clause, solver, domain, operators, functionals, '
        'condition stratum, step fractions, options, seed); operators '
        'include, by construction in every clause, same-space operators '
        'with non-alias-safe in-place evaluation (stencils, full block '
        'operators; strata *:square-inplace); problems are constructed '
        'from the solution, never filtered; non-trivial = the condition '
        'number exceeds 1 or a non-smooth term is active at x* (zero entries '
        'of L x* for norms, active bounds) and the start differs from the '
        'solution; distinct by sha1 of the descriptor')

NS_SOLVERS = ['pdhg', 'dr', 'fb', 'proxgrad', 'accel', 'admm']
NS_NAMES = {'pdhg': 'pdhg', 'dr': 'douglas_rachford_pd',
            'fb': 'forward_backward_pd', 'proxgrad': 'proximal_gradient',
            'accel': 'accelerated_proximal_gradient',
            'admm': 'admm_linearized'}
LIN_CLAUSES = ['cg', 'cgn', 'landweber', 'kaczmarz', 'steepest', 'power',
               'stepsize']

# Calibration (bounded liveness).  Measured on the unchanged tree with the
# generator below (forward_backward_pd on the equality-constrained family: on
# a scratch copy with its x_old aliasing repaired, see known finding C12-K1):
# number of iterations until ||x_k - x*|| <= 1e-4 ||x_0 - x*||, maximum over
# the sampled problems of each (solver, family, rate class) row -- the
# numbers in MEASURED (40..930 problems per row, 8500 problems in all; 16000
# = not reached within the measurement cap).  Asserted: ||x_K - x*|| <= RHO
# ||x_0 - x*|| with RHO = 1e-2 (x100 weaker) within K = min(10 x measured
# maximum, K_CAP) iterations; a miss is re-run with 4K before it counts.
# K_CAP bounds the cost of a failing case (counts, never wall time).  Most
# rows hit the cap, so the asserted accuracy was also measured directly:
# over 5500 generated problems the largest number of iterations needed to
# reach 1e-2 was 1043 (admm, strong, mid; next 1019, 964, 909), i.e. a margin
# of 15 against 4 K_CAP = 16000.  The 1e-4 column has heavy tails (sublinear
# phases of the primal-dual methods), which is why the asserted accuracy is
# two orders weaker.  Accelerated pdhg (gamma_primal / gamma_dual, rows
# 'pdhg+primal' / 'pdhg+dual') uses the default (K_CAP, RHO): measured
# directly at 1e-2 over 570 problems it needs at most 794 iterations
# (pdhg+primal, strong, mid; pdhg+dual at most 130).
MEASURED = {
    ('accel', 'strong', 'lo'): 183, ('accel', 'strong', 'mid'): 462,
    ('admm', 'eqcon', 'lo'): 636,
    ('admm', 'kl', 'lo'): 377, ('admm', 'kl', 'mid'): 2921,
    ('admm', 'strong', 'lo'): 2572, ('admm', 'strong', 'mid'): 2631,
    ('dr', 'eqcon', 'lo'): 2429,
    ('dr', 'kl', 'lo'): 335, ('dr', 'kl', 'mid'): 882,
    ('dr', 'strong', 'lo'): 1260, ('dr', 'strong', 'mid'): 16000,
    ('fb', 'eqcon', 'lo'): 728,
    ('fb', 'kl', 'lo'): 127, ('fb', 'kl', 'mid'): 7110,
    ('fb', 'strong', 'lo'): 8672, ('fb', 'strong', 'mid'): 7810,
    ('pdhg', 'eqcon', 'lo'): 421,
    ('pdhg', 'kl', 'lo'): 1627, ('pdhg', 'kl', 'mid'): 160,
    ('pdhg', 'strong', 'lo'): 10830, ('pdhg', 'strong', 'mid'): 2360,
    ('proxgrad', 'strong', 'lo'): 456, ('proxgrad', 'strong', 'mid'): 1271,
}
RHO = 1e-2
K_CAP = 4000
CALIB = {k: (min(10 * max(v, 100), K_CAP), RHO) for k, v in MEASURED.items()}
CALIB_DEFAULT = (K_CAP, RHO)
K_STABILITY = 300
RHO_SLOW = 0.1          # progress required by 4K to qualify for the extension
SLOW_FACTOR = 8         # extension for slowly but visibly converging runs


# --------------------------------------------------------------------------
# strategy

@st.composite
def _domain_st(draw, kinds=('tensor', 'tensor', 'discr', 'pspace')):
    k = draw(st.sampled_from(list(kinds)))
    if k == 'tensor':
        return draw(pb.tensor_domain_st(2, 8))
    if k == 'discr':
        return draw(pb.discr_domain_st())
    if k == 'sqpspace':
        # X x X: domain (and range) of full block operators [[A, B], [C, D]]
        base = draw(st.one_of(pb.tensor_domain_st(1, 4, weighted=False),
                              pb.discr_domain_st(two_d=False)))
        if base['kind'] == 'discr':
            base['shape'] = [min(base['shape'][0], 4)]
            base['max'] = [base['min'][0] + 0.5 * base['shape'][0]]
        return {'kind': 'pspace', 'base': base, 'power': 2,
                'weighting': None, 'exponent': 2.0, 'square': True}
    if k == 'vfield':
        base = draw(pb.discr_domain_st())
        if len(base['shape']) == 1:
            base['shape'] = [min(base['shape'][0], 5)]
            base['max'] = [base['min'][0] + 0.5 * base['shape'][0]]
        return {'kind': 'pspace', 'base': base, 'power': len(base['shape']),
                'weighting': None, 'exponent': 2.0}
    parts = [draw(pb.tensor_domain_st(1, 4, weighted=False))
             for _ in range(2)]
    return {'kind': 'pspace', 'parts': parts, 'power': None,
            'weighting': None, 'exponent': 2.0}


SQ_KINDS = ('discr', 'sqpspace')       # domains of the operators below
KERNEL_PADS = ['symmetric', 'periodic', 'order0', 'order1']


@st.composite
def _sq_op_st(draw, sd, conds=(1.0, 3.0, 10.0), nullspace=False,
              known_cond=False):
    """Same-space operator whose in-place evaluation is NOT alias-safe
    (`op(x, out=x)` is wrong), on a discretized space or on X x X:

    * PartialDerivative / Laplacian (and sums / compositions with them):
      the stencil is evaluated through the output array;
    * full block operator [[A, B], [C, D]] with off-diagonal blocks: the
      block-wise evaluation into `out` reads components of x after others
      were written.  Blocks: matrices / stencils / simple operators, or the
      four blocks of ONE matrix with prescribed singular values (then the
      conditioning, and with it the asserted rate class, is known).

    With ``nullspace`` the kernel is non-trivial by construction; with
    ``known_cond`` block operators over rn(n) are always of the second
    kind."""
    if sd['kind'] == 'discr':
        if not nullspace:
            return draw(pb.stencil_op_st(sd))
        # stencils that annihilate the constants
        if draw(st.booleans()):
            return {'kind': 'laplacian',
                    'pad_mode': draw(st.sampled_from(KERNEL_PADS[:3]))}
        return {'kind': 'partial',
                'axis': draw(st.integers(0, len(sd['shape']) - 1)),
                'method': draw(st.sampled_from(pb.GRAD_METHODS)),
                'pad_mode': draw(st.sampled_from(KERNEL_PADS))}
    if sd['base']['kind'] == 'tensor' and (known_cond or
                                           draw(st.booleans())):
        return {'kind': 'pso_cut',
                'svals': draw(pb.svals_st(2 * sd['base']['shape'][0],
                                          conds, rank_deficient=nullspace)),
                'seed': draw(st.integers(0, 2 ** 20))}
    od = draw(pb.square_block_op_st(sd['base']))
    if nullspace:
        # equal block rows
        od['blocks'][0] = [o if o is not None else {'kind': 'identity'}
                           for o in od['blocks'][0]]
        od['blocks'][1] = list(od['blocks'][0])
    return od


@st.composite
def _op_st(draw, sd, conds=(1.0, 3.0, 10.0, 100.0), nullspace=False,
           simple_ok=True, compound_ok=True):
    """Operator on the domain ``sd``; with ``nullspace`` one whose kernel is
    non-trivial (so that L x* = 0 has non-zero solutions)."""
    if sd['kind'] == 'tensor':
        n = sd['shape'][0]
        if nullspace:
            if draw(st.booleans()):
                m = draw(st.integers(1, n - 1))
                return {'kind': 'matrix', 'm': m,
                        'svals': draw(pb.svals_st(m, conds)),
                        'seed': draw(st.integers(0, 2 ** 20))}
            return draw(pb.matrix_op_st(n, conds, mmin=2,
                                        rank_deficient=True, explicit=False))
        choices = ['matrix'] * 3 + (['simple'] if simple_ok else []) + \
            (['broadcast'] if compound_ok else [])
        c = draw(st.sampled_from(choices))
        if c == 'matrix':
            return draw(pb.matrix_op_st(
                n, conds, rank_deficient=draw(st.integers(0, 4)) == 0))
        if c == 'simple':
            return draw(pb.simple_op_st())
        return {'kind': 'broadcast',
                'ops': [draw(pb.matrix_op_st(n, conds)),
                        draw(st.one_of(pb.simple_op_st(),
                                       pb.matrix_op_st(n, conds)))]}
    if sd['kind'] == 'discr':
        if nullspace:
            if draw(st.integers(0, 2)):
                return draw(pb.gradient_op_st(pads=KERNEL_PADS))
            return draw(_sq_op_st(sd, conds, nullspace=True))
        choices = ['gradient'] * 3 + ['stencil'] * 2 + \
            (['simple'] if simple_ok else []) + \
            (['broadcast'] if compound_ok else [])
        c = draw(st.sampled_from(choices))
        if c == 'gradient':
            return draw(pb.gradient_op_st())
        if c == 'stencil':
            return draw(_sq_op_st(sd, conds))
        if c == 'simple':
            return draw(pb.simple_op_st())
        return {'kind': 'broadcast',
                'ops': [draw(pb.gradient_op_st()),
                        draw(st.one_of(pb.simple_op_st(),
                                       pb.stencil_op_st(sd,
                                                        compound=False)))]}
    if sd.get('square') or (sd.get('power') == 2 and not nullspace and
                            draw(st.booleans())):
        if not nullspace and simple_ok and draw(st.integers(0, 5)) == 0:
            return draw(pb.simple_op_st())
        return draw(_sq_op_st(dict(sd, square=True), conds, nullspace))
    if sd.get('power') is not None:
        return {'kind': 'divergence',
                'method': draw(st.sampled_from(pb.GRAD_METHODS)),
                'pad_mode': draw(st.sampled_from(pb.GRAD_PADS))}
    parts = sd['parts']
    c = 'reduction' if nullspace else draw(st.sampled_from(
        ['pso', 'pso', 'reduction'] + (['simple'] if simple_ok else [])))
    if c == 'simple':
        return draw(pb.simple_op_st())
    if c == 'reduction':
        m = draw(st.integers(1, 3))
        return {'kind': 'reduction',
                'ops': [draw(pb.matrix_op_st(p['shape'][0], [1.0, 10.0],
                                             mmin=m, mmax=m, explicit=False))
                        for p in parts]}
    blocks = []
    for _ in range(draw(st.integers(1, 3))):
        m = draw(st.integers(1, 3))
        row = [draw(pb.matrix_op_st(p['shape'][0], [1.0, 10.0], mmin=m,
                                    mmax=m, explicit=False))
               if draw(st.booleans()) else None for p in parts]
        if all(o is None for o in row):
            j = draw(st.integers(0, len(parts) - 1))
            row[j] = draw(pb.matrix_op_st(parts[j]['shape'][0], [1.0],
                                          mmin=m, mmax=m, explicit=False))
        blocks.append(row)
    return {'kind': 'pso', 'blocks': blocks}


def _range_func_st(sd, od, kinds):
    cls = pb.range_class(od, pb.space_class(sd))
    return pb.func_on_class_st(cls, kinds, sepsum=False)


@st.composite
def _data_op_st(draw, sd, conds):
    """Injective data operator A (or None = identity)."""
    if draw(st.integers(0, 2)) == 0:
        return None
    if sd['kind'] == 'tensor':
        n = sd['shape'][0]
        return draw(pb.matrix_op_st(n, conds, injective=True, mmax=9,
                                    explicit=False))
    k = draw(st.sampled_from(['scaling', 'multiply']))
    if k == 'scaling':
        return {'kind': 'scaling',
                'scalar': draw(st.sampled_from([2.0, -1.5, 0.5]))}
    return {'kind': 'multiply', 'seed': draw(st.integers(0, 2 ** 20))}


TERM_KINDS = ('l1', 'l1', 'l2', 'groupl1', 'groupl1', 'l2sq', 'box', 'huber',
              'zero')
PHI_KINDS = ('zero', 'l1', 'l2', 'box', 'nonneg')
ZC_PHI_KINDS = ('zero', 'box', 'l1', 'l2')


@st.composite
def _ns_case_st(draw, solver, clause, sq=False):
    """Non-smooth problem descriptor + mapping + step fractions.  ``sq``
    (strongly convex family only): the first term carries a same-space
    operator with non-alias-safe in-place evaluation (`_sq_op_st`); pdhg /
    admm_linearized, which take ONE operator (a BroadcastOperator as soon as
    there is a second term or a separate data term), then get exactly this
    operator: f = 1/2||. - b||^2, g o L with L: X -> X."""
    families = ['strong'] * 4
    if solver in ('pdhg', 'dr', 'fb', 'admm') and \
            (clause == 'progress' or solver == 'pdhg'):
        families.append('eqcon')
    if solver in ('pdhg', 'dr', 'fb', 'admm', 'proxgrad', 'accel'):
        families.append('kl') if solver not in ('proxgrad', 'accel') \
            else None
    family = draw(st.sampled_from(families))
    # accelerated pdhg: gamma_primal needs f strongly convex (the mapping
    # with f = 1/2||x - b||^2, modulus 1), gamma_dual needs g^* strongly
    # convex (all terms smooth: the data term, lam||. - b||^2 with modulus
    # 1/(2 lam), lam Huber_gamma with modulus gamma/lam)
    accel = 'none'
    if solver == 'pdhg' and family != 'eqcon':
        accel = draw(st.sampled_from(['none', 'none', 'primal', 'dual']))
        if accel == 'dual':
            family = 'strong'
    zero_cert = clause == 'fixed' and solver in ('fb', 'dr', 'admm')
    nullspace = clause == 'fixed' and solver in ('dr', 'admm')
    if zero_cert and family != 'strong':
        family = 'strong'
    conds = [1.0, 1.0, 3.0, 3.0, 10.0]
    if draw(st.integers(0, 9)) == 0:
        conds = [1e2, 1e3, 1e4]
    p = {'seed': draw(st.integers(0, 2 ** 24)),
         # the progress clause measures the primal error relative to its
         # start: keep x*, the start error and the O(1) dual certificates
         # on comparable scales (a tiny primal start error next to an O(1)
         # dual distance makes the *relative* primal target arbitrarily
         # expensive); the fixed-point clause also draws small scales
         'xscale': draw(st.sampled_from([1.0, 1.0, 5.0] if
                                        clause == 'progress'
                                        else [1.0, 5.0, 0.2])),
         'start_scale': draw(st.sampled_from([1.0, 3.0])),
         'zero_cert': zero_cert, 'nullspace': nullspace,
         'xclass': 'free', 'data': True}
    case = {'family': family}

    if family == 'eqcon':
        sd = draw(_domain_st(kinds=('tensor', 'tensor', 'discr')))
        if sd['kind'] == 'tensor':
            n = sd['shape'][0]
            m = n + draw(st.sampled_from([0, 0, 1, 2]))
            L = {'kind': 'matrix', 'm': m,
                 'svals': draw(pb.svals_st(n, [1.0, 2.0, 3.0])),
                 'seed': draw(st.integers(0, 2 ** 20))}
        else:
            L = draw(st.sampled_from([
                {'kind': 'multiply', 'narrow': True,
                 'seed': draw(st.integers(0, 2 ** 20))},
                {'kind': 'scaling', 'scalar': 2.0},
                {'kind': 'scaling', 'scalar': -0.5}]))
        p.update(domain=sd, A=None, data=False,
                 phi=draw(pb.func_on_class_st(
                     pb.space_class(sd), ('zero', 'l1', 'l1', 'box', 'l2'),
                     sepsum=False)),
                 terms=[{'L': L, 'g': {'kind': 'indzero'}}])
        case['map'] = 'datag'
    elif family == 'kl':
        sd = draw(pb.tensor_domain_st(2, 6)) if draw(st.booleans()) else \
            draw(pb.discr_domain_st())
        if sd['kind'] == 'tensor':
            Lk = draw(st.sampled_from([
                {'kind': 'identity'}, {'kind': 'scaling', 'scalar': 2.0},
                {'kind': 'posmatrix', 'm': draw(st.integers(1, 6)),
                 'seed': draw(st.integers(0, 2 ** 20))}]))
        else:
            Lk = draw(st.sampled_from([
                {'kind': 'identity'}, {'kind': 'scaling', 'scalar': 0.5},
                {'kind': 'multiply', 'positive': True,
                 'seed': draw(st.integers(0, 2 ** 20))}]))
        terms = [{'L': Lk, 'g': {'kind': 'kl', 'form': 'left',
                                 'lam': draw(st.sampled_from(pb.LAMS))}}]
        if draw(st.booleans()):
            od = draw(_op_st(sd, compound_ok=False))
            terms.append({'L': od, 'g': draw(_range_func_st(
                sd, od, ('l2sq', 'box', 'huber', 'l1')))})
        p.update(domain=sd, A=None, xclass='pos',
                 phi=draw(pb.func_on_class_st(pb.space_class(sd),
                                              ('zero', 'box'),
                                              sepsum=False)),
                 terms=terms)
        if accel == 'primal':
            p['phi'] = {'kind': 'zero'}
        case['map'] = 'quadf' if p['phi']['kind'] == 'zero' and \
            (accel == 'primal' or draw(st.booleans())) else 'datag'
    else:
        kinds = ('tensor', 'tensor', 'discr', 'discr', 'pspace', 'sqpspace')
        sd = draw(_domain_st(kinds=SQ_KINDS if sq else kinds))
        if sq:
            # cell sides >= 1: stencil norms (<= 4 ndim / h^2) stay on the
            # scale of the data term, so that the problem is not put into
            # the stability-only rate class by the grid alone
            g = sd if sd['kind'] == 'discr' else sd['base']
            if g['kind'] == 'discr':
                h = draw(st.sampled_from([1.0, 2.0]))
                g['max'] = [lo + h * k for lo, k in zip(g['min'],
                                                         g['shape'])]
        smooth_only = solver in ('proxgrad', 'accel')
        nterms = draw(st.sampled_from(
            [0, 1, 1, 2] if solver in ('dr', 'fb', 'proxgrad', 'accel')
            else [1, 1, 2]))
        # dr / fb: a Huber term whose infimal-convolution split is
        # admissible (see _split_l), handed over through `l`
        force_l = solver in ('dr', 'fb') and draw(st.integers(0, 3)) == 0
        if nullspace or force_l or sq:
            nterms = max(nterms, 1)
        single_sq = sq and solver in ('pdhg', 'admm') and \
            accel != 'dual' and not zero_cert
        if single_sq:
            nterms = 1
        terms = []
        for i in range(nterms):
            tk = ('l2sq', 'huber') if (smooth_only or accel == 'dual') \
                else TERM_KINDS
            if zero_cert and not nullspace:
                # kinked terms need L x* = 0: give them a kernel
                want_null = draw(st.booleans()) or (force_l and i == 0)
                od = draw(_sq_op_st(sd, conds, nullspace=want_null,
                                    known_cond=True)) \
                    if sq and i == 0 else \
                    draw(_op_st(sd, conds=conds, nullspace=want_null,
                                compound_ok=False))
                if not want_null:
                    tk = ('l2sq', 'box', 'zero', 'box')
            elif sq and i == 0:
                od = draw(_sq_op_st(sd, conds, nullspace=nullspace,
                                    known_cond=True))
            else:
                od = draw(_op_st(sd, conds=conds, nullspace=nullspace,
                                 compound_ok=not nullspace))
            gd = None
            if force_l and i == 0 and pb.range_class(
                    od, pb.space_class(sd))['t'] == 'leaf':
                gd = draw(pb.func_desc_st(('huber',)))
                gd['gamma'] = draw(st.sampled_from(
                    [v for v in (0.5, 1.0, 2.0)
                     if 0.4 <= v / gd['lam'] <= 2.5]))
            terms.append({'L': od, 'g': gd if gd is not None else
                          draw(_range_func_st(sd, od, tk))})
        mapping = 'datag'
        if solver in ('pdhg', 'dr', 'admm'):
            mapping = 'quadf' if (nullspace or single_sq or
                                  draw(st.booleans())) else 'datag'
            if accel != 'none':
                mapping = 'quadf' if accel == 'primal' else 'datag'
        if mapping == 'quadf':
            A, phi = None, {'kind': 'zero'}
        else:
            A = draw(_data_op_st(sd, conds))
            pk = PHI_KINDS if not zero_cert else ZC_PHI_KINDS
            if accel == 'dual':
                pk = ('l1', 'l1', 'l2', 'box', 'nonneg', 'zero')
            phi = draw(pb.func_on_class_st(pb.space_class(sd), pk,
                                           sepsum=False))
        if solver in ('pdhg', 'admm') and mapping == 'quadf' and not terms:
            terms = [{'L': {'kind': 'identity'}, 'g': {'kind': 'l1',
                                                       'lam': 0.7,
                                                       'form': 'left'}}]
        p.update(domain=sd, A=A, phi=phi, terms=terms)
        case['map'] = mapping
        case['force_l'] = force_l
    case['p'] = p
    # step sizes (fractions of the admissible regions)
    case['steps'] = {
        'frac': draw(st.sampled_from([0.5, 0.9, 0.99])),
        'ratio': draw(st.sampled_from([1.0, 1.0, 0.5, 2.0] if
                                      clause == 'progress'
                                      else [1.0, 0.3, 3.0])),
        'lam': draw(st.sampled_from([1.0, 1.0, 0.5, 1.5])),
        'theta': 1.0 if clause == 'progress' else
        draw(st.sampled_from([1.0, 0.5, 0.0])),
        'relax': draw(st.booleans()),
        'accel': accel,
        'gfrac': draw(st.sampled_from([0.3, 0.7, 1.0])),
        # douglas_rachford_pd / forward_backward_pd: Huber terms handed
        # over as the infimal convolution (lam ||.||_1) box (1/(2t) ||.||^2)
        # through the documented `l` argument
        'via_l': draw(st.booleans()) or bool(case.get('force_l')),
        # `lam` as a callable k -> lam_k (proximal_gradient,
        # douglas_rachford_pd)
        'lam_callable': draw(st.booleans()),
    }
    return case


@st.composite
def _dr_dual_case_st(draw, sq=False):
    """Douglas-Rachford fixed point with a non-zero dual certificate:
    f = 1/2||x - a||^2, g_i = lam_i ||. - b_i||^2 (data solved in the run
    from the fixed-point equations of the documented iteration)."""
    sd = draw(_domain_st(kinds=SQ_KINDS if sq else
                         ('tensor', 'tensor', 'discr', 'pspace',
                          'sqpspace')))
    terms = []
    for i in range(draw(st.integers(1, 2))):
        terms.append({'L': draw(_sq_op_st(sd)) if sq and i == 0 else
                      draw(_op_st(sd, conds=[1.0, 3.0, 10.0],
                                  compound_ok=False)),
                      'lam': draw(st.sampled_from(pb.LAMS)),
                      'form': draw(st.sampled_from(['left', 'right']))})
    return {'domain': sd, 'terms': terms,
            'seed': draw(st.integers(0, 2 ** 24)),
            'tau': draw(st.sampled_from([1.0, 0.3, 3.0])),
            'frac': draw(st.sampled_from([0.3, 0.6, 0.9])),
            'lam': draw(st.sampled_from([1.0, 0.5, 1.5])),
            'xscale': draw(st.sampled_from([1.0, 5.0, 0.2]))}


SCALES = [1e-9, 1e-4, 1.0, 1e4, 1e9]


@st.composite
def _lin_case_st(draw, clause, sq=False):
    """``sq``: the operator (Kaczmarz: the first one; CG: the SPD system as
    a block operator or as -Laplacian) maps its domain into itself and its
    in-place evaluation is not alias-safe (`_sq_op_st`)."""
    seed = draw(st.integers(0, 2 ** 24))
    c = {'seed': seed, 'x0scale': draw(st.sampled_from([1.0, 10.0, 0.1]))}
    if clause != 'stepsize':
        # scale stratum: the whole problem multiplied by s on the operator
        # and / or on the unknowns (every asserted property is scale
        # invariant; all tolerances are relative to the problem scale),
        # plus warm starts at x* + tiny
        unit = draw(st.integers(0, 2)) == 0
        c['opscale'] = 1.0 if unit else draw(st.sampled_from(SCALES))
        c['xscale'] = 1.0 if unit else draw(st.sampled_from(SCALES))
        c['warm'] = draw(st.integers(0, 4)) == 0
        if clause == 'steepest':
            c['warm'] = False
            # BacktrackingLineSearch starts at step 1 and stops at
            # 10 * resolution (documented): the curvature has to leave a
            # representable step and a representable decrease
            if c['opscale'] not in (1.0, 1e-4, 1e4):
                c['opscale'] = draw(st.sampled_from([1e-4, 1e4]))
    if clause == 'cg':
        sd = draw(pb.tensor_domain_st(2, 8))
        n = sd['shape'][0]
        sv = draw(pb.svals_st(n, pb.COND_STRATA))
        if draw(st.integers(0, 3)) == 0 and n >= 3:
            # clustered spectrum: d < n distinct eigenvalues
            d = draw(st.integers(1, n - 1))
            sv = [sv[int(i * d / n) * (n - 1) // max(d - 1, 1)
                     if d > 1 else 0] for i in range(n)]
        c.update(domain=sd, svals=sv, extra=draw(st.integers(0, 3)))
        # the same SPD system behind operators that evaluate in place in a
        # non-alias-safe way: 2 x 2 block operator on rn(k) x rn(n - k),
        # and -Laplacian (zero boundary values) on a uniform grid
        form = draw(st.sampled_from(['block', 'neglap'])) if sq else 'matrix'
        if form == 'block':
            c.update(form=form, split=draw(st.integers(1, n - 1)))
        elif form == 'neglap':
            c.update(form=form, domain=draw(pb.discr_domain_st()), svals=[])
        c['at_solution'] = draw(st.integers(0, 7)) == 0
    elif clause in ('cgn', 'landweber'):
        sd = draw(_domain_st(kinds=SQ_KINDS if sq else
                             ('tensor', 'tensor', 'discr', 'pspace',
                              'vfield', 'sqpspace')))
        conds = pb.COND_STRATA if clause == 'cgn' else [1.0, 3.0, 10.0, 1e2]
        od = draw(_sq_op_st(sd, conds)) if sq else \
            draw(_op_st(sd, conds=conds))
        if od['kind'] == 'matrix' and draw(st.integers(0, 11)) == 0:
            # range weighted differently from the domain: the library
            # adjoint is not the adjoint there (F04) -> counted as excluded
            od = dict(od, range_weight=draw(st.sampled_from([2.5, 0.4])))
        c.update(domain=sd, op=od,
                 consistent=draw(st.booleans()),
                 frac=draw(st.sampled_from([0.1, 0.5, 0.9, 0.99])),
                 niter=draw(st.sampled_from([5, 12, 30])))
        # projected Landweber: `projection` = metric projection onto a box
        # that contains the start point
        c['projection'] = clause == 'landweber' and \
            draw(st.integers(0, 3)) == 0
    elif clause == 'kaczmarz':
        sd = draw(_domain_st(kinds=SQ_KINDS if sq else
                             ('tensor', 'tensor', 'discr', 'pspace',
                              'sqpspace')))
        nops = draw(st.integers(1, 4))
        c.update(domain=sd,
                 ops=[draw(_sq_op_st(sd)) if sq and i == 0 else
                      draw(_op_st(sd, compound_ok=False))
                      for i in range(nops)],
                 fracs=[draw(st.sampled_from([0.25, 0.5, 0.75, 0.95]))
                        for _ in range(nops)],
                 omega_list=draw(st.booleans()),
                 niter=draw(st.sampled_from([3, 8, 20])))
        # blocks of very different norms with their own relaxation
        # parameters, visited in random order (np.random is re-seeded from
        # the descriptor before each run)
        c['scales'] = [draw(st.sampled_from([1.0, 0.5, 3.0, 12.0]))
                       for _ in range(nops)]
        c['random'] = draw(st.booleans())
        if c['random'] or draw(st.booleans()):
            c['omega_list'] = True
        # `projection` = metric projection onto a box that contains the
        # solution (some bounds active at it)
        c['projection'] = draw(st.integers(0, 3)) == 0
    elif clause == 'steepest':
        sd = draw(_domain_st(kinds=SQ_KINDS if sq else
                             ('tensor', 'tensor', 'discr', 'sqpspace')))
        A = draw(_sq_op_st(sd)) if sq else (
            draw(_op_st(sd, conds=[1.0, 3.0, 10.0, 100.0]))
            if draw(st.integers(0, 3)) else None)
        extra = None
        if draw(st.booleans()):
            od = draw(_op_st(sd, compound_ok=False))
            cls = pb.range_class(od, pb.space_class(sd))
            extra = {'L': od, 'g': draw(pb.func_on_class_st(
                cls, ('huber', 'l2sq', 'l2sq') if cls['t'] == 'leaf'
                else ('l2sq',), sepsum=False))}
        if c['opscale'] != 1.0 or c['xscale'] != 1.0:
            extra = None
        c.update(domain=sd, A=A, extra=extra,
                 ls_tau=draw(st.sampled_from([0.5, 0.5, 0.8, 0.3])),
                 discount=draw(st.sampled_from([0.01, 0.1, 0.4])),
                 estimate_step=draw(st.booleans()),
                 alpha=draw(st.sampled_from([1.0, 4.0, 0.1])),
                 niter=draw(st.sampled_from([5, 12, 25])),
                 # the line search called directly at the start point:
                 # along -grad, along +grad (documented: it then moves
                 # backwards), or with a plain callable + dir_derivative
                 # and an explicit max_num_iter
                 ls_direct=draw(st.sampled_from(
                     [None, 'descent', 'ascent', 'callable'])))
    elif clause == 'power':
        sd = draw(_domain_st(kinds=SQ_KINDS if sq else
                             ('tensor', 'tensor', 'discr', 'pspace',
                              'vfield', 'sqpspace')))
        kind = 'sq' if sq else \
            draw(st.sampled_from(['general'] * 3 + ['selfadj', 'sym']))
        if kind == 'selfadj':
            od = draw(st.sampled_from([
                {'kind': 'identity'},
                {'kind': 'scaling',
                 'scalar': draw(st.sampled_from([2.0, -1.5, 0.5, -0.25,
                                                 3.0]))}]))
        elif kind == 'sym' and sd['kind'] == 'tensor':
            od = {'kind': 'sym', 'svals': draw(pb.svals_st(
                sd['shape'][0], pb.COND_STRATA)),
                'seed': draw(st.integers(0, 2 ** 20)),
                'signs': draw(st.booleans())}
        elif kind == 'sq':
            od = draw(_sq_op_st(sd, pb.COND_STRATA))
        else:
            od = draw(_op_st(sd, conds=pb.COND_STRATA))
        c.update(domain=sd, op=od,
                 tight=draw(st.booleans()),
                 via_norm=draw(st.integers(0, 3)) == 0,
                 until_conv=kind in ('selfadj', 'sym') or
                 draw(st.booleans()))
    elif clause == 'stepsize':
        m = draw(st.integers(1, 4))
        c.update(which=draw(st.sampled_from(['pdhg', 'dr'])),
                 norms=[draw(st.sampled_from([1.0, 0.5, 3.0, 0.01, 250.0,
                                              1.7, 12.5]))
                        for _ in range(m)],
                 given=draw(st.sampled_from(['none', 'tau', 'sigma',
                                             'both'])),
                 tau=draw(st.sampled_from([1.0, 0.1, 7.0, 0.003])),
                 sigmas=[draw(st.sampled_from([1.0, 0.2, 5.0, 0.01]))
                         for _ in range(m)],
                 as_ops=draw(st.integers(0, 3)) == 0)
    return c


@st.composite
def _strategy(draw):
    kind = draw(st.sampled_from(['lin'] * 2 + ['ns'] * 3))
    # stratum hit by construction in every clause that takes an operator
    # (one top-level draw; the other two thirds still meet such operators
    # by chance): same-space operator, in-place evaluation not alias-safe
    sq = draw(st.sampled_from([False, False, True]))
    if kind == 'lin':
        clause = draw(st.sampled_from(LIN_CLAUSES))
        return {'clause': clause, 'c': draw(_lin_case_st(clause, sq))}
    solver = draw(st.sampled_from(NS_SOLVERS))
    clause = draw(st.sampled_from(['fixed', 'progress', 'progress']))
    if solver == 'dr' and clause == 'fixed' and draw(st.booleans()):
        return {'clause': 'fixed-dual', 'solver': 'dr',
                'c': draw(_dr_dual_case_st(sq))}
    return {'clause': clause, 'solver': solver,
            'c': draw(_ns_case_st(solver, clause, sq))}


def strategy(tier):
    return _strategy()


# --------------------------------------------------------------------------
# helpers

class _Stop(Exception):
    """Raised from a callback to end a solver run (counts, not time)."""


def _exact_or_excluded(lins, strata):
    """C05's identity for every operator of the case: F04-type operators
    are excluded (never drawn on purpose, counted if they appear)."""
    for lin in lins:
        if lin.defect() > 1e-10:
            return Outcome('excluded', strata=strata + ['excluded:F04'])
    return None


def _scaled_op(op, sc):
    """sc * op as an operator of the same kind where that matters (a scaled
    identity / scaling operator stays a ScalingOperator, whose adjoint is
    the operator itself)."""
    if sc == 1.0:
        return op
    if isinstance(op, odl.ScalingOperator):
        return odl.ScalingOperator(op.domain, sc * op.scalar)
    return sc * op


def _scales(c, strata):
    so, sx = float(c.get('opscale', 1.0)), float(c.get('xscale', 1.0))
    strata += ['scale=op:{:g}'.format(so), 'scale=x:{:g}'.format(sx)]
    if c.get('warm'):
        strata.append('warm-start')
    return so, sx


def _sc_region(c):
    """Scale class for signatures (root causes that depend on magnitude)."""
    t = float(c.get('opscale', 1.0)) * float(c.get('xscale', 1.0))
    so = float(c.get('opscale', 1.0))
    if so == 1.0 and t == 1.0:
        return 'scale=unit'
    return 'scale=small' if min(so, t) < 1 else 'scale=large'


def _start(c, rng, xsol, sx, n):
    """Start point: solution-independent, or warm (x* + tiny)."""
    if c.get('warm'):
        return xsol + 1e-8 * sx * np.round(rng.standard_normal(n), 3)
    return None


def _dom_kind(sd):
    if sd.get('square'):
        return 'sqpspace'
    if sd['kind'] == 'pspace':
        return 'vfield' if sd.get('power') is not None else 'pspace'
    if sd['kind'] == 'tensor' and sd.get('weighting'):
        return 'tensor-weighted'
    return sd['kind']


def _inplace_unsafe(od):
    """Operator maps its domain into itself and its in-place evaluation is
    not alias-safe (finite-difference stencils, block operators with
    off-diagonal blocks): the regime in which re-using one buffer for the
    input and the output of `op` / `op.adjoint` goes wrong."""
    if od is None:
        return False
    if od['kind'] == 'broadcast':
        return False
    return pb.op_shape_stratum(od) is not None


def _op_tags(ods, clause, stacked=False):
    """Strata of the operators of a case; ``stacked``: the solver receives
    one BroadcastOperator of all of them (never a same-space operator)."""
    tags = ['op:' + o['kind'] for o in ods if o is not None]
    if not stacked and any(_inplace_unsafe(o) for o in ods):
        tags += ['op:square-inplace', clause + ':square-inplace']
    return tags


def _same_iterates(seq, ref, others, sig):
    """Observed iterates against the documented iteration carried out in
    NumPy (both are non-expansive for the admissible steps drawn here, so
    rounding errors add up at most linearly)."""
    if len(seq) != len(ref):
        raise Violation(sig + '|count', '{} callbacks for {} iterations'
                        ''.format(len(seq), len(ref)))
    scale = max([float(np.max(np.abs(v), initial=0.0))
                 for v in list(ref) + list(others)] + [1e-300])
    for k, (a, b_) in enumerate(zip(seq, ref)):
        dev = float(np.max(np.abs(a - b_), initial=0.0))
        if not dev <= 1e-10 * (k + 1) * scale:
            raise Violation(sig, 'iterate {} deviates from the documented '
                            'iteration by {:.3g} (scale {:.3g})'.format(
                                k + 1, dev, scale))


def _cond_of(sv):
    sv = np.asarray(sv, dtype=float)
    nz = sv[sv > 1e-10 * max(sv.max(initial=0.0), 1e-300)]
    return float(nz.max() / nz.min()) if len(nz) else 1.0


def _mono(seq, scale, sig, what):
    """q_k <= q_{k-1} (1 + SLACK) + 1e-13 scale for the whole sequence."""
    for k in range(1, len(seq)):
        if not seq[k] <= seq[k - 1] * (1 + SLACK) + 1e-13 * scale:
            raise Violation(sig, '{} increases at iteration {}: {!r} -> '
                            '{!r} (sequence start {})'.format(
                                what, k, seq[k - 1], seq[k],
                                [float('%.6g' % v) for v in seq[:8]]))


# --------------------------------------------------------------------------
# linear clauses

def _cg_system(c, so):
    """(X, op, A, eigenvalues) of the self-adjoint positive definite system.

    form 'matrix': MatrixOperator Q diag(lam) Q^T on (weighted) rn;
    form 'block':  the same matrix cut into 2 x 2 blocks, as a
                   ProductSpaceOperator on rn(k) x rn(n - k) (domain == range,
                   off-diagonal blocks: evaluation into `out` is block-wise);
    form 'neglap': -Laplacian with zero boundary values on a uniform grid
                   (symmetric positive definite w.r.t. the cell-volume
                   weighted inner product; in-place stencil evaluation).
    """
    form = c.get('form', 'matrix')
    if form == 'neglap':
        X = pb.build.build_space(c['domain'])
        op = _scaled_op(-odl.Laplacian(X, pad_mode='constant'), so)
        A = pb.LinOp(op).M
        rng = np.random.RandomState(int(c['seed']) % (2 ** 32))
        xsol = np.round(rng.standard_normal(A.shape[0]), 3)
        return X, op, A, xsol, rng
    X0 = pb.build.build_space(c['domain'])
    op, A, xsol, _, rng = pb.spd_system(
        X0, [so * float(v) for v in c['svals']], c['seed'])
    if form == 'matrix':
        return X0, op, A, xsol, rng
    n, k = X0.size, int(c['split'])
    parts = [dict(c['domain'], shape=[k]), dict(c['domain'], shape=[n - k])]
    X = pb.build.build_space({'kind': 'pspace', 'parts': parts,
                              'power': None, 'weighting': None,
                              'exponent': 2.0})
    cuts = [slice(0, k), slice(k, n)]
    op = odl.ProductSpaceOperator(
        [[odl.MatrixOperator(A[ri, ci], domain=X[j], range=X[i])
          for j, ci in enumerate(cuts)] for i, ri in enumerate(cuts)],
        domain=X, range=X)
    return X, op, A, xsol, rng


def _cg(c, strata):
    so, sx = _scales(c, strata)
    form = c.get('form', 'matrix')
    X, op, A, xsol, rng = _cg_system(c, so)
    n = A.shape[0]
    dX = pb.gram_diag(X)
    # spectrum of the operator in the inner product of X
    ev = np.linalg.eigvalsh(pb.sym_matrix(A, dX, dX))
    if form == 'matrix':
        cond = _cond_of(c['svals'])
        distinct = len(set(np.round(np.asarray(c['svals']) /
                                    max(c['svals']), 6).tolist()))
    else:
        if not ev[0] > 0:
            raise HarnessError('CG system is not positive definite')
        cond = float(ev[-1] / ev[0])
        distinct = len(set(np.round(ev / ev[-1], 6).tolist())) \
            if form == 'block' else n
    xsol = sx * xsol
    rhs = A @ xsol
    x0 = xsol + sx * np.round(rng.standard_normal(n) * float(c['x0scale']),
                              3)
    w = _start(c, rng, xsol, sx, n)
    x0 = x0 if w is None else w
    strata += ['cg', 'cg:' + form, pb.cond_label(cond)]
    dk = _dom_kind(c['domain']) if form != 'block' else 'pspace-block'
    if c.get('at_solution'):
        # started exactly at a solution (rhs evaluated by the operator
        # itself, so the initial residual is exactly zero) the method is
        # exact at once: the iterate must not move
        x = unflat(xsol, X)
        rhs_el = op(x)
        seq = []
        S.conjugate_gradient(op, x, rhs_el, n,
                             callback=lambda v: seq.append(toflat(v, X)))
        dev = max([float(np.max(np.abs(v - xsol))) for v in
                   seq + [toflat(x, X)]])
        if not dev <= 1e-12 * max(np.max(np.abs(xsol)), 1e-300):
            raise Violation(
                'C12|cg-at-solution|conjugate_gradient|{},{}'.format(
                    dk, _sc_region(c)),
                'started at x* with rhs = A(x*), the iterate moves by '
                '{:.3g}'.format(dev))
        return Outcome('ok', strata=strata + ['cg:start-at-solution'],
                       nontrivial=bool(np.any(xsol)))
    x = unflat(x0.copy(), X)
    seq = []
    S.conjugate_gradient(op, x, unflat(rhs.copy(), X), n + int(c['extra']),
                         callback=lambda v: seq.append(toflat(v, X)))

    def energy(v):
        d = v - xsol
        return float(np.sqrt(max(np.sum(dX * d * (A @ d)), 0.0)))

    es = [energy(x0)] + [energy(v) for v in seq]
    e0 = max(es[0], 1e-300)
    # attainable accuracy: eps * cond relative to the energy norm of the
    # solution (matters for warm starts, whose start error is tiny)
    estar = float(np.sqrt(max(np.sum(dX * xsol * (A @ xsol)), 0.0))) + e0
    floor = 1e-11 * cond * e0 + 1e-12 * cond * estar
    sig = 'C12|cg-energy|conjugate_gradient|{},{}'.format(dk, _sc_region(c))
    for k in range(1, len(es)):
        if es[k - 1] > floor and not es[k] < es[k - 1]:
            raise Violation(sig, 'energy-norm error not strictly decreasing '
                            'at step {}: {!r} -> {!r} (cond {:.3g})'.format(
                                k, es[k - 1], es[k], cond))
    final = toflat(x, X)
    if cond <= 1e2 * (1 + 1e-4):
        # 1e-8 cond of the start error plus the attainable accuracy
        # (eps cond ||x*||, with margin): relative to the problem scale
        tol = 1e-8 * cond * np.linalg.norm(x0 - xsol) + \
            1e-12 * cond * (np.linalg.norm(xsol) + np.linalg.norm(x0 - xsol))
        xn = seq[n - 1] if len(seq) >= n else final
        err = float(np.linalg.norm(xn - xsol))
        if not err <= tol:
            raise Violation(
                'C12|cg-finite|conjugate_gradient|{},{}'.format(
                    dk, _sc_region(c)),
                '||x_n - x*|| = {:.3g} > {:.3g} after n = {} steps (cond '
                '{:.3g})'.format(err, tol, n, cond))
        if distinct < n:
            xd = seq[distinct - 1] if len(seq) >= distinct else final
            err = float(np.linalg.norm(xd - xsol))
            if not err <= tol * 100:
                raise Violation(
                    'C12|cg-finite-distinct|conjugate_gradient|{},{}'.format(
                        dk, _sc_region(c)),
                    '||x_d - x*|| = {:.3g} after d = {} steps for {} '
                    'distinct eigenvalues'.format(err, distinct, distinct))
            strata.append('cg:clustered')
    return Outcome('ok', strata=strata, nontrivial=cond > 1 and es[0] > 0)


def _residual_clause(c, strata, clause):
    X = pb.build.build_space(c['domain'])
    so, sx = _scales(c, strata)
    A = pb.LinOp(_scaled_op(pb.build_operator(c['op'], X), so))
    ex = _exact_or_excluded([A], strata)
    if ex is not None:
        return ex
    rng = np.random.RandomState(int(c['seed']) % (2 ** 32))
    n, m = A.dX.size, A.dY.size
    xt = sx * np.round(rng.standard_normal(n), 3)
    rhs = A.M @ xt
    if not c['consistent']:
        rhs = rhs + so * sx * np.round(rng.standard_normal(m), 3)
    x0 = sx * np.round(rng.standard_normal(n) * float(c['x0scale']), 3)
    w = _start(c, rng, xt, sx, n)
    x0 = x0 if w is None else w
    x = unflat(x0, X)
    rhs_el = unflat(rhs, A.op.range)
    seq = []
    cb = lambda v: seq.append(toflat(v, X))  # noqa: E731
    sym = pb.sym_matrix(A.M, A.dX, A.dY)
    sv = np.linalg.svd(sym, compute_uv=False)
    cond = _cond_of(sv)
    N = int(c['niter'])
    overflow = None
    if clause == 'cgn':
        N = max(N, n)
        try:
            S.conjugate_gradient_normal(A.op, x, rhs_el, N, callback=cb)
        except OverflowError as e:
            # end point of the growth after convergence (see below)
            overflow = e
        name = 'conjugate_gradient_normal'
    else:
        if A.norm == 0:
            return Outcome('trivial', strata=strata + ['zero-operator'])
        omega = float(c['frac']) * 2 / A.norm ** 2
        name = 'landweber'
        if c.get('projection'):
            # projected gradient steps on 1/2||Ax - rhs||^2 from a feasible
            # point: f(x+) <= f(x) - (1/omega - ||A||^2/2) ||x+ - x||^2, so
            # the residual is non-increasing for 0 < omega < 2/||A||^2 (the
            # box projection is the metric projection for the diagonal Gram
            # matrices drawn here)
            half = sx * np.round(rng.uniform(0.3, 2.0, n), 3)
            half[rng.uniform(0, 1, n) < 0.3] = np.inf
            x0 = np.clip(x0, -half, half)
            x = unflat(x0, X)

            def proj(v):
                v.assign(unflat(np.clip(toflat(v, X), -half, half), X))

            S.landweber(A.op, x, rhs_el, N, omega=omega, projection=proj,
                        callback=cb)
            name = 'landweber+projection'
            strata.append('landweber:projection')
        else:
            S.landweber(A.op, x, rhs_el, N, omega=omega, callback=cb)
        # the documented iteration x_{k+1} = x_k - omega A^*(A x_k - rhs)
        # (followed by the projection), with the true adjoint matrix
        ref, xr = [], x0.copy()
        for _ in range(N):
            xr = xr - omega * (A.adj @ (A.M @ xr - rhs))
            if c.get('projection'):
                xr = np.clip(xr, -half, half)
            ref.append(xr)
        _same_iterates(seq, ref, [x0, xt], 'C12|iteration|{}|{}'.format(
            name, _dom_kind(c['domain'])))
    res = [wnorm(A.M @ v - rhs, A.dY) for v in [x0] + seq]
    scale = max(wnorm(rhs, A.dY), res[0], 1e-300)
    strata += [clause, pb.cond_label(cond)] + _op_tags([c['op']], clause) + \
        ['consistent' if c['consistent'] else 'inconsistent']
    checked = res
    after = None
    if clause == 'cgn':
        # CGN divides rounding-level quantities once the normal-equation
        # residual s = A^*(rhs - A x) has reached its rounding floor (the
        # method has converged); steps taken from such a state are not
        # asserted, only counted
        grads = [wnorm(A.adj @ (A.M @ v - rhs), A.dX) for v in [x0] + seq]
        floor = 1e-10 * max(grads[0], A.norm * res[0])
        conv = [k for k, g in enumerate(grads) if g <= floor]
        if conv:
            checked = res[:conv[0] + 1]
            late = [k for k in range(conv[0] + 1, len(res))
                    if not res[k] <= res[conv[0]] * (1 + 1e-6) +
                    1e-10 * scale]
            if late or overflow is not None:
                after = (conv[0], late)
        elif overflow is not None:
            raise Violation('C12|crash|OverflowError|conjugate_gradient_'
                            'normal|before-convergence', str(overflow))
    _mono(checked, scale, 'C12|residual|{}|{}'.format(
        name, _dom_kind(c['domain'])), 'residual')
    if after is not None:
        # The iteration has converged (normal-equation residual at 1e-10 of
        # its start) and is asked for more iterations: rounding-level
        # wiggles are tolerated (1e-6 relative), but the residual must not
        # grow again.  It does: known finding C12-K3.
        k0, late = after
        raise Violation(
            'C12|residual-after-convergence|conjugate_gradient_normal|' +
            ('consistent' if c['consistent'] else 'inconsistent'),
            'converged after {} iterations (residual {:.6g}); with niter = '
            '{} the residual grows again: {}{}'.format(
                k0, res[k0], N,
                ', '.join('it {}: {:.3g}'.format(k, res[k])
                          for k in late[:1] + late[-1:]),
                '; ends in OverflowError' if overflow is not None else ''))
    if clause == 'cgn' and cond <= 10 * (1 + 1e-4):
        # least-squares residual by an independent solve
        sq = np.sqrt(A.dY)
        z, *_ = np.linalg.lstsq(sym, sq * rhs, rcond=1e-10)
        rls = float(np.linalg.norm(sym @ z - sq * rhs))
        tol = 1e-6 * cond ** 2 * wnorm(rhs, A.dY)
        rn = min(res[:n + 1])
        if len(seq) < n:
            rn = min(rn, wnorm(A.M @ toflat(x, X) - rhs, A.dY))
        if not rn <= rls + tol + 1e-13 * scale:
            raise Violation(
                'C12|cgn-ls|conjugate_gradient_normal|' +
                _dom_kind(c['domain']),
                'residual after n = {} steps {:.6g} exceeds the '
                'least-squares residual {:.6g} (tol {:.3g}, cond {:.3g})'
                ''.format(n, rn, rls, tol, cond))
        strata.append('cgn:ls-checked')
    return Outcome('ok', strata=strata,
                   nontrivial=cond > 1 and res[0] > 0 and len(seq) >= 2)


def _kaczmarz(c, strata):
    X = pb.build.build_space(c['domain'])
    dX = pb.gram_diag(X)
    so, sx = _scales(c, strata)
    scales = [so * float(v)
              for v in c.get('scales', [1.0] * len(c['ops']))]
    lins = []
    for o, sc in zip(c['ops'], scales):
        lins.append(pb.LinOp(_scaled_op(pb.build_operator(o, X), sc), dX))
    ex = _exact_or_excluded(lins, strata)
    if ex is not None:
        return ex
    rng = np.random.RandomState(int(c['seed']) % (2 ** 32))
    n = dX.size
    xt = sx * np.round(rng.standard_normal(n), 3)
    rhs = [unflat(l.M @ xt, l.op.range) for l in lins]
    x0 = xt + sx * np.round(rng.standard_normal(n) * float(c['x0scale']), 3)
    w = _start(c, rng, xt, sx, n)
    x0 = x0 if w is None else w
    if any(l.norm == 0 for l in lins):
        return Outcome('trivial', strata=strata + ['zero-operator'])
    # omega_i = c_i / ||A_i||^2 with c_i = 2 frac_i in (0, 1.9]: every
    # partial step is non-expansive w.r.t. every solution, whatever the
    # order in which the blocks are visited
    om = [fr * 2 / l.norm ** 2 for fr, l in zip(c['fracs'], lins)]
    omega = om if c['omega_list'] else min(om)
    rand = bool(c.get('random'))
    kw = {}
    if c.get('projection'):
        # projection onto a closed convex set that contains the solution is
        # non-expansive and leaves the solution fixed: the distance to it
        # still cannot increase
        below = sx * np.round(rng.uniform(0.0, 1.0, n), 3)
        above = sx * np.round(rng.uniform(0.0, 1.0, n), 3)
        below[rng.uniform(0, 1, n) < 0.3] = 0.0
        above[rng.uniform(0, 1, n) < 0.3] = 0.0
        below[rng.uniform(0, 1, n) < 0.2] = np.inf
        lo_, hi_ = xt - below, xt + above

        def proj(v):
            v.assign(unflat(np.clip(toflat(v, X), lo_, hi_), X))

        kw['projection'] = proj
    for loop in ('inner', 'outer'):
        x = unflat(x0, X)
        seq = []
        np.random.seed(int(c['seed']) % (2 ** 32))
        S.kaczmarz([l.op for l in lins], x, rhs, int(c['niter']),
                   omega=omega, random=rand, callback_loop=loop,
                   callback=lambda v: seq.append(toflat(v, X)), **kw)
        if loop == 'inner' and not rand:
            # documented: x <- x - omega_[k] A_[k]^*(A_[k] x - rhs_[k]),
            # [k] = k mod n (then the projection)
            oms = om if c['omega_list'] else [min(om)] * len(lins)
            ref, xr = [], x0.copy()
            for _ in range(int(c['niter'])):
                for l, w_ in zip(lins, oms):
                    xr = xr - w_ * (l.adj @ (l.M @ (xr - xt)))
                    if kw:
                        xr = np.clip(xr, lo_, hi_)
                    ref.append(xr)
            _same_iterates(seq, ref, [x0, xt],
                           'C12|iteration|kaczmarz{}|{}'.format(
                               '+projection' if kw else '',
                               _dom_kind(c['domain'])))
        dist = [wnorm(v - xt, dX) for v in [x0] + seq]
        _mono(dist, max(dist[0], wnorm(xt, dX), 1e-300),
              'C12|kaczmarz-distance|kaczmarz{}|order={},{}'.format(
                  '+projection' if kw else '',
                  'random' if rand else 'fixed', _dom_kind(c['domain'])),
              'distance to a solution ({} loop)'.format(loop))
    nr = [l.norm for l in lins if l.norm > 0]
    strata += ['kaczmarz', 'nops:{}'.format(len(lins)),
               'kaczmarz:random' if rand else 'kaczmarz:fixed-order',
               'kaczmarz:omega-' + ('list' if c['omega_list'] else 'float')
               ] + _op_tags(c['ops'], 'kaczmarz')
    if len(nr) >= 2 and max(nr) >= 5 * min(nr) and c['omega_list']:
        strata.append('kaczmarz:norms-differ-5x')
    if kw:
        strata.append('kaczmarz:projection')
    return Outcome('ok', strata=strata,
                   nontrivial=dist[0] > 0 and dist[-1] < dist[0])


def _ls_direct(c, strata, f, X, dX, x0, refgrad, value, scale):
    """BacktrackingLineSearch called directly: the returned step fulfils
    the documented sufficient-decrease (Armijo) condition
    f(x + s d) <= f(x) - discount |s <grad f(x), d>|, also along an ascent
    direction (negative step) and for a plain callable."""
    mode = c['ls_direct']
    g = refgrad(x0)
    d = -g if mode != 'ascent' else g
    dd = float(np.sum(dX * g * d))
    if not abs(dd) > 1e-9 * max(abs(value(x0)), 1e-300):
        return
    tau, disc = float(c['ls_tau']), float(c['discount'])
    kw = dict(tau=tau, discount=disc, alpha=float(c['alpha']),
              estimate_step=bool(c['estimate_step']))
    sig = 'C12|linesearch-armijo|BacktrackingLineSearch|' + mode
    try:
        if mode == 'callable':
            ls = S.BacktrackingLineSearch(
                lambda v: f(v), max_num_iter=int(np.ceil(
                    np.log(1e-14) / np.log(tau))), **kw)
            step = ls(unflat(x0, X), unflat(d, X), dir_derivative=dd)
        else:
            ls = S.BacktrackingLineSearch(f, **kw)
            step = ls(unflat(x0, X), unflat(d, X))
    except ValueError as e:
        raise Violation(sig + '|no-step', 'no step found at a point with '
                        'directional derivative {:.3g} (objective {:.3g}): '
                        '{}'.format(dd, value(x0), str(e)[:120]))
    try:
        step = float(step)
    except (TypeError, ValueError):
        raise Violation(sig, 'non-scalar step {!r}'.format(step))
    v0, v1 = value(x0), value(x0 + step * d)
    if not (np.isfinite(step) and step != 0 and
            v1 <= v0 - disc * abs(step * dd) * (1 - 1e-9) + 1e-12 * scale):
        raise Violation(sig, 'step {!r} along the {} direction: f = {!r} -> '
                        '{!r}, required decrease {!r}'.format(
                            step, mode, v0, v1, disc * abs(step * dd)))
    if (step > 0) != (mode != 'ascent'):
        raise Violation(sig + '|sign', 'step {!r} along the {} direction'
                        ''.format(step, mode))
    strata.append('ls-direct:' + mode)


def _steepest(c, strata):
    X = pb.build.build_space(c['domain'])
    dX = pb.gram_diag(X)
    n = dX.size
    rng = np.random.RandomState(int(c['seed']) % (2 ** 32))
    so, sx = _scales(c, strata)
    if c['A'] is None:
        A = None if so == 1.0 else pb.LinOp(odl.ScalingOperator(X, so), dX)
    else:
        A = pb.LinOp(_scaled_op(pb.build_operator(c['A'], X), so), dX)
    lins = [A] if A is not None else []
    extra = None
    if c['extra'] is not None:
        Le = pb.LinOp(pb.build_operator(c['extra']['L'], X), dX)
        lins.append(Le)
        ed = pb.random_func_data(c['extra']['g'], Le.op.range, rng)
        extra = (Le, c['extra']['g'], ed,
                 pb.make_functional(c['extra']['g'], Le.op.range, ed))
    ex = _exact_or_excluded(lins, strata)
    if ex is not None:
        return ex
    Z = X if A is None else A.op.range
    dZ = dX if A is None else A.dY
    MA = np.eye(n) if A is None else A.M
    b = so * sx * np.round(rng.standard_normal(dZ.size), 3)
    f = (0.5 * S.L2NormSquared(Z)).translated(unflat(b, Z))
    if A is not None:
        f = f * A.op
    lip = (1.0 if A is None else A.norm ** 2)
    if extra is not None:
        f = f + extra[3] * extra[0].op
        lip += extra[0].norm ** 2 * (2 * extra[1].get('lam', 1.0)
                                     if extra[1]['kind'] == 'l2sq' else
                                     extra[1].get('lam', 1.0) /
                                     extra[1]['gamma'])

    def value(v):
        r = MA @ v - b
        val = 0.5 * float(np.sum(dZ * r * r))
        if extra is not None:
            val += pb.ref_value(extra[1], extra[2], extra[0].op.range,
                                extra[0].dY, extra[0].M @ v)
        return val

    def refgrad(v):
        g = pb.true_adjoint(MA, dX, dZ) @ (MA @ v - b)
        if extra is not None:
            sd_ = pb.ref_subdiff(extra[1], extra[2], extra[0].op.range,
                                 extra[0].dY, extra[0].M @ v)
            g = g + extra[0].adj @ sd_.lo
        return g

    def gradnorm2(v):
        g = refgrad(v)
        return float(np.sum(dX * g * g))

    x0 = sx * np.round(rng.standard_normal(n) * float(c['x0scale']), 3)
    x = unflat(x0, X)
    # `tol` of steepest_descent is a documented absolute threshold on the
    # squared gradient norm (default 1e-16): scaled with the problem so
    # that every scale stratum runs the same iteration
    tol = 1e-16 * (so * so * sx) ** 2
    ls = S.BacktrackingLineSearch(f, tau=float(c['ls_tau']),
                                  discount=float(c['discount']),
                                  alpha=float(c['alpha']),
                                  estimate_step=bool(c['estimate_step']))
    seq = []
    stopped = None
    try:
        S.steepest_descent(f, x, line_search=ls, maxiter=int(c['niter']),
                           tol=tol,
                           callback=lambda v: seq.append(toflat(v, X)))
    except (AssertionError, ValueError) as e:
        stopped = e
    vals = [value(v) for v in [x0] + seq]
    scale = max(abs(vals[0]), 1e-300)
    sig = 'C12|objective|steepest_descent+BacktrackingLineSearch|' + \
        _dom_kind(c['domain'])
    for k in range(1, len(vals)):
        if not vals[k] <= vals[k - 1] + 1e-12 * scale:
            raise Violation(sig, 'objective increases at iteration {}: '
                            '{!r} -> {!r}'.format(k, vals[k - 1], vals[k]))
    if c.get('ls_direct'):
        _ls_direct(c, strata, f, X, dX, x0, refgrad, value, scale)
    strata += ['steepest', 'ls-estimate-step' if c['estimate_step']
               else 'ls-plain'] + _op_tags(
                   [c['A']] + ([c['extra']['L']] if c['extra'] else []),
                   'steepest')
    if stopped is not None:
        # termination at the optimum: the reference gradient is at rounding
        # level relative to the objective (documented behaviour of the line
        # search), anything else is a failure to find a descent step
        last = seq[-1] if seq else x0
        g2 = gradnorm2(last)
        if not g2 <= 1e-9 * lip * max(abs(value(last)), 1e-300) + 1e-300:
            raise Violation(
                'C12|linesearch-fails|BacktrackingLineSearch|' +
                _dom_kind(c['domain']),
                '{}: {} at a point with squared gradient norm {:.3g} '
                '(objective {:.3g})'.format(type(stopped).__name__,
                                            str(stopped)[:120], g2,
                                            value(last)))
        strata.append('steepest:stopped-at-optimum')
    return Outcome('ok', strata=strata,
                   nontrivial=len(seq) >= 2 and vals[-1] < vals[0])


def _power(c, strata):
    X = pb.build.build_space(c['domain'])
    od = c['op']
    if od['kind'] == 'sym':
        n = X.size
        rng0 = np.random.RandomState(int(od['seed']) % (2 ** 32))
        Q, _ = np.linalg.qr(rng0.standard_normal((n, n)))
        lam = np.asarray(od['svals'], dtype=float)
        if od.get('signs'):
            lam = lam * rng0.choice([-1.0, 1.0], n)
        M = (Q * lam[None, :]) @ Q.T
        op = odl.MatrixOperator((M + M.T) / 2, domain=X, range=X)
    else:
        op = pb.build_operator(od, X)
    so, sx = _scales(c, strata)
    op = _scaled_op(op, so)
    A = pb.LinOp(op)
    ex = _exact_or_excluded([A], strata)
    if ex is not None:
        return ex
    rng = np.random.RandomState(int(c['seed']) % (2 ** 32))
    n = A.dX.size
    x0 = np.round(rng.standard_normal(n), 3)
    if not np.any(x0):
        x0[0] = 1.0
    x0 = sx * x0
    selfadj = op.adjoint is op
    lower = wnorm(A.M @ x0, A.dY) / wnorm(x0, A.dX)
    iters = [1, 2, 3, 5, 10] if selfadj else [2, 4, 6, 10, 20, 50]
    kw = {'rtol': 0.0, 'atol': 0.0} if c['tight'] else {}
    if not c['tight'] and c.get('until_conv'):
        # documented: maxiter=None iterates until convergence (default
        # rtol / atol)
        if selfadj or c.get('probe_known'):
            iters = iters + [None]
            strata.append('power:maxiter-none')
        else:
            # region of the known finding C12-K4 (maxiter=None is rejected
            # for every non-self-adjoint operator): excluded by construction
            # and counted; the finding's own replay carries "probe_known".
            # Remove this branch when C12-K4 is fixed.
            strata.append('excluded:C12-K4')
    strata += ['power', 'power:selfadjoint' if selfadj else 'power:normal',
               ] + _op_tags([od], 'power') + [
               'norm>1' if A.norm > 1 else 'norm<=1']
    region = '{}|{}'.format('selfadjoint' if selfadj else 'normal',
                            _dom_kind(c['domain']))
    ests = []
    for it in iters:
        try:
            if c['via_norm']:
                est = op.norm(estimate=True, xstart=unflat(x0, X),
                              maxiter=it, **kw)
            else:
                est = odl.power_method_opnorm(op, xstart=unflat(x0, X),
                                              maxiter=it, **kw)
        except ValueError as e:
            if it is None and 'even number' in str(e):
                raise Violation(
                    'C12|power-maxiter-none|power_method_opnorm|' + region,
                    'maxiter=None (documented: iterate until convergence) '
                    'is rejected: ' + str(e)[:160])
            if 'reached' in str(e) and (lower == 0 or A.norm == 0 or
                                        wnorm(A.adj @ (A.M @ x0), A.dX) <
                                        1e-12 * A.norm ** 2 *
                                        wnorm(x0, A.dX)):
                return Outcome('rejected', strata=strata + ['power:x=0'])
            raise
        est = float(est)
        ests.append(est)
        if not est <= A.norm * (1 + SLACK):
            raise Violation(
                'C12|power-upper|power_method_opnorm|' + region,
                'estimate {!r} exceeds the true norm {!r} at maxiter={}'
                ''.format(est, A.norm, it))
        if not est >= lower * (1 - SLACK):
            raise Violation(
                'C12|power-lower|power_method_opnorm|' + region,
                'estimate {!r} is below ||A x0||/||x0|| = {!r} at maxiter={}'
                ' (true norm {!r})'.format(est, lower, it, A.norm))
    if not selfadj:
        try:
            odl.power_method_opnorm(op, xstart=unflat(x0, X), maxiter=3)
            raise Violation('C12|power-odd|power_method_opnorm|' + region,
                            'odd maxiter accepted for a non-self-adjoint '
                            'operator')
        except ValueError:
            pass
    return Outcome('ok', strata=strata,
                   nontrivial=A.norm > 0 and lower < A.norm * (1 - 1e-6))


def _stepsize(c, strata):
    norms = [float(v) for v in c['norms']]
    given = c['given']
    tau_in = float(c['tau']) if given in ('tau', 'both') else None
    which = c['which']
    if c['as_ops']:
        X = odl.rn(2)
        Ls = [odl.ScalingOperator(X, v) if v != 1.0 else
              odl.IdentityOperator(X) for v in norms]
    else:
        Ls = list(norms)
    strata += ['stepsize:' + which, 'given:' + given,
               'L:ops' if c['as_ops'] else 'L:floats']
    sig = 'C12|stepsize|{}_stepsize|given={}'.format(
        'pdhg' if which == 'pdhg' else 'douglas_rachford_pd', given)
    if which == 'pdhg':
        nL = norms[0]
        sig_in = float(c['sigmas'][0]) if given in ('sigma', 'both') else None
        tau, sigma = S.pdhg_stepsize(Ls[0], tau=tau_in, sigma=sig_in)
        try:
            tau, sigma = float(tau), float(sigma)
        except (TypeError, ValueError):
            raise Violation(sig, 'non-scalar result {!r}'.format((tau,
                                                                  sigma)))
        if tau_in is not None and tau != tau_in or \
                sig_in is not None and sigma != sig_in:
            raise Violation(sig, 'given value changed: in {!r} out {!r}'
                            ''.format((tau_in, sig_in), (tau, sigma)))
        if given != 'both':
            if not (tau > 0 and sigma > 0 and tau * sigma * nL ** 2 < 1):
                raise Violation(sig, 'tau*sigma*||L||^2 = {!r} not < 1 '
                                '(tau {!r}, sigma {!r}, ||L|| {!r})'.format(
                                    tau * sigma * nL ** 2, tau, sigma, nL))
            doc = {'none': (np.sqrt(0.9) / nL, np.sqrt(0.9) / nL),
                   'sigma': (0.9 / ((sig_in or 1) * nL ** 2), sig_in),
                   'tau': (tau_in, 0.9 / ((tau_in or 1) * nL ** 2))}[given]
            if abs(tau - doc[0]) > 1e-12 * doc[0] or \
                    abs(sigma - doc[1]) > 1e-12 * doc[1]:
                raise Violation(sig + '|formula', 'documented {!r}, got '
                                '{!r}'.format(doc, (tau, sigma)))
    else:
        m = len(norms)
        sig_in = [float(v) for v in c['sigmas']] \
            if given in ('sigma', 'both') else None
        tau, sigma = S.douglas_rachford_pd_stepsize(Ls, tau=tau_in,
                                                    sigma=sig_in)
        try:
            tau = float(tau)
            sigma = [float(s) for s in sigma]
        except (TypeError, ValueError):
            raise Violation(sig, 'non-scalar result {!r}'.format((tau,
                                                                  sigma)))
        if len(sigma) != m:
            raise Violation(sig, 'len(sigma) = {} for {} operators'.format(
                len(sigma), m))
        if tau_in is not None and tau != tau_in or \
                sig_in is not None and sigma != sig_in:
            raise Violation(sig, 'given value changed')
        if given != 'both':
            tot = tau * sum(s * v ** 2 for s, v in zip(sigma, norms))
            if not (tau > 0 and all(s > 0 for s in sigma) and tot < 4):
                raise Violation(sig, 'tau*sum sigma_i ||L_i||^2 = {!r} not '
                                '< 4'.format(tot))
            if given == 'sigma':
                dt = 2.0 / sum(s * v ** 2 for s, v in zip(sig_in, norms))
            elif given == 'tau':
                dt = tau_in
            else:
                dt = 1.0 / sum(norms)
            ds = sig_in if given == 'sigma' else \
                [2.0 / (m * dt * v ** 2) for v in norms]
            if abs(tau - dt) > 1e-12 * dt or any(
                    abs(a - b_) > 1e-12 * b_ for a, b_ in zip(sigma, ds)):
                raise Violation(sig + '|formula', 'documented {!r}, got '
                                '{!r}'.format((dt, ds), (tau, sigma)))
    return Outcome('ok', strata=strata, nontrivial=given != 'both')


# --------------------------------------------------------------------------
# non-smooth solvers

class _Setup(object):
    pass


def _stack(P, pairs):
    """Single operator / functional for solvers that take one L: the pair
    itself, or BroadcastOperator + SeparableSum."""
    if len(pairs) == 1:
        return pairs[0][0], pairs[0][1], pairs[0][2]
    L = pb.LinOp(odl.BroadcastOperator(*[lin.op for lin, _, _ in pairs]),
                 P.dX)
    g = S.SeparableSum(*[gi for _, gi, _ in pairs])
    y = np.concatenate([yi for _, _, yi in pairs])
    return L, g, y


def _split_l(T, on):
    """(g, l, nu) for a term: with ``on`` a Huber term lam * Huber_gamma is
    split into its infimal-convolution factors g = lam ||.||_1 and
    l = 1/(2t) ||.||^2, t = gamma / lam (Moreau envelope of the scaled
    1-norm: z^2/(2t) for |z| <= t lam, lam |z| - t lam^2 / 2 beyond; the
    weights of the space are the same in all three functionals, the
    convolution is pointwise).  grad l^* = t Id; nu = min(t, 1/t) is
    admissible under both readings of the documented step condition
    (grad l^* nu-Lipschitz / l nu-strongly convex).  Splits with a small nu
    force tiny steps and are not taken."""
    if on and T.fd['kind'] == 'huber':
        lam_ = float(T.fd.get('lam', 1.0))
        t = float(T.fd['gamma']) / lam_
        if 0.4 <= t <= 2.5:
            Y = T.lin.op.range
            return (lam_ * S.L1Norm(Y), (1.0 / (2 * t)) * S.L2NormSquared(Y),
                    min(t, 1.0 / t))
    return T.g, None, np.inf


def _lam_arg(lam, st_):
    """`lam` as a float or as the documented callable k -> lam_k (two
    alternating admissible values)."""
    if not st_.get('lam_callable'):
        return lam
    return lambda k: lam if k % 2 == 0 else 0.8 * lam


def _setup(solver, P, case):
    """Map the problem onto the solver's signature and choose admissible
    step sizes.  Returns an object with ``run(x, niter, cb, **state)``."""
    st_ = case['steps']
    frac, ratio = float(st_['frac']), float(st_['ratio'])
    U = _Setup()
    U.lins = ([P.A] if P.A is not None else []) + [T.lin for T in P.terms]
    pairs = [(T.lin, T.g, T.ystar) for T in P.terms]
    U.tags = []
    X = P.X
    if solver in ('proxgrad', 'accel'):
        smooth, lip = P.data_term(), P.lip_data
        for T in P.terms:
            smooth = smooth + T.g * T.lin.op
            lip += T.lin.norm ** 2 * pb.ref_subdiff(
                T.fd, T.data, T.lin.op.range, T.lin.dY,
                T.lin.M @ P.xstar).lip
        f = P.phi
        if solver == 'proxgrad':
            gamma = frac * 2 / lip
            beta = 1 / lip
            lam = 1.0 if not st_['relax'] else 0.7 * min(1.0, beta / gamma)
            lam_a = _lam_arg(lam, st_)
            U.run = lambda x, n, cb: S.proximal_gradient(
                x, f, smooth, gamma, n, callback=cb, lam=lam_a)
            U.region = 'lam=1' if lam == 1.0 else 'lam<1'
            U.tags = ['lam-callable'] if callable(lam_a) else []
        else:
            gamma = frac / lip
            U.run = lambda x, n, cb: S.accelerated_proximal_gradient(
                x, f, smooth, gamma, n, callback=cb)
            U.region = 'gamma<=1/L'
        return U
    if solver == 'fb':
        f = P.phi
        h = P.data_term() if P.has_data else S.ZeroFunctional(X)
        beta = P.lip_data
        split = [_split_l(T, st_.get('via_l')) for T in P.terms]
        kw = {}
        if any(li is not None for _, li, _ in split):
            # documented condition: 2 min{1/tau, 1/sigma_i} min{eta, nu_i}
            # sqrt(1 - tau sum sigma_i ||L_i||^2) > 1 with eta = 1/beta
            kw['l'] = [li if li is not None else
                       S.IndicatorZero(T.lin.op.range)
                       for (_, li, _), T in zip(split, P.terms)]
            beta = max(beta, 1.0 / min(nu for _, _, nu in split))
            U.tags = ['via-l']
        sq = sum(T.lin.norm ** 2 for T in P.terms)
        q = frac * 0.6
        tmax = np.inf if beta == 0 else 0.9 * 2 * np.sqrt(1 - q) / beta
        # tau = t * r, sigma_i = t with r <= 1: tau sum sigma ||L||^2 = q
        r = min(ratio, 1.0)
        t = min(np.sqrt(q / (r * sq)) if sq > 0 else 1.0, tmax)
        tau, sig = t * r, [t] * len(P.terms)
        gs = [gi for gi, _, _ in split]
        Ls = [T.lin.op for T in P.terms]
        U.run = lambda x, n, cb: S.forward_backward_pd(
            x, f, gs, Ls, h, tau, sig, n, callback=cb, **kw)
        U.region = 'm={}'.format(min(len(gs), 2)) + \
            (',l' if kw else '')
        return U
    # pdhg / dr / admm
    if case['map'] == 'quadf':
        if not (P.has_data and P.A is None and P.phi_fd['kind'] == 'zero'):
            raise HarnessError('quadf mapping needs phi = 0 and A = I')
        f = P.data_term()
    else:
        f = P.phi
        if P.has_data:
            lin = P.A if P.A is not None else pb.LinOp(
                odl.IdentityOperator(X), P.dX)
            ydata = lin.M @ P.xstar - P.b
            pairs = pairs + [(lin, P.data_term(as_g=True), ydata)]
    U.region = 'map=' + case['map']
    if solver == 'dr':
        gs = [g for _, g, _ in pairs]
        Ls = [lin.op for lin, _, _ in pairs]
        m = len(pairs)
        tau = ratio
        sq = [max(lin.norm, 1e-9) ** 2 for lin, _, _ in pairs]
        sig = [4 * frac * 0.9 / (m * tau * s) for s in sq]
        lam = _lam_arg(float(st_['lam']), st_)
        kw = {}
        split = [_split_l(T, st_.get('via_l')) for T in P.terms]
        if any(li is not None for _, li, _ in split):
            # the first len(P.terms) pairs are the terms (a data pair may
            # follow): g_i box l_i for the split ones, l = indicator of {0}
            # (documented as the plain problem) for the others
            for i, (gi, li, _) in enumerate(split):
                gs[i] = gi
            kw['l'] = [split[i][1] if i < len(split) and
                       split[i][1] is not None else S.IndicatorZero(L_.range)
                       for i, L_ in enumerate(Ls)]
            U.tags.append('via-l')
        if callable(lam):
            U.tags.append('lam-callable')
        U.run = lambda x, n, cb: S.douglas_rachford_pd(
            x, f, gs, Ls, n, tau=tau, sigma=sig, callback=cb, lam=lam, **kw)
        U.region += ',m={}'.format(min(m, 2)) + (',l' if kw else '')
        return U
    if not pairs:
        raise HarnessError('pdhg / admm need at least one term')
    L, g, ystar = _stack(P, pairs)
    U.stacked = len(pairs) > 1
    nrm = max(L.norm, 1e-9)
    if solver == 'pdhg':
        s0 = np.sqrt(frac) / nrm
        tau, sigma = s0 * ratio, s0 / ratio
        theta = float(st_['theta'])
        U.ystar, U.Y = ystar, L.op.range
        akw = {}
        accel = st_.get('accel', 'none')
        if accel == 'primal':
            if case['map'] != 'quadf':
                raise HarnessError('gamma_primal needs the quadf mapping')
            akw['gamma_primal'] = float(st_['gfrac']) * 1.0
        elif accel == 'dual':
            mods = [1.0]
            for T in P.terms:
                lam_ = float(T.fd.get('lam', 1.0))
                if T.fd['kind'] == 'l2sq':
                    mods.append(1.0 / (2 * lam_))
                elif T.fd['kind'] == 'huber':
                    mods.append(float(T.fd['gamma']) / lam_)
                else:
                    raise HarnessError('gamma_dual needs smooth terms')
            akw['gamma_dual'] = float(st_['gfrac']) * min(mods)
        U.run = lambda x, n, cb, **kw: S.pdhg(
            x, f, g, L.op, int(n), tau=tau, sigma=sigma, theta=theta,
            callback=cb, **dict(akw, **kw))
        U.region += ',theta={:g}'.format(theta) if accel == 'none' \
            else ',accel=' + accel
        return U
    sigma = ratio
    tau = frac * sigma / nrm ** 2
    U.run = lambda x, n, cb: admm_linearized(x, f, g, L.op, tau, sigma, n,
                                             callback=cb)
    return U


from odl.solvers.nonsmooth.admm import admm_linearized  # noqa: E402


def _speed_numbers(P, family):
    """(c1, c2, c3): condition of the data operator (of the constraint
    operator for the equality-constrained family), largest condition of the
    L_i over their non-zero singular values, and the scale mismatch
    sqrt(||A||^2 + sum ||L_i||^2 max(1, Lip_i)) / sigma_min(A)."""
    if family == 'eqcon':
        c1 = P.cond_eq
    else:
        c1 = P.normA / max(P.sminA, 1e-300)
    c2, tot = 1.0, P.normA ** 2
    for T in P.terms:
        if T.fd['kind'] == 'indzero':
            continue
        sv = np.linalg.svd(pb.sym_matrix(T.lin.M, P.dX, T.lin.dY),
                           compute_uv=False)
        c2 = max(c2, _cond_of(sv))
        lip = pb.ref_subdiff(T.fd, T.data, T.lin.op.range, T.lin.dY,
                             T.lin.M @ P.xstar).lip
        tot += T.lin.norm ** 2 * max(1.0, min(lip, 1e6))
    c3 = np.sqrt(tot) / max(P.sminA, 1e-300) if family != 'eqcon' else c1
    return float(c1), float(c2), float(c3)


def _cond_class(P, family):
    """'lo' / 'mid' / 'hi': the rate class of a first-order method on the
    problem (drives the calibrated iteration budget)."""
    c = max(_speed_numbers(P, family))
    return 'lo' if c <= 4 * (1 + 1e-6) else \
        ('mid' if c <= 12 * (1 + 1e-6) else 'hi')


def _calib_solver(desc):
    """Row name of the calibration table (accelerated pdhg has rows of its
    own: its O(1/N) phase differs from the plain iteration)."""
    acc = desc['c']['steps'].get('accel', 'none')
    return desc['solver'] if acc == 'none' else 'pdhg+' + acc


def _iterate(U, P, x, K, target, solver, checkpoint=None):
    """Run up to K iterations; stop at the first iterate within ``target``
    of x* (or when the iteration has left every reasonable bound, or when
    the error at iteration ``checkpoint[0]`` still exceeds
    ``checkpoint[1]``: no substantial progress)."""
    st_ = {'k': 0, 'err': None, 'x': None, 'diverged': False,
           'stalled': False, 'qmax': 0.0, 'qmin': np.inf, 'qfirst': None}
    err0 = P.err(x)
    blow = 1e8 * max(err0, P.scale)

    def cb(v):
        st_['k'] += 1
        e = P.err(v)
        st_['err'] = e
        if not np.isfinite(e) or e > blow:
            st_['x'] = toflat(v, P.X)
            st_['diverged'] = True
            raise _Stop()
        if e <= target:
            st_['x'] = toflat(v, P.X)
            raise _Stop()
        if checkpoint is not None and st_['k'] <= checkpoint[0]:
            # the error has to stay below the bound during the whole last
            # quarter before the checkpoint: an iteration that merely
            # oscillates through the bound is not "visibly converging"
            if 4 * st_['k'] > 3 * checkpoint[0]:
                st_['qmax'] = max(st_['qmax'], e)
                st_['qmin'] = min(st_['qmin'], e)
                if st_['qfirst'] is None:
                    st_['qfirst'] = e
            # ... and still has to decrease visibly (3 % over that quarter;
            # the slowest tails observed, ~k^-0.45, lose 12 %): an iteration
            # that has settled at a wrong point is not converging
            if st_['k'] == checkpoint[0] and (
                    st_['qmax'] > checkpoint[1] or
                    st_['qmin'] > 0.97 * st_['qfirst']):
                st_['x'] = toflat(v, P.X)
                st_['stalled'] = True
                raise _Stop()

    try:
        U.run(x, K, cb)
        st_['x'] = toflat(x, P.X)
        st_['err'] = P.err(x)
    except _Stop:
        pass
    return st_


def _nonsmooth(desc, strata):
    solver, clause, case = desc['solver'], desc['clause'], desc['c']
    name = NS_NAMES[solver]
    family = case['family']
    P = pb.build_nonsmooth(case['p'])
    U = _setup(solver, P, case)
    if case['steps'].get('accel', 'none') != 'none':
        strata.append('{}:pdhg+{}'.format(clause, case['steps']['accel']))
    strata += ['{}:{}'.format(clause, solver), 'family:' + family,
               'domain:' + _dom_kind(case['p']['domain']),
               'phi:' + P.phi_fd['kind']]
    for T in P.terms:
        strata.append('g:' + T.fd['kind'])
    strata += _op_tags([t['L'] for t in case['p']['terms']],
                       '{}:{}'.format(clause, solver),
                       stacked=getattr(U, 'stacked', False))
    if case['p'].get('A') is not None:
        strata.append('A:' + case['p']['A']['kind'])
    ex = _exact_or_excluded(U.lins, strata)
    if ex is not None:
        return ex
    cc = _cond_class(P, family)
    strata.append('cond:' + cc)
    strata += ['{}:{}'.format(solver, t) for t in getattr(U, 'tags', [])]
    active = P.phi_active or any(T.active for T in P.terms)
    if active:
        strata.append('nonsmooth-active')
    X = P.X
    xnorm = wnorm(P.xstar, P.dX)

    if clause == 'fixed':
        x = unflat(P.xstar, X)
        seq = []
        cb = lambda v: seq.append(P.err(v))  # noqa: E731
        if solver == 'pdhg':
            U.run(x, 5, cb, x_relax=unflat(P.xstar, X),
                  y=unflat(U.ystar, U.Y))
        else:
            U.run(x, 5, cb)
        seq.append(P.err(x))
        tol = 1e-9 * max(P.scale, xnorm)
        worst = max(seq)
        if not worst <= tol:
            raise Violation(
                'C12|fixed-point|{}|{}'.format(name, U.region),
                'started at the solution, the iterate moves away by {:.3g} '
                '(tol {:.3g}) within 5 iterations: {}'.format(
                    worst, tol, [float('%.3g' % e) for e in seq]))
        return Outcome('ok', strata=strata,
                       nontrivial=xnorm > 0 and (active or cc != 'lo'
                                                 or len(P.terms) > 0))

    # ---- progress + KKT
    if solver == 'fb' and family == 'eqcon' and not desc.get('probe_known'):
        # region of the known finding C12-K1 (forward_backward_pd loses its
        # over-relaxation and stalls on equality-constrained problems):
        # excluded by construction and counted (DESIGN section 4); the
        # finding's own replay carries "probe_known" and is executed once
        # per run.  Remove this block when C12-K1 is fixed.
        return Outcome('excluded', strata=strata + ['excluded:C12-K1'])
    x0 = P.x0
    err0 = wnorm(x0 - P.xstar, P.dX)
    if err0 == 0:
        return Outcome('trivial', strata=strata)
    if cc == 'hi':
        # ill-conditioned problems: first-order methods are arbitrarily
        # slow; only boundedness is asserted (catches divergence)
        # (a run that has come within 0.1 RHO of the solution has shown
        # what this clause asks for and is not iterated further: cost)
        res = _iterate(U, P, unflat(x0, X), K_STABILITY, 0.1 * RHO * err0,
                       solver)
        if res['diverged'] or not res['err'] <= 1e3 * max(err0, P.scale):
            raise Violation(
                'C12|stability|{}|family={},{}'.format(name, family,
                                                       U.region),
                'iterates leave every bound: ||x_K - x*|| = {:.3g} after '
                '{} iterations (start {:.3g})'.format(res['err'], res['k'],
                                                      err0))
        return Outcome('ok', strata=strata + ['progress:stability-only'],
                       nontrivial=True)
    K, rho = CALIB.get((_calib_solver(desc), family, cc), CALIB_DEFAULT)
    target = rho * err0
    # One run, stopped at the first iterate within the target: the same
    # verdict as "run K, on a miss re-run with 4K" (the iteration does not
    # depend on niter) at a lower cost.  A run that has made substantial
    # progress by 4K (error below RHO_SLOW * start from 3K to 4K) but is in one of the
    # slow (sublinear) tails of the primal-dual methods gets SLOW_FACTOR
    # times the budget before the miss counts; a run still above RHO_SLOW at
    # 4K is a miss.
    # Problems on X x X with full block operators cost 4-6 block evaluations
    # per operator call: no slow-tail extension there (measured: at most 583
    # iterations over 412 generated problems of that kind, 4K >= 4000).
    sf = 1 if case['p']['domain'].get('square') else SLOW_FACTOR
    res = _iterate(U, P, unflat(x0, X), sf * 4 * K, target, solver,
                   checkpoint=(4 * K, RHO_SLOW * err0))
    if res['k'] > K:
        strata.append('progress:needed-more-than-K')
    if res['k'] > 4 * K:
        strata.append('progress:slow-tail-extension')
    if res['diverged'] or not res['err'] <= target:
        raise Violation(
            'C12|progress|{}|family={},{}'.format(name, family, U.region),
            '{} after {} iterations: ||x_K - x*|| = {:.3g}, ||x_0 - x*|| = '
            '{:.3g} (asserted ratio {:g} within {} iterations, {:g} by {}; '
            'cond class {})'.format(
                'diverged' if res['diverged'] else 'no progress',
                res['k'], res['err'], err0, rho, sf * 4 * K,
                RHO_SLOW, 4 * K, cc))
    # KKT residual at the reached point, through sub-gradient inclusion
    eps = target
    delta = 2 * eps / np.sqrt(P.dX.min())
    const, blocks = pb.kkt_sets(P, res['x'], delta)
    lipsum = P.lip_data + sum(
        T.lin.norm ** 2 * blk[1].lip
        for T, blk in zip(P.terms, blocks[1:]))
    lipsum += blocks[0][1].lip
    tol = 2 * lipsum * eps + 1e-9 * max(P.scale, xnorm)
    dist, feas = pb.inclusion_distance(const, blocks, P.dX, tol)
    if not dist <= tol:
        raise Violation(
            'C12|kkt|{}|family={},{}'.format(name, family, U.region),
            'the reached point (||x - x*|| = {:.3g}) is {} from satisfying '
            '0 in subdiff(phi)(x) + A^*(Ax-b) + sum L_i^* subdiff(g_i)(L_i '
            'x): distance {:.3g} > tol {:.3g}'.format(
                res['err'], 'infeasible' if not feas else 'far', dist, tol))
    r_ = res['k'] / float(K)
    strata.append('k/K:' + ('<=0.01' if r_ <= 0.01 else '<=0.1' if r_ <= 0.1
                            else '<=1' if r_ <= 1 else '<=4'))
    strata.append('iters:' + ('<=100' if res['k'] <= 100 else
                              '<=1000' if res['k'] <= 1000 else
                              '<=10000' if res['k'] <= 10000 else '>10000'))
    return Outcome('ok', strata=strata,
                   nontrivial=(active or cc != 'lo') and res['k'] >= 2,
                   notes={'iterations': res['k']})


def _dr_fixed_dual(c, strata):
    """`douglas_rachford_pd` keeps its auxiliary variable x and its duals
    v_i private (v starts at 0).  A state (xbar, v = 0) is a fixed point of
    the documented iteration
        p1 = prox_{tau f}(x - tau/2 sum L_i^* v_i),      w1 = 2 p1 - x,
        p2_i = prox_{sigma_i g_i^*}(v_i + sigma_i/2 L_i w1), w2_i = 2 p2_i - v_i,
        z1 = w1 - tau/2 sum L_i^* w2_i,                  x += lam (z1 - p1),
        z2_i = w2_i + sigma_i/2 L_i (2 z1 - w1),         v_i += lam (z2_i - p2_i)
    with p1 = x*, p2_i = y_i* iff (x*, y*) is a KKT pair,
    y_i* = -sigma_i/2 L_i xbar and xbar = x* - tau sum L_j^* y_j*.  For
    quadratic g_i the certificate is free, so x* is drawn, y* solved from
    these linear equations, and a, b_i from the KKT system: every primal
    iterate the solver shows (callback) and its result must then equal x*.
    """
    X = pb.build.build_space(c['domain'])
    dX = pb.gram_diag(X)
    n = dX.size
    rng = np.random.RandomState(int(c['seed']) % (2 ** 32))
    lins = [pb.LinOp(pb.build_operator(t['L'], X), dX) for t in c['terms']]
    strata += ['fixed-dual:dr', 'domain:' + _dom_kind(c['domain'])] + \
        _op_tags([t['L'] for t in c['terms']], 'fixed-dual:dr')
    ex = _exact_or_excluded(lins, strata)
    if ex is not None:
        return ex
    m = len(lins)
    tau = float(c['tau'])
    sq = [max(l.norm, 1e-9) ** 2 for l in lins]
    sig = [4 * float(c['frac']) * 0.9 / (m * tau * s_) for s_ in sq]
    xstar = np.round(rng.standard_normal(n) * float(c['xscale']), 3)
    Ladj = np.hstack([l.adj for l in lins])            # n x sum m_i
    Lst = np.vstack([l.M for l in lins])
    D = np.concatenate([np.full(l.dY.size, s_ / 2) for l, s_ in
                        zip(lins, sig)])
    # y + D L (x* - tau L^* y) = 0
    Msys = np.eye(len(D)) - tau * (D[:, None] * (Lst @ Ladj))
    svs = np.linalg.svd(Msys, compute_uv=False)
    if svs[-1] < 1e-3 * max(svs[0], 1.0):
        return Outcome('trivial', strata=strata + ['fixed-dual:singular'])
    ystar = np.linalg.solve(Msys, -D * (Lst @ xstar))
    xbar = xstar - tau * (Ladj @ ystar)
    a = xstar + Ladj @ ystar
    f = (0.5 * S.L2NormSquared(X)).translated(unflat(a, X))
    gs, pos = [], 0
    for t, l in zip(c['terms'], lins):
        mi = l.dY.size
        yi = ystar[pos:pos + mi]
        pos += mi
        lam_i = float(t['lam'])
        fd = {'kind': 'l2sq', 'lam': lam_i, 'form': t['form']}
        gs.append(pb.make_functional(
            fd, l.op.range, {'b': l.M @ xstar - yi / (2 * lam_i)}))
    x = unflat(xbar, X)
    seq = []
    S.douglas_rachford_pd(x, f, gs, [l.op for l in lins], 5, tau=tau,
                          sigma=sig, lam=float(c['lam']),
                          callback=lambda v: seq.append(
                              wnorm(toflat(v, X) - xstar, dX)))
    seq.append(wnorm(toflat(x, X) - xstar, dX))
    scale = max(wnorm(xstar, dX), wnorm(xbar, dX), np.abs(a).max(), 1e-300)
    tol = 1e-9 * scale / min(svs[-1] / max(svs[0], 1.0), 1.0)
    if not max(seq) <= tol:
        raise Violation(
            'C12|fixed-point|douglas_rachford_pd|dual-certificate,m={}'
            ''.format(m),
            'started at the fixed point (xbar, v = 0) whose primal iterate '
            'is the solution, the primal iterates leave x* by {:.3g} (tol '
            '{:.3g}): {}'.format(max(seq), tol,
                                 [float('%.3g' % e) for e in seq]))
    return Outcome('ok', strata=strata,
                   nontrivial=bool(np.max(np.abs(ystar)) > 1e-6 * scale))


# --------------------------------------------------------------------------

def run_case(desc):
    clause = desc['clause']
    c = desc['c']
    if clause == 'fixed-dual':
        return _dr_fixed_dual(c, [])
    if clause in ('fixed', 'progress'):
        return _nonsmooth(desc, [])
    strata = ['domain:' + _dom_kind(c['domain'])] if 'domain' in c else []
    if clause == 'cg':
        return _cg(c, strata)
    if clause in ('cgn', 'landweber'):
        return _residual_clause(c, strata, clause)
    if clause == 'kaczmarz':
        return _kaczmarz(c, strata)
    if clause == 'steepest':
        return _steepest(c, strata)
    if clause == 'power':
        return _power(c, strata)
    if clause == 'stepsize':
        return _stepsize(c, strata)
    raise HarnessError('unknown clause ' + clause)


REQUIRED_STRATA = (
    ['fixed:' + s for s in NS_SOLVERS] + ['fixed-dual:dr'] +
    ['progress:' + s for s in NS_SOLVERS] +
    ['fixed:pdhg+primal', 'fixed:pdhg+dual', 'progress:pdhg+primal',
     'progress:pdhg+dual'] +
    ['cg', 'cgn', 'landweber', 'kaczmarz', 'kaczmarz:random',
     'kaczmarz:norms-differ-5x', 'steepest', 'power',
     'scale=op:1e-09', 'scale=op:0.0001', 'scale=op:1', 'scale=op:10000',
     'scale=op:1e+09', 'scale=x:1e-09', 'scale=x:1e+09', 'warm-start',
     'stepsize:pdhg', 'stepsize:dr', 'given:none', 'given:tau',
     'given:sigma', 'given:both', 'power:selfadjoint', 'power:normal',
     'family:strong', 'family:eqcon', 'family:kl',
     'g:l1', 'g:l2', 'g:groupl1', 'g:l2sq', 'g:box', 'g:huber', 'g:kl',
     'g:indzero', 'phi:l1', 'phi:box', 'phi:nonneg', 'phi:l2', 'phi:zero',
     'op:matrix', 'op:gradient', 'op:broadcast', 'op:pso', 'op:identity',
     'domain:tensor', 'domain:tensor-weighted', 'domain:discr',
     'domain:pspace', 'cond:lo', 'cond:mid', 'cond:hi',
     'nonsmooth-active', 'cgn:ls-checked', 'cg:clustered',
     'cond<=1e0', 'cond<=1e2', 'cond<=1e4',
     # same-space operators with non-alias-safe in-place evaluation
     'domain:sqpspace', 'op:square-inplace', 'op:laplacian', 'op:partial',
     'op:pso_square', 'op:pso_cut', 'landweber:square-inplace',
     'cgn:square-inplace', 'kaczmarz:square-inplace',
     'power:square-inplace', 'steepest:square-inplace',
     'fixed:pdhg:square-inplace', 'progress:pdhg:square-inplace',
     'progress:admm:square-inplace', 'progress:dr:square-inplace',
     'progress:fb:square-inplace', 'progress:proxgrad:square-inplace',
     'progress:accel:square-inplace',
     'cg:matrix', 'cg:block', 'cg:neglap', 'cg:start-at-solution',
     # documented options
     'landweber:projection', 'kaczmarz:projection', 'dr:via-l', 'fb:via-l',
     'dr:lam-callable', 'proxgrad:lam-callable', 'ls-direct:descent',
     'ls-direct:ascent', 'ls-direct:callable', 'power:maxiter-none'])
