"""C05 - every exposed adjoint is the adjoint in the spaces' own inner product.

Generator: the linear-operator catalogue ``vlib/zoo_linops.py`` (every linear
operator class with an adjoint in default_ops / tensor_ops / pspace_ops /
diff_ops / discr_ops / trafos / ufunc_ops, the linear operators returned by
``derivative`` of non-linear ones, on default, const-/array-weighted, complex,
boundary-node and product spaces, explicit domain/range of different
weighting) plus typed random linear expression trees and block operators.

Oracle: with the real-ified matrices ``M`` of ``A`` and ``N`` of
``A.adjoint`` (applied to the real basis) and the Gram matrices of domain and
range taken through the library's own ``inner``:  ``N^T G_X = G_Y M``  (this
is ``Re<Ax,y> = Re<x,A*y>`` for *all* x, y), complex-linearity of ``N`` when
``A`` is complex-linear between complex spaces, ``adjoint.domain/range``,
and ``matrix(A.adjoint.adjoint) == M``.  Every matrix is extracted in both call
styles - ``op(x)`` and ``op(x, out=z)`` with a NaN-filled ``z`` - which have to
agree (clause inplace-matrix) and both enter the Gram identity.  Operands of composite operators are
checked first (bottom-up), so a failure is attributed to the deepest operator
whose own adjoint rule is wrong.

Aliasing: every evaluation (of A, A.adjoint, A.adjoint.adjoint, both call
styles) has to leave its argument bit-unchanged (clause operand-modified;
``Operator.__call__`` documents the argument as immutable), and the direct
pair <Ax,y> = <x,A*y> is evaluated with the same two element objects on both
sides in both orders.  The family ``views`` puts operators whose result is a
view of their argument (flattening operator, its inverse, their compositions)
below every arithmetic wrapper and next to a second operand that receives the
same argument, so that a wrapper scaling "its" result in place is seen both
directly and through the second use.
"""
import numpy as np

from vlib import build, flat, zoo_linops as zoo
from vlib.core import Violation, Outcome, HarnessError
from vlib.core import import_odl

odl = import_odl()
from odl.operator.operator import Operator  # noqa: E402
from odl.space.pspace import ProductSpace  # noqa: E402
from odl.operator.pspace_ops import (  # noqa: E402
    ProductSpaceOperator, BroadcastOperator, ReductionOperator)
from odl.set.sets import Field  # noqa: E402
from odl.discr import DiscretizedSpace  # noqa: E402

PROPERTY = 'C05'
TECHNIQUE = ('Hypothesis property-based testing: generated operator '
             'configurations and typed linear expression trees, decided by '
             'the exact Gram-matrix identity N^T G_X = G_Y M on small spaces; '
             'descriptor replay')
LEVEL_TEXT = ('Generated-input search over operator class x construction '
              'options x space kind (default / const- / array-weighted / '
              'complex / boundary-node / product) and over random linear '
              'expression trees and block operators. Each configuration is '
              'decided for ALL x, y at once: the full real-ified matrices of '
              'A, A.adjoint and A.adjoint.adjoint are extracted and compared '
              'through the Gram matrices of the spaces\' own inner products, '
              'so an adjoint that is wrong only on a subspace (boundary rows, '
              'imaginary parts) cannot hide. Exploration, not proof: spaces '
              'have real dimension <= ~40 and configurations are sampled.')
LEVEL_NOTE = ('Trusted: the library\'s inner products (pinned by C02), NumPy '
              'linear algebra, Hypothesis, vlib/build.py + vlib/flat.py. '
              'Exempt by the property text: Resampling, RayTransform, '
              'LinDeform*. Known scaling defect of DFT/FT adjoints (F09) is '
              'still checked in the weaker form "N = M^T up to the documented '
              'positive frequency-wise constant".')
DESIGN_REF = 'DESIGN.md section 5, C05'
BUDGET = {'quick': 8000, 'thorough': 120000}
K_TOL = 64
TOLERANCES = {
    'floor': 'every comparison has the absolute floor 1e6 * tiny(float32 or '
             'float64, by working precision): subnormal results carry no '
             'relative accuracy',
    'gram': '||N^T G_X - G_Y M||_F <= 64*eps*dim*scale; eps = coarsest '
            'floating dtype among the leaves of domain and range, dim = '
            'max(rdim X, rdim Y), scale = max(||N^T G_X||_F, ||G_Y M||_F, '
            '||G_Y||_F * product/sum bound of the operand matrices); '
            'FFT-based classes get an extra factor (1 + log2 n)',
    'adjadj': '||matrix(A.adjoint.adjoint) - M||_F <= 64*eps*dim*||M||-bound',
    'complex_linear': '||N J_Y - J_X N||_F <= same tolerance, asserted only '
                      'when ||M J_X - J_Y M|| is within it',
    'linearity': '|A(x) - M x| <= 4*64*eps*dim*(||M|| ||x||) on one vector, '
                 'A(0) = 0 to the same tolerance',
    'repeatable': '|A(x)_first call - A(x)_after the matrix extraction| <= '
                  'the linearity tolerance (no bit comparison: pyfftw plans)',
    'inplace': '||M_inplace - M||_F + |A(0)_inplace - A(0)| <= 2*64*eps*dim*'
               '||M||-bound for A, A.adjoint and A.adjoint.adjoint (out= '
               'element NaN-filled before every call); Gram identity on the '
               'in-place matrices to twice the gram tolerance',
    'pair': '|Re<Ax,y> - Re<x,A*y>| <= 4*64*eps*dim*scale*||x||*||y|| for '
            'one dense pair, the same element objects x, y on both sides, '
            'evaluated A-first and adjoint-first',
    'operand-modified': 'exact: the real-ified entries of the argument '
                        'before and after every call are compared with '
                        'array_equal (basis vectors, the zero vector and '
                        'the dense pair; out-of-place and in-place calls)',
    'dft_proportional': 'column-/row-wise fit N = M^T diag(w): residual <= '
                        '1e3*eps*(1+log2 n) relative, w > 0, and for the '
                        'plain DFT w == D_k / prod(n_axes) to the same '
                        'tolerance',
}
ASSUMPTIONS = [
    'spaces have real dimension <= ~40 (the identity is decided exactly '
    'there; size-dependent code paths of the adjoints are not reached)',
    'every catalogue configuration carries a documentation-derived '
    'expectation (zoo_linops.adjoint_expectation): OFFERED (class documents '
    'an adjoint; arithmetic combinations / block operators whose operands '
    'all offer adjoints) -> any exception or None from .adjoint, and any '
    'exception from applying it, is a violation; REFUSED (classes without '
    'an adjoint of their own: LinCombOperator, PowerOperator(1), linear '
    'ufunc_ops -> OpNotImplementedError; biorthogonal wavelets -> '
    'OpNotImplementedError; complex scalar multiple of an operator between '
    'a real and a complex space -> TypeError) -> only the documented type '
    'passes (clause refusal-type), a returned adjoint is checked like any '
    'other; SILENT (counted as adjoint_unavailable(docs-silent), refusal '
    'types ValueError/TypeError/NotImplementedError only): '
    'ConstantOperator(0).adjoint (returns None), MatrixOperator whose range '
    'dtype is not castable to the domain dtype (complex matrix on a real '
    'domain, float32 -> float64), composites with an operand that offers no '
    'adjoint, and the wrapper entry "adjoint" (already examined as '
    'operand.adjoint.adjoint)',
    'once A returned an adjoint, A.adjoint.adjoint has to act like A; it may '
    'decline only with TypeError when the tree contains a complex-typed '
    'scalar multiple (conjugate outside the field of a real space)',
    'between two complex spaces the full complex identity is asserted only '
    'for complex-linear A; R-linear A (e.g. embed o realpart) is compared in '
    'real part, like operators between a real and a complex space',
    'Fourier transforms on real domains are generated with shift=True and, '
    'for the continuous transform, halfcomplex=True only (other settings '
    'crash in the forward call: C18 findings F19/F30)',
    'wavelet adjoints only for orthogonal wavelets, pad_mode pywt_periodic, '
    'transformed sizes divisible by 2^nlevels (documented exactness region)',
    'vectors inside operators (multiplicands, derivative points) are '
    'half-integers from a seeded RandomState, seed 0 = all ones',
    'Operator.__call__ documents its argument as "treated as immutable, '
    'hence it is not modified during evaluation": a call that changes its '
    'argument is reported (clause operand-modified) because the identity '
    '<Ax,y> = <x,A*y> then fails for the natural evaluation with one x; a '
    'result that merely shares memory with the argument is allowed '
    '(documented for FlatteningOperator-like operators) and counted as '
    'stratum alias:result-views-argument',
    'family inverses: A.inverse of configurations that are invertible by '
    'construction (non-zero scalars and vectors, diagonally dominant '
    'matrices, flattening, embeddings, resizing pseudo-inverse, and their '
    'scalar / vector multiples, compositions, diagonal block operators) is '
    'examined like any other operator; the documentation does not say that '
    'an inverse offers an adjoint (expectation silent), a missing inverse '
    'makes the case trivial',
]
RULE = ('Hypothesis draws a family (15 families: default_ops, complex_ops, '
        'matrix, sampling, pointwise, projection, diff_ops, resize, fourier, '
        'wavelet, blocks, derivs, tree, views, inverses; weighted towards '
        'expression trees), '
        'then a catalogue entry with its options and spaces, or a typed '
        'expression tree of depth 1-3 (sum, composition, left/right scalar '
        'and vector multiples in * and @ spelling, +A, -A, adjoint-of, '
        'power, explicit temporaries, block operators with zero blocks '
        'spelled None or 0) over a small universe of spaces; family views: '
        'a view-returning core (FlatteningOperator, its inverse, their '
        'compositions, identity) under one of 12 arithmetic wrappers (v*A, '
        'A*v, s*A, A*s, A/s, -A, MultiplyOperator before/after, adjoint of a '
        'wrapped view in the opposite direction), alone or combined with a '
        'second operand receiving the same argument (sum, difference, '
        'broadcast, block column) or sharing an accumulator / chain '
        '(reduction, block row, diagonal, 2x2 block operator, outer wrapper, '
        'composition), the unwrapped view on either side; family inverses: '
        'A.inverse of invertible configurations; every operand of a '
        'composite is checked before the composite (bottom-up); '
        'non-trivial = the oracle was evaluated and (some space is weighted, '
        'complex, product or has boundary nodes, or the tree has depth >= 2); '
        'distinct by sha1 of the descriptor')

FFT_CLASSES = ('DiscreteFourierTransform', 'DiscreteFourierTransformInverse',
               'FourierTransform', 'FourierTransformInverse')


def strategy(tier):
    return zoo.cases()


EXHAUSTIVE = {
    'quick': ['finite-difference adjoint tables: PartialDerivative x 3 '
              'methods x 10 pad modes (6 documented + their 4 adjoint modes) '
              'x axis sizes 3..6 x {real, complex} in 1-D; Gradient and '
              'Divergence x 3 methods x 10 pad modes on a (3, 4) grid; '
              'Laplacian x 4 pad modes x sizes 3..6 and (3, 4); all on '
              'discretizations without boundary nodes'],
}
EXHAUSTIVE['thorough'] = EXHAUSTIVE['quick']


def enumerate_cases(tier):
    def discr(shape, dtype):
        return {'kind': 'discr', 'min': [0.0] * len(shape),
                'max': [float(n) * 0.5 for n in shape], 'shape': list(shape),
                'dtype': dtype, 'exponent': 2.0, 'nodes_on_bdry': False,
                'weighting': None}
    pads = zoo.DIFF_PADS + zoo.DIFF_PADS_ADJ
    cases = []
    for dtype in ('float64', 'complex128'):
        for n in (3, 4, 5, 6):
            sp = {'X': discr([n], dtype)}
            for method in zoo.DIFF_METHODS:
                for pad in pads:
                    cases.append({'family': 'diff_ops', 'spaces': sp, 'op': {
                        'e': 'partial', 'sp': 'X', 'ran': None, 'axis': 0,
                        'method': method, 'pad_mode': pad}})
            for pad in zoo.LAPL_PADS:
                cases.append({'family': 'diff_ops', 'spaces': sp, 'op': {
                    'e': 'laplacian', 'sp': 'X', 'ran': None,
                    'pad_mode': pad}})
    sp = {'X': discr([3, 4], 'float64')}
    for method in zoo.DIFF_METHODS:
        for pad in pads:
            cases.append({'family': 'diff_ops', 'spaces': sp, 'op': {
                'e': 'gradient', 'sp': 'X', 'ran': None, 'method': method,
                'pad_mode': pad}})
            cases.append({'family': 'diff_ops', 'spaces': sp, 'op': {
                'e': 'divergence', 'sp': 'X', 'dom': None, 'method': method,
                'pad_mode': pad}})
    for pad in zoo.LAPL_PADS:
        cases.append({'family': 'diff_ops', 'spaces': sp, 'op': {
            'e': 'laplacian', 'sp': 'X', 'ran': None, 'pad_mode': pad}})
    return cases


# --------------------------------------------------------------------------
# space classification (signature regions / strata)

def _leaves(space):
    if isinstance(space, ProductSpace):
        out = []
        for s in space.spaces:
            out.extend(_leaves(s))
        return out
    return [space]


def wkind(space):
    """Declared weighting kind of a space."""
    if isinstance(space, Field):
        return 'field'
    if isinstance(space, ProductSpace):
        w = space.weighting
        if hasattr(w, 'array'):
            k = 'array'
        elif getattr(w, 'const', 1.0) != 1.0:
            k = 'const'
        else:
            k = 'none'
        inner = sorted(set(wkind(s) for s in space.spaces))
        return 'P{}[{}]'.format(k, '+'.join(inner))
    w = space.weighting
    if isinstance(space, DiscretizedSpace):
        if hasattr(w, 'array'):
            return 'discr-array'
        default = np.isclose(getattr(w, 'const', 1.0), space.cell_volume)
        return 'discr' if default else 'discr-const'
    if hasattr(w, 'array'):
        return 'array'
    if getattr(w, 'const', 1.0) != 1.0:
        return 'const'
    return 'none'


def has_bdry(space):
    for s in _leaves(space):
        if isinstance(s, DiscretizedSpace):
            frac = s.partition.boundary_cell_fractions
            if any(f != 1.0 for pair in frac for f in pair):
                return True
    return False


def fkind(space):
    return 'c' if flat.is_complex_space(space) else 'r'


def eps_of(*spaces):
    eps = np.finfo(np.float64).eps
    for sp in spaces:
        for s in _leaves(sp):
            dt = getattr(s, 'dtype', None)
            if dt is not None and np.dtype(dt).kind in 'fc':
                eps = max(eps, np.finfo(np.dtype(dt)).eps)
    return float(eps)


def gram_kind(G):
    n = G.shape[0]
    d = np.diag(G)
    off = G - np.diag(d)
    if np.abs(off).max(initial=0) > 1e-12 * max(np.abs(d).max(initial=0), 1):
        return 'full', None
    if n == 0 or np.allclose(d, d[0], rtol=1e-12, atol=0):
        c = float(d[0]) if n else 1.0
        return ('id' if c == 1.0 else 'scal'), c
    return 'diag', None


# --------------------------------------------------------------------------
# matrices with validation of what ODL returns

class Engine(object):

    def __init__(self):
        self.grams = {}
        self.strata = []
        self.notes = {'operators_checked': 0, 'adjoint_unavailable': 0}
        self.unavailable = []

    def gram(self, space):
        key = id(space)
        if key not in self.grams:
            # equal spaces (ODL's own ==, identity for array weightings)
            # share one Gram matrix
            for G, sp in list(self.grams.values()):
                if type(sp) is type(space) and sp == space:
                    self.grams[key] = (G, space)
                    return G
            n = flat.rdim(space)
            eye = np.eye(n)
            E = [flat.unflat(eye[k], space) for k in range(n)]
            G = np.empty((n, n))
            for i in range(n):
                for j in range(i, n):
                    G[i, j] = G[j, i] = np.real(
                        flat.sinner(space, E[j], E[i]))
            self.grams[key] = (G, space)
        return self.grams[key][0]

    @staticmethod
    def apply(op, x, ran, what, sig_tail):
        y = op(x)
        if isinstance(ran, Field):
            if not np.isscalar(y) and not (isinstance(y, np.ndarray) and
                                           y.ndim == 0):
                raise Violation('C05|result-type|' + sig_tail,
                                '{} returned {!r}, expected a scalar'
                                ''.format(what, type(y)))
            return y
        if y not in ran:
            raise Violation('C05|result-type|' + sig_tail,
                            '{} returned an object that is not in its range '
                            '{!r}: {!r}'.format(what, ran,
                                                getattr(y, 'space', type(y))))
        return y

    @staticmethod
    def unchanged(x, before, dom, op, what, sig_tail, style):
        """Documented (``Operator.__call__``): the argument "is treated as
        immutable, hence it is not modified during evaluation".  An operator
        that writes into its argument breaks the identity as soon as ``x`` is
        used a second time (the other side of <Ax,y> = <x,A*y>, the second
        summand of a sum, the next block of a block operator)."""
        if isinstance(dom, Field):
            return
        after = flat.flat(x, dom)
        if after.shape == before.shape and np.array_equal(after, before):
            return
        k = int(np.argmax(after != before)) if after.shape == before.shape \
            else 0
        raise Violation(
            'C05|operand-modified|{},of={},style={}'.format(sig_tail, what,
                                                            style),
            'evaluating {what} ({style}) changed its argument: real entry '
            '{k} was {b!r} before the call and is {a!r} afterwards, so '
            '<{what} x, y> and <x, ...> evaluated with the same x no longer '
            'refer to the same vector; operator = {op!r}'.format(
                what=what, style=style, k=k, b=float(before[k]),
                a=float(after[k]) if after.shape == before.shape else None,
                op=op)[:900])

    def matrix(self, op, dom, ran, what, sig_tail):
        n, m = flat.rdim(dom), flat.rdim(ran)
        zero = np.zeros(n)
        x = flat.unflat(zero, dom)
        off = flat.flat(self.apply(op, x, ran, what, sig_tail), ran)
        if off.shape != (m,):
            raise Violation('C05|result-type|' + sig_tail,
                            '{} result has {} real entries, expected {}'
                            ''.format(what, off.shape, m))
        self.unchanged(x, zero, dom, op, what, sig_tail, 'out-of-place')
        M = np.empty((m, n))
        eye = np.eye(n)
        for k in range(n):
            x = flat.unflat(eye[k], dom)
            M[:, k] = flat.flat(self.apply(op, x, ran, what, sig_tail), ran)
            # 0 and 1 are exact in every floating dtype
            self.unchanged(x, eye[k], dom, op, what, sig_tail, 'out-of-place')
        return M, off


    def matrix_inplace(self, op, dom, ran, what='A', sig_tail=''):
        """The same matrix through ``op(x, out=z)`` with a NaN-filled ``z``
        (``None`` for field-valued operators, which document that ``out``
        cannot be used)."""
        if isinstance(ran, Field):
            return None
        n, m = flat.rdim(dom), flat.rdim(ran)
        M = np.empty((m, n + 1))
        eye = np.eye(n)
        for k in range(n + 1):
            v = eye[k] if k < n else np.zeros(n)
            x = flat.unflat(v, dom)
            z = ran.element()
            for arr in build.leaf_arrays_of(z):
                arr[...] = np.nan
            op(x, out=z)
            M[:, k] = flat.flat(z, ran)
            self.unchanged(x, v, dom, op, what, sig_tail, 'in-place')
        return M[:, :n], M[:, n]

    def both_styles(self, op, dom, ran, M, off, what, tail, tol):
        """In-place matrix of ``op``; it has to agree with the out-of-place
        one (``M``, ``off``).  Returns the in-place matrix or None."""
        cls = type(op).__name__
        try:
            res = self.matrix_inplace(op, dom, ran, what, tail)
        except Violation:
            raise
        except Exception as e:  # noqa
            where, site = _where(e)
            if where != 'odl':
                raise
            raise Violation(
                'C05|inplace-crash|{}|{},of={}|{}'.format(
                    cls, tail.split('|', 1)[1], what, type(e).__name__),
                '{}(x, out=z) raises {!r} [{}] while {}(x) works'.format(
                    what, e, site, what))
        if res is None:
            self.strata.append('style:in-place-n/a(field-valued)')
            return None
        Mi, offi = res
        self.strata.append('style:in-place')
        err = _fro(Mi - M) + _fro(offi - off)
        if not err <= tol:      # also catches NaN left in ``out``
            d = np.abs(Mi - M)
            bad = ~(d <= tol)
            i, j = np.argwhere(bad)[0] if np.any(bad) else (0, 0)
            raise Violation(
                'C05|inplace-matrix|{}|{},of={}'.format(
                    cls, tail.split('|', 1)[1], what),
                '{what}(x, out=z) differs from {what}(x): ||M_inplace - '
                'M||_F = {err:.4g} (tol {tol:.3g}), e.g. entry ({i}, {j}): '
                '{a!r} in place vs {b!r} out of place; operator = {op!r}'
                ''.format(what=what, err=err, tol=tol, i=int(i), j=int(j),
                          a=float(Mi[i, j]), b=float(M[i, j]), op=op)[:900])
        return Mi


def _fro(a):
    return float(np.sqrt(np.sum(np.abs(a) ** 2)))


def _has_view(node):
    """Some operator in the subtree returns a view of its argument."""
    return node.views or any(_has_view(k) for k in node.children)


def _shares(a, b):
    """Does element ``a`` share memory with element ``b``?"""
    try:
        return any(np.shares_memory(u, v)
                   for u in build.leaf_arrays_of(a)
                   for v in build.leaf_arrays_of(b))
    except Exception:  # noqa: field elements and the like
        return False


def _worst(lhs, rhs):
    d = np.abs(lhs - rhs)
    if d.size == 0:
        return ''
    i, j = np.unravel_index(np.argmax(d), d.shape)
    return ('worst entry: Re<A e_{j},f_{i}> = {:.6g} vs Re<e_{j},A* f_{i}> = '
            '{:.6g}'.format(rhs[i, j], lhs[i, j], i=i, j=j))


# --------------------------------------------------------------------------
# the weaker relation for "adjoint := inverse" Fourier transforms (F09)

def _halfcomplex_weights(op, freq_space, real_space):
    """D_k of the half-complex storage (1 for DC/Nyquist along the halved
    axis, 2 otherwise), flattened in C order over the frequency grid."""
    shape = freq_space.shape
    D = np.ones(shape)
    if getattr(op, 'halfcomplex', False):
        ax = op.axes[-1]
        n = real_space.shape[ax]
        idx = np.arange(shape[ax])
        w = np.where((idx == 0) | ((n % 2 == 0) & (idx == n // 2)), 1.0, 2.0)
        bshape = [1] * len(shape)
        bshape[ax] = shape[ax]
        D = D * w.reshape(bshape)
    return D.ravel()


def fourier_relation(op, M, N, eps):
    """Check N = M^T diag(w) (forward) / N = diag(1/w) M^T (inverse) with
    positive frequency-wise w; returns (ok, detail)."""
    cls = type(op).__name__
    inverse = cls.endswith('Inverse')
    freq = op.domain if inverse else op.range
    real = op.range if inverse else op.domain
    Mt = M.T
    nfreq = int(freq.size)
    A, B = (N.T, Mt.T) if inverse else (N, Mt)     # freq index on columns
    if A.shape[1] != 2 * nfreq:
        return False, 'frequency space is not complex'
    nax = np.prod([real.shape[a] for a in op.axes])
    tol = 1e3 * eps * (1 + np.log2(max(nax, 2)))
    w = np.zeros(nfreq)
    for k in range(nfreq):
        a, b = A[:, 2 * k:2 * k + 2], B[:, 2 * k:2 * k + 2]
        bb = float(np.sum(b * b))
        if bb == 0:
            if _fro(a) > tol:
                return False, 'column {} of N non-zero where M^T is 0'.format(k)
            w[k] = np.nan
            continue
        w[k] = float(np.sum(a * b)) / bb
        if _fro(a - w[k] * b) > tol * max(_fro(a), abs(w[k]) * _fro(b)):
            return False, ('N is not a real multiple of M^T at frequency '
                           'index {} (fit {:.4g}, residual {:.3g})'.format(
                               k, w[k], _fro(a - w[k] * b)))
        if not w[k] > 0:
            return False, ('N = {:.4g} * M^T at frequency index {} '
                           '(non-positive factor)'.format(w[k], k))
    if cls.startswith('Discrete'):
        D = _halfcomplex_weights(op, freq, real)
        expect = (nax / D) if inverse else (D / nax)
        ok = np.isnan(w) | (np.abs(w - expect) <= tol * np.abs(expect))
        if not np.all(ok):
            k = int(np.argmin(ok))
            return False, ('DFT adjoint factor {:.6g} at frequency index {} '
                           'differs from the documented {:.6g}'.format(
                               w[k], k, expect[k]))
    return True, 'Euclidean factor(s) {:.4g}..{:.4g}'.format(
        np.nanmin(w) if nfreq else 0, np.nanmax(w) if nfreq else 0)


# --------------------------------------------------------------------------
# checking one operator

def region(op, eng):
    GX, GY = eng.gram(op.domain), eng.gram(op.range)
    kx, cx = gram_kind(GX)
    ky, cy = gram_kind(GY)
    if kx in ('id', 'scal') and ky in ('id', 'scal'):
        if kx == ky == 'id':
            g = 'id'
        else:
            g = 'scal-eq' if np.isclose(cx, cy, rtol=1e-10) else 'scal-ne'
    elif 'full' in (kx, ky):
        g = 'full'
    else:
        g = 'diag'
    bd = int(has_bdry(op.domain) or has_bdry(op.range))
    same = 'same' if op.domain == op.range else 'diff'
    return 'dom={},ran={},sp={},g={},bdry={},f={}{}'.format(
        wkind(op.domain), wkind(op.range), same, g, bd, fkind(op.domain),
        fkind(op.range)), g, bd


def check_operator(node, eng, bound_children):
    """Evaluate all clauses for ``node.op``; return a bound of ||M||_F."""
    A = node.op
    cls = type(A).__name__
    if not isinstance(A, Operator):
        raise HarnessError('builder of {} returned {!r}'.format(node.entry,
                                                                 type(A)))
    reg, g, bd = region(A, eng)
    X, Y = A.domain, A.range
    n, m = flat.rdim(X), flat.rdim(Y)
    dim = max(n, m, 1)
    # coarsest floating precision of the own spaces and of every operand
    # (a float32 space in the middle of a composition limits the accuracy)
    eps = max([eps_of(X, Y)] + [k.eps for k in node.children])
    node.eps = eps
    fft = cls in FFT_CLASSES or 'Fourier' in cls
    ktol = K_TOL * eps * dim * ((1 + np.log2(max(dim, 2))) if fft else 1.0)
    # absolute floor far below any generated magnitude: results in the
    # subnormal range of the working precision carry no relative accuracy
    floor = 1e6 * float(np.finfo(np.float32 if eps > 1e-10
                                 else np.float64).tiny)

    eng.strata += ['cls:' + cls, 'g:' + g, 'dom:' + wkind(X),
                   'ran:' + wkind(Y), 'field:' + fkind(X) + fkind(Y)]
    if isinstance(A, (ProductSpaceOperator, BroadcastOperator,
                      ReductionOperator)):
        if isinstance(A, ProductSpaceOperator):
            r, c = A.shape
            nblocks = len(A.ops.data)
        elif isinstance(A, BroadcastOperator):
            r, c, nblocks = len(A), 1, len(A)
        else:
            r, c, nblocks = 1, len(A), len(A)
        eng.strata.append('blockshape:{}x{}'.format(r, c))
        if r != c:
            eng.strata.append('blocks:non-square')
        if nblocks < r * c:
            eng.strata.append('blocks:zero-block')
    if bd:
        eng.strata.append('bdry')
    if eps > 1e-10:
        eng.strata.append('float32')

    if not A.is_linear:
        eng.strata.append('status:not-flagged-linear:' + cls)
        return None

    # the very first evaluation is a dense vector (repeated after the matrix
    # extraction: an operator that keeps state between calls - e.g. scales a
    # stored vector in place - has no matrix, and evaluating the zero vector
    # first could hide it)
    x_probe = np.cos(np.arange(1, n + 1) * 1.7) * 2.0
    Ax_first = flat.flat(eng.apply(A, flat.unflat(x_probe, X), Y, 'A',
                                   '{}|{}'.format(cls, reg)), Y)
    M, off = eng.matrix(A, X, Y, 'A', '{}|{}'.format(cls, reg))
    if not np.all(np.isfinite(M)):
        eng.strata.append('status:non-finite-matrix:' + cls)
        return None
    mfro = _fro(M)
    bound = max(mfro, bound_children(mfro))
    # between complex spaces: complex-linear, or only real-linear?
    both_complex = flat.is_complex_space(X) and flat.is_complex_space(Y) \
        and n > 0 and m > 0
    clinear = both_complex and _fro(
        M @ flat.complex_structure(X) - flat.complex_structure(Y) @ M) <= \
        max(ktol * bound, floor)
    if both_complex:
        reg += ',lin=' + ('C' if clinear else 'R')
    tail = '{}|{}'.format(cls, reg)
    opts = _option_tag(node)
    if opts:
        tail += ',' + opts
    # linear at all?  A(0) = 0 and A(x) = M x for one dense vector
    x = np.cos(np.arange(1, n + 1) * 1.7) * 2.0
    xe = flat.unflat(x, X)
    x0 = flat.flat(xe, X)
    Axe = eng.apply(A, xe, Y, 'A', tail)
    Ax = flat.flat(Axe, Y)
    eng.unchanged(xe, x0, X, A, 'A', tail, 'out-of-place')
    # aliasing regime: the result is a view of the argument (documented as
    # possible, e.g. FlatteningOperator), or an operand's result is
    if _shares(Axe, xe):
        node.views = True
        eng.strata.append('alias:result-views-argument')
    if any(_has_view(k) for k in node.children):
        eng.strata.append('alias:operand-result-views-argument:' + cls)
        eng.strata.append('alias:operand-result-views-argument')
    del xe, Axe
    # (fresh elements for every call of the matrix / linearity clauses; that
    # no call changes its argument is asserted separately - clause
    # operand-modified - and the pair clause below uses x and y twice)
    lin_tol = max(ktol * bound * _fro(x) * 4, floor)
    if Ax_first.shape != Ax.shape or not _fro(Ax - Ax_first) <= lin_tol:
        raise Violation('C05|not-repeatable|' + tail,
                        'A(x) for the same dense x differs between the first '
                        'evaluation and the one after {} further calls: '
                        '|difference| = {:.3g} (tol {:.3g}) - the operator '
                        'keeps state, <Ax,y> depends on the call history; '
                        'A = {!r}'.format(n + 1, _fro(Ax - Ax_first)
                                          if Ax_first.shape == Ax.shape
                                          else float('nan'), lin_tol,
                                          A)[:800])
    if _fro(off) > lin_tol or _fro(Ax - M @ x) > lin_tol:
        raise Violation('C05|not-linear|' + tail,
                        'operator is flagged linear but A(0) = {:.3g}, '
                        '|A(x) - sum x_k A(e_k)| = {:.3g} (tol {:.3g})'.format(
                            _fro(off), _fro(Ax - M @ x), lin_tol))

    eng.strata.append('style:out-of-place')
    style_tol = max(ktol * bound * 2, floor)
    M_ip = eng.both_styles(A, X, Y, M, off, 'A', tail, style_tol)

    # ---- the adjoint ------------------------------------------------------
    expect, exc_types, why = zoo.adjoint_expectation(node)
    eng.strata.append('expect:' + expect)
    failure = None
    try:
        adj = A.adjoint
        if adj is None:
            failure = 'None'
    except Exception as e:  # noqa: classified below
        where, site = _where(e)
        if where != 'odl':
            raise
        adj, failure = None, type(e).__name__
        if expect == zoo.OFFERED or (expect == zoo.SILENT and
                                     not isinstance(e, zoo.REJECT_EXC)):
            # documented adjoint (or an undocumented exception type where the
            # documentation is silent): a raise is a violation
            raise Violation(
                'C05|adjoint-raises|{}|{}'.format(tail, failure),
                '.adjoint raises {!r} [{}] although {}; A = {!r}'.format(
                    e, site, why, A)[:800])
        if expect == zoo.REFUSED and not isinstance(e, exc_types):
            raise Violation(
                'C05|refusal-type|{}|{}'.format(tail, failure),
                '.adjoint raises {!r} [{}]; documented refusal: {} ({})'
                ''.format(e, site, '/'.join(t.__name__ for t in exc_types),
                          why)[:800])
    if failure == 'None' and expect != zoo.SILENT:
        raise Violation(
            'C05|{}|{}|None'.format('adjoint-raises' if expect == zoo.OFFERED
                                    else 'refusal-type', tail),
            '.adjoint returned None ({}); A = {!r}'.format(why, A)[:800])
    if failure is not None:
        eng.notes['adjoint_unavailable'] += 1
        eng.strata += ['status:adjoint_unavailable',
                       'adjoint_unavailable({}):{}:{}'.format(
                           'documented' if expect == zoo.REFUSED
                           else 'docs-silent', cls, failure)]
        eng.unavailable.append(cls)
        return bound
    if expect == zoo.REFUSED:
        # an adjoint is returned where the docs announce a refusal: it is
        # checked like any other (a wrongly offered adjoint is caught below)
        eng.strata.append('adjoint-returned-despite-documented-refusal:' + cls)
    if not isinstance(adj, Operator):
        raise Violation('C05|adjoint-type|' + tail,
                        '.adjoint returned {!r}'.format(type(adj)))
    eng.notes['operators_checked'] += 1
    node.available = True
    if adj.domain != Y or adj.range != X:
        raise Violation(
            'C05|adjoint-spaces|' + tail,
            'A: {!r} -> {!r} but A.adjoint: {!r} -> {!r}'.format(
                X, Y, adj.domain, adj.range))
    if not adj.is_linear:
        raise Violation('C05|adjoint-not-linear|' + tail,
                        'A.adjoint.is_linear is False')
    if isinstance(A, ProductSpaceOperator):
        # documented: "the adjoint is given by taking the transpose of the
        # matrix [of operators]"
        want = (A.shape[1], A.shape[0])
        got = tuple(getattr(adj, 'shape', ()))
        if not isinstance(adj, ProductSpaceOperator) or got != want or \
                tuple(A.shape) != (len(Y), len(X)):
            raise Violation('C05|adjoint-shape|' + tail,
                            'block operator of shape {} has an adjoint of '
                            'shape {} (expected the transpose {}; domain / '
                            'range have {} / {} parts)'.format(
                                tuple(A.shape), got, want, len(X), len(Y)))
    try:
        N, offa = eng.matrix(adj, Y, X, 'A.adjoint', tail)
    except Violation:
        raise
    except Exception as e:  # noqa
        where, site = _where(e)
        if where != 'odl':
            raise
        raise Violation('C05|adjoint-call-crash|{}|{}'.format(
            tail, type(e).__name__),
            'A.adjoint was returned but cannot be evaluated: {!r} [{}]'
            ''.format(e, site))
    if not np.all(np.isfinite(N)):
        raise Violation('C05|adjoint-non-finite|' + tail,
                        'A.adjoint produces non-finite values on basis '
                        'vectors while A is finite')

    GX, GY = eng.gram(X), eng.gram(Y)
    lhs = N.T @ GX
    rhs = GY @ M
    scale = max(_fro(lhs), _fro(rhs), _fro(GY) * bound, 1e-300)
    err = _fro(lhs - rhs)
    tol = max(ktol * scale, floor)
    if _fro(offa) > tol:
        raise Violation('C05|not-linear|' + tail,
                        'A.adjoint(0) = {:.3g}'.format(_fro(offa)))
    if not err <= tol:
        rel = err / scale
        detail = ('||N^T G_X - G_Y M||_F = {:.4g} (relative {:.4g}, tol '
                  '{:.3g}); {}; A = {!r}'.format(err, rel, tol / scale,
                                                 _worst(lhs, rhs), A)[:900])
        if cls in FFT_CLASSES:
            ok, info = fourier_relation(A, M, N, eps)
            if ok:
                # known: adjoint defined as the inverse (off by a constant)
                raise Violation('C05|gram|' + tail,
                                'adjoint = inverse, not the adjoint in the '
                                'spaces\' inner products ({}); {}'.format(
                                    info, detail))
            raise Violation('C05|gram-proportional|' + tail,
                            info + '; ' + detail)
        raise Violation('C05|gram|' + tail, detail)

    # ---- the same through in-place evaluation (the call form solvers and
    # odl.matrix_representation use) -------------------------------------
    N_ip = eng.both_styles(adj, Y, X, N, offa, 'A.adjoint', tail,
                           max(ktol * max(_fro(N), bound) * 2, floor))
    if M_ip is not None or N_ip is not None:
        lhs_i = (N if N_ip is None else N_ip).T @ GX
        rhs_i = GY @ (M if M_ip is None else M_ip)
        if not _fro(lhs_i - rhs_i) <= 2 * tol:
            raise Violation('C05|gram-inplace|' + tail,
                            'Gram identity fails for the matrices obtained '
                            'with out=: ||N^T G_X - G_Y M||_F = {:.4g} (tol '
                            '{:.3g}); {}'.format(_fro(lhs_i - rhs_i), 2 * tol,
                                                 _worst(lhs_i, rhs_i)))
        eng.strata.append('gram-inplace-checked')

    # ---- one direct pair (the form in which the property is stated) -------
    # The SAME two element objects x, y enter both sides, as in
    # ``A(x).inner(y)`` followed by ``x.inner(A.adjoint(y))``: a call that
    # writes into its argument (possibly through a result that is a view of
    # it) corrupts the second use.  Both evaluation orders.
    xv = np.cos(np.arange(1, n + 1) * 1.7) * 2.0
    yv = np.sin(np.arange(1, m + 1) * 0.9 + 0.3) * 1.5
    pair_tol = max(4 * ktol * scale * _fro(xv) * _fro(yv), floor)
    for order in ('A-first', 'adjoint-first'):
        xe, ye = flat.unflat(xv, X), flat.unflat(yv, Y)
        x0, y0 = flat.flat(xe, X), flat.flat(ye, Y)   # (rounded to the dtype)
        if order == 'A-first':
            Ax = eng.apply(A, xe, Y, 'A', tail)
            left = float(np.real(flat.sinner(Y, Ax, ye)))
            Aty = eng.apply(adj, ye, X, 'A.adjoint', tail)
            right = float(np.real(flat.sinner(X, xe, Aty)))
        else:
            Aty = eng.apply(adj, ye, X, 'A.adjoint', tail)
            right = float(np.real(flat.sinner(X, xe, Aty)))
            Ax = eng.apply(A, xe, Y, 'A', tail)
            left = float(np.real(flat.sinner(Y, Ax, ye)))
        eng.unchanged(xe, x0, X, A, 'A', tail, 'out-of-place')
        eng.unchanged(ye, y0, Y, adj, 'A.adjoint', tail, 'out-of-place')
        if order == 'A-first' and _shares(Aty, ye):
            eng.strata.append('alias:adjoint-result-views-argument')
        if not abs(left - right) <= pair_tol:
            raise Violation('C05|pair|{},order={}'.format(tail, order),
                            'matrices satisfy the Gram identity but Re<Ax,y> '
                            '= {!r} and Re<x,A*y> = {!r} for a dense pair '
                            '(x and y used on both sides, {}; operator with '
                            'state, or not linear?)'.format(left, right,
                                                            order))

    # ---- complex linearity -----------------------------------------------
    if both_complex:
        JX, JY = flat.complex_structure(X), flat.complex_structure(Y)
        if clinear:
            eng.strata.append('complex-linear')
            c = _fro(N @ JY - JX @ N)
            if not c <= max(ktol * max(_fro(N), bound), floor):
                raise Violation('C05|complex-linear|' + tail,
                                'A is complex-linear, A.adjoint is not: '
                                '||N J - J N|| = {:.3g}'.format(c))
        else:
            eng.strata.append('R-linear-only')

    # ---- adjoint of the adjoint -------------------------------------------
    # A returned an adjoint, so "A.adjoint.adjoint acts like A" applies.  The
    # only documented way out: the conjugate of a complex scalar multiple is
    # refused (TypeError) by an operand living on a real space; for the
    # wrapper entry 'adjoint' the documentation is silent.
    tolerated = (TypeError,) if zoo.has_complex_scalar(node) else ()
    if node.entry == 'adjoint' or expect != zoo.OFFERED:
        tolerated = zoo.REJECT_EXC
    aa_fail = None
    try:
        aa = adj.adjoint
        if aa is None:
            aa_fail = 'None'
    except Exception as e:  # noqa
        where, site = _where(e)
        if where != 'odl':
            raise
        aa, aa_fail = None, type(e).__name__
        if not isinstance(e, tolerated):
            raise Violation('C05|adjadj-raises|{}|{}'.format(tail, aa_fail),
                            'A.adjoint.adjoint raises {!r} [{}]; A = {!r}'
                            ''.format(e, site, A)[:700])
    if aa_fail == 'None' and not tolerated:
        raise Violation('C05|adjadj-raises|{}|None'.format(tail),
                        'A.adjoint.adjoint is None; A = {!r}'.format(A)[:700])
    if aa_fail is not None:
        eng.strata.append('adjadj_unavailable:{}:{}'.format(cls, aa_fail))
        return bound
    if not isinstance(aa, Operator) or aa.domain != X or aa.range != Y:
        raise Violation('C05|adjadj-spaces|' + tail,
                        'A.adjoint.adjoint: {!r} -> {!r}, A: {!r} -> {!r}'
                        ''.format(getattr(aa, 'domain', None),
                                  getattr(aa, 'range', None), X, Y))
    try:
        M2, off2 = eng.matrix(aa, X, Y, 'A.adjoint.adjoint', tail)
    except Violation:
        raise
    except Exception as e:  # noqa
        where, site = _where(e)
        if where != 'odl':
            raise
        raise Violation('C05|adjadj-call-crash|{}|{}'.format(
            tail, type(e).__name__),
            'A.adjoint.adjoint cannot be evaluated: {!r} [{}]'.format(
                e, site))
    e2 = _fro(M2 - M) + _fro(off2)
    if not e2 <= max(ktol * bound * 2, floor):
        raise Violation('C05|adjadj|' + tail,
                        'A.adjoint.adjoint does not act like A: ||M2 - M||_F '
                        '= {:.4g} (||M|| = {:.4g}); A = {!r}'.format(
                            e2, mfro, A)[:700])
    eng.both_styles(aa, X, Y, M2, off2, 'A.adjoint.adjoint', tail, style_tol)
    eng.strata.append('adjadj-checked')
    return bound


def _option_tag(node):
    """Options that select a different adjoint rule go into the signature."""
    d = node.desc
    e = node.entry
    if e in ('partial', 'gradient', 'divergence'):
        return 'opt={}/{}'.format(d['method'], d['pad_mode'])
    if e == 'laplacian':
        return 'opt=' + d['pad_mode']
    if e == 'resize':
        return 'opt=' + d['pad_mode']
    if e in ('sampling', 'wsumsampling'):
        return 'opt=' + d['variant']
    if e in ('dft', 'dft_inv', 'ft', 'ft_inv'):
        return 'opt={}{}'.format('hc' if d['halfcomplex'] else 'c2c',
                                 d['sign'])
    if e in ('pwinner', 'pwinner_adj', 'pwsum', 'pwnorm_deriv'):
        # relation between the operator's weights and those of the vector
        # field space (the adjoint applies their ratio)
        vf = d['vf']
        n = int(vf[2])

        def arr(w):
            if w is None:
                return np.ones(n)
            if w['type'] == 'const':
                return np.full(n, float(w['value']))
            return np.asarray(w['data'], dtype=float)
        if d.get('w') is None:
            return 'opt=w-default'
        sw, ow = arr(vf[3] if len(vf) > 3 else None), arr(d['w'])
        if np.array_equal(sw, ow):
            return 'opt=w-eq'
        return 'opt=w-ne'
    if e == 'matrix':
        A = node.op
        res = np.promote_types(A.domain.dtype, A.matrix.dtype)
        return 'opt=dt-widen' if res != A.range.dtype else ''
    if e == 'cembed':
        s = complex(d['s'])
        return 'opt=' + ('re' if s.imag == 0 else 'im' if s.real == 0
                         else 'gen')
    return ''


def check_tree(node, eng):
    """Bottom-up: operands first. Returns the norm bound of the node."""
    bounds = [check_tree(k, eng) for k in node.children]
    if any(b is None for b in bounds):
        bounds = [b for b in bounds if b is not None]
    e = node.entry

    def bound_children(own):
        if not bounds:
            return own
        if e in ('comp', 'pow', 'grad_deriv'):
            p = float(np.prod(bounds))
            if e == 'pow':
                p = bounds[0] ** int(node.desc['n'])
            if e == 'grad_deriv':
                p = 2 * bounds[0] ** 2
            return p
        return float(np.sum(bounds)) + own
    return check_operator(node, eng, bound_children)


# --------------------------------------------------------------------------
# the case

def _where(exc):
    """'odl' if the innermost existing source frame of the traceback lies in
    the odl tree, 'harness' if it lies in /verif (frames of compiled
    extensions, e.g. pyfftw.pyx, carry relative pseudo file names and are
    skipped)."""
    import os
    import traceback
    from vlib import core
    root = os.path.join(core.odl_root(), 'odl') + os.sep
    for fr in reversed(traceback.extract_tb(exc.__traceback__)):
        if not os.path.isabs(fr.filename) or not os.path.exists(fr.filename):
            continue
        fn = os.path.abspath(fr.filename)
        if fn.startswith(root):
            return 'odl', '{}:{}'.format(
                os.path.relpath(fn, core.odl_root()), fr.name)
        if fn.startswith(core.VERIF_DIR + os.sep):
            return 'harness', '{}:{}'.format(
                os.path.relpath(fn, core.VERIF_DIR), fr.name)
    return 'harness', '?'


def _build(desc):
    ctx = zoo.Ctx(desc['spaces'])
    try:
        return zoo.build_node(desc['op'], ctx), None
    except HarnessError:
        raise
    except zoo.AdjointUnavailable as e:
        return None, 'operand-adjoint-unavailable:' + str(e)
    except zoo.REJECT_EXC as e:
        where, site = _where(e)
        if where != 'odl':
            if isinstance(e, TypeError) and \
                    str(e).startswith('unsupported operand type(s)'):
                # both operands answered NotImplemented to ``a * b``
                return None, 'TypeError:python-operator-not-implemented'
            raise
        return None, '{}:{}'.format(type(e).__name__, site)


def _count_nodes(node):
    return 1 + sum(_count_nodes(k) for k in node.children)


def run_case(desc):
    import warnings
    with warnings.catch_warnings():
        # pywt warns about boundary effects for short signals, NumPy about
        # discarded imaginary parts in documented real-part casts
        warnings.simplefilter('ignore')
        return _run_case(desc)


def _run_case(desc):
    family = desc['family']
    root, why = _build(desc)
    if root is None and why.startswith('operand-adjoint-unavailable'):
        return Outcome('trivial', strata=['family:' + family,
                                          'status:' + why])
    if root is None:
        return Outcome('rejected', strata=['family:' + family,
                                           'rejected:' + desc['op']['e'],
                                           'rejected-why:' + why])
    eng = Engine()
    try:
        check_tree(root, eng)
    except (Violation, HarnessError):
        raise
    except Exception as e:  # noqa
        # the runner classifies by file names; frames of compiled extensions
        # would be mistaken for harness frames, so classify here
        where, site = _where(e)
        if where != 'odl':
            raise
        import traceback
        raise Violation('C05|crash|{}|{}'.format(type(e).__name__, site),
                        ''.join(traceback.format_exception(
                            type(e), e, e.__traceback__))[-1500:])
    strata = ['family:' + family, 'entry:' + root.entry] + eng.strata
    strata.append('tree-depth:{}'.format(min(root.depth, 5)))
    strata.append('nodes:{}'.format(min(_count_nodes(root), 9)))
    strata = sorted(set(strata), key=strata.index)
    if eng.notes['operators_checked'] == 0:
        return Outcome('trivial', strata=strata, notes=eng.notes)
    X, Y = root.op.domain, root.op.range
    special = any(s.startswith(('g:scal', 'g:diag', 'g:full', 'bdry',
                                'field:c', 'field:rc', 'dom:P', 'ran:P'))
                  for s in strata)
    nontrivial = (special or root.depth >= 2) and \
        flat.rdim(X) + flat.rdim(Y) >= 2
    return Outcome('ok', strata=strata, nontrivial=nontrivial,
                   notes=eng.notes)


REQUIRED_STRATA = [
    'style:out-of-place', 'style:in-place', 'gram-inplace-checked',
    'style:in-place-n/a(field-valued)',
    'family:tree', 'family:blocks', 'family:fourier', 'family:wavelet',
    'blockshape:1x2', 'blockshape:2x1', 'blockshape:2x3', 'blockshape:3x2',
    'blocks:non-square', 'blocks:zero-block', 'expect:offered',
    'expect:refused', 'expect:silent',
    'g:id', 'g:scal-eq', 'g:scal-ne', 'g:diag', 'bdry', 'float32',
    'field:cc', 'field:rc', 'field:cr', 'complex-linear', 'R-linear-only',
    'adjadj-checked', 'status:adjoint_unavailable',
    'cls:OperatorSum', 'cls:OperatorComp', 'cls:OperatorLeftScalarMult',
    'cls:OperatorRightScalarMult', 'cls:OperatorLeftVectorMult',
    'cls:OperatorRightVectorMult', 'cls:FunctionalLeftVectorMult',
    'cls:ProductSpaceOperator', 'cls:BroadcastOperator',
    'cls:ReductionOperator', 'cls:DiagonalOperator',
    'cls:ComponentProjection', 'cls:ComponentProjectionAdjoint',
    'cls:ScalingOperator', 'cls:IdentityOperator', 'cls:MultiplyOperator',
    'cls:InnerProductOperator', 'cls:ZeroOperator', 'cls:RealPart',
    'cls:ImagPart', 'cls:ComplexEmbedding', 'cls:ComplexModulusDerivative',
    'cls:ComplexModulusSquaredDerivative', 'cls:PointwiseInner',
    'cls:PointwiseInnerAdjoint', 'cls:PointwiseSum', 'cls:MatrixOperator',
    'cls:SamplingOperator', 'cls:WeightedSumSamplingOperator',
    'cls:FlatteningOperator', 'cls:FlatteningOperatorInverse',
    'cls:PartialDerivative', 'cls:Gradient', 'cls:Divergence',
    'cls:Laplacian', 'cls:ResizingOperator',
    'cls:WaveletTransform', 'cls:WaveletTransformInverse',
    'family:views', 'family:inverses', 'entry:inverse',
    'alias:result-views-argument',
    'alias:operand-result-views-argument',
    'alias:operand-result-views-argument:OperatorSum',
    'alias:operand-result-views-argument:OperatorComp',
    'alias:operand-result-views-argument:OperatorLeftVectorMult',
    'alias:operand-result-views-argument:OperatorRightVectorMult',
    'alias:operand-result-views-argument:OperatorLeftScalarMult',
    'alias:operand-result-views-argument:OperatorRightScalarMult',
    'alias:operand-result-views-argument:BroadcastOperator',
    'alias:operand-result-views-argument:ReductionOperator',
    'alias:operand-result-views-argument:DiagonalOperator',
    'alias:operand-result-views-argument:ProductSpaceOperator',
]
