"""C03 - operator call protocol.

For every catalogued operator configuration (``vlib/zoo_ops.py``):
``op(x)`` lies in ``op.range``; ``op(x, out=y)`` returns the very object ``y``
holding the values of ``op(x)`` for two different stale fills of ``y`` (NaN and
a finite sentinel); ``x`` is bit-for-bit unchanged by every call; functionals
reject ``out``; junk input / junk ``out`` is rejected with the domain / range
type error *before* the implementation runs (counting proxy on the instance).
"""
import numpy as np
from hypothesis import strategies as st

from vlib import build, flat, zoo_ops as zoo
from vlib.core import Violation, Outcome, HarnessError

odl = zoo.odl
from odl.operator.operator import OpDomainError, OpRangeError  # noqa: E402
from odl.set.sets import Field  # noqa: E402
from odl.space.pspace import ProductSpace  # noqa: E402

PROPERTY = 'C03'
TECHNIQUE = ('Hypothesis property-based testing over an operator catalogue '
             '(descriptor -> operator builders for every Operator family of '
             'odl, introspection-diffed): differential in-place vs '
             'out-of-place evaluation with NaN / sentinel stale fills, '
             'bit-exact input preservation, rejection protocol observed '
             'through a counting proxy; descriptor replay')
LEVEL_TEXT = ('Generated-input search: every catalogued operator class x '
              'drawn construction options x drawn domain points (element, '
              'ndarray, nested list; C / F / strided layouts) x stale fills '
              'of out. Exploration, not proof; class coverage is measured by '
              'an introspection pass over the odl package and reported.')
LEVEL_NOTE = ('Trusted: NumPy, Hypothesis, the descriptor builders. The '
              'expected value of op(x, out=y) is op(x) itself (the property '
              'is differential); values of op(x) are not judged here. ASTRA '
              'back-ends are not installed (RayTransform runs on skimage).')
DESIGN_REF = 'DESIGN.md section 5, C03'
BUDGET = {'quick': 6000, 'thorough': 60000}
K_TOL = 16
TOLERANCES = {
    'inplace_vs_outofplace': '|r2-r| <= 16*eps(dtype)*max(|r|,|r2|) per leaf '
                             '(eps of the coarsest leaf in mixed-precision '
                             'product spaces) '
                             '(FFT-based operators: times sqrt(size)); '
                             'exact equality for copy / index / constant '
                             'operators and for integer / bool ranges; NaN '
                             'and inf must sit at the same positions',
    'input': 'bytes of every leaf array of x identical before / after; '
             'op(x) shares no memory with x (np.shares_memory) except for '
             'the documented view-returning operators',
    'repeat': 'second out-of-place call equals the first exactly (pyfftw '
              'operators: within the in-place tolerance)',
    'arraylike': 'op(ndarray / nested list) equals op(element) within the '
                 'in-place tolerance (functionals: 16*eps*sqrt(n) relative; '
                 'the cast copy may have another memory layout)',
    'bad_out': 'bytes of the rejected out identical before / after',
}
ASSUMPTIONS = [
    'x is never the same object as out (C10 covers aliasing)',
    'domain points are finite and inside the documented domain of the '
    'operator (positive for log/sqrt/KL, |x|<1 for arcsin/arctanh, small '
    'displacements for deformations, ...)',
    'junk inputs are restricted to wrong-shape arrays, elements of other '
    'spaces that cannot be cast, and non-numeric objects; None is not junk '
    '(space.element(None) is documented to create an element)',
    'regions where another property\'s still-known finding makes the call or '
    'the construction itself fail are not generated: inverse of the '
    'real-to-complex DFT (C18-F19b), real FourierTransform with an unshifted '
    'axis in the half-complex variant / its pyfftw inverse without '
    'halfcomplex (C18-F30), Huber on vector fields (F11), NumericalGradient '
    'on spaces with more than one axis (C09-K6), adjoints of '
    'MultiplyOperator on complex non-power product spaces',
]
RULE = ('Hypothesis draws (catalogue entry, construction options, domain '
        'point with explicit leading values + seeded tail, input form, '
        'layouts, junk kinds); plus a fixed sweep of every entry. '
        'Non-trivial = the in-place path ran against a NaN-filled out (range '
        'not a field) or, for functionals, the out-rejection and junk '
        'rejection were both observed; distinct by sha1 of the descriptor')

JUNK_X = ['shape', 'space', 'nonnumeric']
BAD_OUT = ['otherspace', 'ndarray', 'scalar']


# --------------------------------------------------------------------------
# strategy

def _names(tier):
    return [n for n, e in zoo.ENTRIES.items() if e.c03]


@st.composite
def _case(draw, names=None, name=None):
    if name is None:
        name = draw(zoo.weighted_entry_names(names))
    od = draw(zoo.entry_descs(name))
    dom = od.pop('dom')
    # large tensors (BLAS regime): x AND out non-contiguous on purpose
    large = name.startswith('large.')
    orders = ['strided', 'strided', 'strided', 'F', 'C'] if large else \
        ['C', 'C', 'C', 'F', 'strided']
    return {
        'op': od,
        'x': draw(zoo.point_descs(dom, orders=orders if large else
                                  ('C', 'C', 'F', 'strided'))),
        'xform': draw(st.sampled_from(['elem', 'elem', 'array', 'list'])),
        'outorder': draw(st.sampled_from(orders)),
        'sentinel': draw(st.sampled_from([7.25, -3.0, 1e6, 0.0])),
        'junk': draw(st.sampled_from(JUNK_X)),
        'badout': draw(st.sampled_from(BAD_OUT)),
    }


# pool of catalogue entries whose out-of-place result shares memory with the
# input (probed once per run with np.shares_memory, see zoo.get_view_pool);
# the expression entry 'expr.viewoperand' draws its operands from it
VIEW_POOL = None
VIEW_POOL_SIZE = None


def _view_pool():
    global VIEW_POOL, VIEW_POOL_SIZE
    if VIEW_POOL is None:
        VIEW_POOL = list(zoo.get_view_pool())
        VIEW_POOL_SIZE = len(VIEW_POOL)
        if VIEW_POOL and 'expr-operand-returns-view' not in REQUIRED_STRATA:
            REQUIRED_STRATA.append('expr-operand-returns-view')
        ASSUMPTIONS.append(
            'operators whose out-of-place result is a view of / identical '
            'to their argument (probed with np.shares_memory over the '
            'catalogue): {} entries {}; expression classes are built around '
            'them (stratum expr-operand-returns-view)'.format(
                VIEW_POOL_SIZE, VIEW_POOL))
    return VIEW_POOL


def strategy(tier):
    _view_pool()
    return _case(names=_names(tier))


def enumerate_cases(tier):
    """Fixed sweep: every catalogue entry with a few Hypothesis-drawn option
    sets (deterministic: explicit seed), so that no entry depends on luck."""
    _view_pool()
    return zoo.sweep(lambda n: _case(name=n), _names(tier),
                     per_entry=5 if tier == 'quick' else 10)


EXHAUSTIVE = {
    'quick': ['catalogue sweep: every zoo entry x 5 seeded draws of its '
              'options (the catalogue, not the option space, is exhausted)'],
    'thorough': ['catalogue sweep: every zoo entry x 10 seeded draws of its '
                 'options (the catalogue, not the option space, is '
                 'exhausted)'],
}


# --------------------------------------------------------------------------
# helpers

def _leaves(x, spc):
    return [a for a, _ in flat.leaf_arrays(x, spc)]


def _bytes(x, spc):
    if isinstance(spc, Field):
        return [repr(x)]
    return [np.ascontiguousarray(a).tobytes() + str(a.dtype).encode()
            for a in _leaves(x, spc)]


def _fill(y, spc, value):
    for a in _leaves(y, spc):
        k = a.dtype.kind
        if k in 'fc':
            a[...] = value
        elif k == 'b':
            a[...] = bool(np.isnan(value) or value)
        else:
            a[...] = 77 if np.isnan(value) else int(value) % 100
    return y


def _fresh_out(spc, order, value):
    y = spc.element()
    y = zoo.relayout(y, order)
    return _fill(y, spc, value)


def compare(got, ref, spc, exact, ktol, fft=False):
    """None if equal within the stated tolerance, else a message."""
    la, lb = _leaves(got, spc), _leaves(ref, spc)
    if len(la) != len(lb):
        return 'different number of leaves'
    # mixed-precision product spaces: scalars shared by all parts (norms,
    # step sizes) carry the rounding of the coarsest leaf
    epsmax = max([np.finfo(np.asarray(a).dtype).eps for a in la
                  if np.asarray(a).dtype.kind in 'fc'] or [0.0])
    for i, (a, b) in enumerate(zip(la, lb)):
        a, b = np.asarray(a), np.asarray(b)
        if a.shape != b.shape:
            return 'leaf {}: shape {} vs {}'.format(i, a.shape, b.shape)
        if a.dtype != b.dtype:
            return 'leaf {}: dtype {} vs {}'.format(i, a.dtype, b.dtype)
        if a.size == 0:
            continue
        if a.dtype.kind not in 'fc':
            if not np.array_equal(a, b):
                return 'leaf {}: values differ (exact dtype)'.format(i)
            continue
        fa, fb = np.isfinite(a), np.isfinite(b)
        if not np.array_equal(fa, fb):
            idx = tuple(int(j) for j in np.argwhere(fa != fb)[0])
            return 'leaf {} entry {}: {!r} vs {!r}'.format(i, idx, a[idx],
                                                           b[idx])
        nf = ~fa
        if nf.any():
            an, bn = a[nf], b[nf]
            same = (np.isnan(an) & np.isnan(bn)) | (an == bn)
            if not same.all():
                return 'leaf {}: non-finite entries differ'.format(i)
        if not fa.any():
            continue
        av, bv = a[fa], b[fa]
        if exact:
            bad = av != bv
            tol = 0.0
        else:
            eps = max(np.finfo(a.dtype).eps, epsmax)
            scale = max(np.abs(av).max(), np.abs(bv).max())
            tol = ktol * eps * scale * (np.sqrt(a.size) if fft else 1.0) \
                + 4 * np.finfo(a.dtype).tiny
            bad = ~(np.abs(av - bv) <= tol)
        if bad.any():
            j = int(np.argmax(bad))
            return 'leaf {}: {!r} vs {!r} (max diff {:.3g}, tol {:.3g})' \
                   ''.format(i, av[j], bv[j],
                             float(np.abs(av - bv).max()), float(tol))
    return None


def _scalar_same(a, b, k, eps=np.finfo(float).eps):
    """Field results: identical (NaN == NaN), or within k*eps relative."""
    if a == b or (a != a and b != b):
        return True
    if k and np.isfinite(a) and np.isfinite(b):
        return abs(a - b) <= k * eps * max(abs(a), abs(b))
    return False


def _dom_eps(x, dom):
    e = np.finfo(float).eps
    if isinstance(dom, Field):
        return e
    for a in _leaves(x, dom):
        if a.dtype.kind in 'fc':
            e = max(e, np.finfo(a.dtype).eps)
    return e


class Counter(object):
    """Counts executions of the implementation (instance-level proxy)."""

    def __init__(self, op):
        self.n = 0
        self.ok = False
        try:
            ip, oop = op._call_in_place, op._call_out_of_place

            def cip(x, out, **kw):
                self.n += 1
                return ip(x, out=out, **kw)

            def coop(x, **kw):
                self.n += 1
                return oop(x, **kw)

            op._call_in_place = cip
            op._call_out_of_place = coop
            self.ok = True
        except AttributeError:
            pass


def _junk_x(dom, kind):
    if isinstance(dom, Field):
        return {'shape': [1.0, 2.0], 'space': odl.rn(3).one(),
                'nonnumeric': 'junk'}[kind]
    if kind == 'nonnumeric':
        return 'junk'
    if isinstance(dom, ProductSpace):
        if kind == 'shape':
            return [dom.zero()] * 2 if len(dom) != 2 else [dom.zero()] * 3
        return ProductSpace(dom, 2).zero() if len(dom) != 2 else \
            ProductSpace(dom, 3).zero()
    shape = (dom.shape[0] + 1,) + tuple(dom.shape[1:]) if dom.ndim else (2,)
    if kind == 'shape':
        return np.zeros(shape)
    return odl.rn(shape).zero()


def _bad_out(ran, kind):
    if kind == 'scalar':
        return 0.0
    if isinstance(ran, ProductSpace):
        if kind == 'ndarray':
            return np.zeros(max(flat.rdim(ran), 1))
        return ProductSpace(ran, 2).zero()
    if kind == 'ndarray':
        return np.zeros(ran.shape, dtype=ran.dtype)
    shape = (ran.shape[0] + 1,) + tuple(ran.shape[1:]) if ran.ndim else (2,)
    return odl.tensor_space(shape, dtype=ran.dtype).zero()


def _as_arraylike(x, dom, form):
    """Castable non-element form of ``x`` (ndarray copy or nested list)."""
    if isinstance(dom, Field):
        return complex(x) if isinstance(x, complex) else float(x)
    if isinstance(dom, ProductSpace):
        return [_as_arraylike(p, s, form) for p, s in zip(x, dom.spaces)]
    arr = np.array(x.asarray(), copy=True)
    return arr if form == 'array' else arr.tolist()


def _raw_arrays(obj):
    if isinstance(obj, np.ndarray):
        return [obj]
    if isinstance(obj, list):
        out = []
        for p in obj:
            out.extend(_raw_arrays(p))
        return out
    return []


# --------------------------------------------------------------------------
# the case

def run_case(desc):
    try:
        op, ent = zoo.build_op(desc['op'])
    except zoo.DOCUMENTED_BUILD_REJECTIONS as e:
        return Outcome('rejected', strata=['build-rejected:' +
                                           desc['op']['entry']])
    cls = type(op).__name__
    name = ent.name
    dom, ran = op.domain, op.range
    fft = ent.family == 'trafo'
    x = zoo.point(dom, desc['x'])
    if x not in dom:
        raise HarnessError('generated point not in domain of ' + name)
    xb = _bytes(x, dom)
    # does the operand of a 'view operand' expression return a view here?
    view_operand = False
    V = getattr(op, '_verif_view_operand', None)
    if V is not None and V.domain == dom:
        try:
            view_operand = zoo.result_shares_memory(V, x)
        except Exception:  # noqa
            view_operand = False
    cnt = Counter(op)
    strata = ['entry:' + name, 'cls:' + cls, 'family:' + ent.family]
    region = zoo.region(op, desc)

    def sig(clause, extra='', exc=None):
        # third field: the raise site for exceptions (root cause), else the
        # class of the operator
        who = cls if exc is None else zoo.raise_site(exc)
        return 'C03|{}|{}|{}{}'.format(clause, who, region,
                                       '|' + extra if extra else '')

    def check_x(where, outorder='C'):
        if _bytes(x, dom) != xb:
            # memory layouts are part of the region (they select the plan /
            # code path of back-ends such as FFTW)
            xo = desc['x'].get('order', 'C')
            where_ = where + ('' if xo == 'C' else '|x-' + xo) + \
                ('' if outorder == 'C' else '|out-' + outorder)
            raise Violation(sig('x-modified', where_),
                            'input changed by the {} call of {}'.format(
                                where, name))

    # (1) out-of-place
    try:
        r = op(x)
    except NotImplementedError as e:
        # documented "not offered": classes without evaluation
        # (MoreauEnvelope, InfimalConvolution, default convex conjugate),
        # gradients documented as not defined (GroupL1Norm, p = inf)
        return Outcome('rejected', strata=['call-not-offered:' + name])
    except Exception as e:  # noqa
        if zoo.innermost_is_harness(e):
            raise
        raise Violation(sig('oop-raises', type(e).__name__, exc=e),
                        '{}: op(x) raised {!r}'.format(name, e))
    if r not in ran:
        raise Violation(sig('not-in-range'),
                        '{}: op(x) = {!r} not in {!r}'.format(
                            name, type(r), ran))
    check_x('oop')
    # (1a) the result is a new element: modifying it must not change x
    # (documented exception: operators that return views, zoo.VIEW_ALLOWED)
    if name not in zoo.VIEW_ALLOWED and V is None and \
            zoo.shares_memory(r, ran, x, dom):
        raise Violation(sig('result-shares-memory'),
                        '{}: op(x) shares memory with x'.format(name))

    # (1b) determinism / cached state
    try:
        rr = op(x)
    except Exception as e:  # noqa
        raise Violation(sig('oop-raises', type(e).__name__ + '|second-call',
                            exc=e),
                        '{}: second op(x) raised {!r}'.format(name, e))
    if isinstance(ran, Field):
        msg = None if _scalar_same(rr, r, 0) else '{!r} vs {!r}'.format(rr, r)
    else:
        msg = compare(rr, r, ran, exact=not zoo.uses_pyfftw(op), ktol=K_TOL,
                      fft=fft)
    if msg:
        raise Violation(sig('not-repeatable'), '{}: {}'.format(name, msg))

    # (1c) the returned element belongs to the caller: overwriting it must
    # change neither x nor what the operator returns afterwards (an operator
    # must not hand out its own state, e.g. a stored constant or a cache)
    if not isinstance(ran, Field) and name not in zoo.VIEW_ALLOWED and \
            V is None:
        keep = r.copy()
        _fill(r, ran, float(desc['sentinel']))
        _fill(rr, ran, np.nan)
        check_x('result-overwritten')
        try:
            r3 = op(x)
        except Exception as e:  # noqa
            raise Violation(sig('oop-raises', type(e).__name__ +
                                '|after-result-overwritten', exc=e),
                            '{}: op(x) raised {!r} after an earlier result '
                            'was overwritten'.format(name, e))
        msg = compare(r3, keep, ran, exact=not zoo.uses_pyfftw(op),
                      ktol=K_TOL, fft=fft)
        if msg:
            raise Violation(sig('result-aliases-state'),
                            '{}: op(x) changed after the caller overwrote '
                            'an earlier result: {}'.format(name, msg))
        r = keep
        strata.append('result-overwrite-checked')

    nontrivial = False
    if op.is_functional:
        # (4) functionals reject out
        strata.append('functional')
        try:
            op(x, out=r)
        except TypeError:
            pass
        except Exception as e:  # noqa
            raise Violation(sig('functional-out', type(e).__name__),
                            '{}: out= gave {!r}, not TypeError'.format(name,
                                                                       e))
        else:
            raise Violation(sig('functional-out', 'accepted'),
                            name + ': functional accepted out=')
        check_x('functional-out')
    else:
        # (2) in-place with two stale fills
        outorder = desc['outorder']
        if outorder == 'strided' and any(
                a.dtype.kind == 'b' for a in _leaves(ran.element(), ran)):
            # NumPy 1.26 itself mis-writes strided bool outputs of
            # isfinite/isnan/signbit (reproduced without odl): not generated
            outorder = 'C'
        for fill in (np.nan, float(desc['sentinel'])):
            y = _fresh_out(ran, outorder, fill)
            try:
                r2 = op(x, out=y)
            except Exception as e:  # noqa
                if zoo.innermost_is_harness(e):
                    raise
                raise Violation(
                    sig('inplace-raises', type(e).__name__ +
                        ('' if outorder == 'C' else '|out-' + outorder),
                        exc=e),
                    '{}: op(x, out=y) raised {!r}'.format(name, e))
            if r2 is not y:
                raise Violation(sig('identity'),
                                name + ': op(x, out=y) is not y')
            msg = compare(y, r, ran, ent.exact, ent.ktol, fft)
            if msg:
                raise Violation(
                    sig('stale-out' if fill != fill else 'inplace-value',
                        'fill=' + ('nan' if fill != fill else 'finite') +
                        ('' if outorder == 'C' else '|out-' + outorder)),
                    '{}: in-place result differs from op(x): {}'.format(
                        name, msg))
            check_x('inplace', outorder)
        strata.append('inplace')
        strata.append('out-' + outorder)
        if name in zoo.INPLACE_UNTESTED:
            strata.append('inplace-untested-by-repo-suite')
        nontrivial = True

    # (2b) array-like input
    form = desc['xform']
    if form != 'elem':
        xa = _as_arraylike(x, dom, form)
        raw = _raw_arrays(xa)
        rawb = [a.tobytes() for a in raw]
        try:
            ra = op(xa)
        except Exception as e:  # noqa
            if zoo.innermost_is_harness(e):
                raise
            raise Violation(sig('arraylike-raises', type(e).__name__, exc=e),
                            '{}: op({}) raised {!r}'.format(name, form, e))
        if ra not in ran:
            raise Violation(sig('not-in-range', form),
                            name + ': result for array-like x not in range')
        if isinstance(ran, Field):
            # (the cast copy may be laid out differently: summation order)
            msg = None if _scalar_same(ra, r, K_TOL * np.sqrt(
                max(flat.rdim(dom), 1)) if not isinstance(dom, Field) else 0,
                _dom_eps(x, dom)) else '{!r} vs {!r}'.format(ra, r)
        else:
            # the cast copy may have another memory layout than x
            msg = compare(ra, r, ran, ent.exact, ent.ktol, fft)
        if msg:
            raise Violation(sig('arraylike-value', form),
                            '{}: {}'.format(name, msg))
        if [a.tobytes() for a in raw] != rawb:
            raise Violation(sig('x-modified', 'arraylike'),
                            name + ': array-like input was modified')
        strata.append('x-' + form)

    # (5) junk x is rejected before the implementation runs
    jk = desc['junk']
    junk = _junk_x(dom, jk)
    n0 = cnt.n
    for use_out in ((False,) if op.is_functional else (False, True)):
        try:
            if use_out:
                op(junk, out=_fresh_out(ran, 'C', 0.0))
            else:
                op(junk)
        except OpDomainError:
            pass
        except Exception as e:  # noqa
            raise Violation(sig('junk-x', jk + '|' + type(e).__name__),
                            '{}: junk input raised {!r} instead of '
                            'OpDomainError'.format(name, e))
        else:
            raise Violation(sig('junk-x', jk + '|accepted'),
                            '{}: junk input {!r} accepted'.format(name,
                                                                  junk))
        if cnt.ok and cnt.n != n0:
            raise Violation(sig('junk-x', jk + '|call-ran'),
                            name + ': implementation ran on junk input')
    strata.append('junk-' + jk)

    # (6) bad out is rejected, untouched
    if not op.is_functional:
        bk = desc['badout']
        bad = _bad_out(ran, bk)
        bb = bad.tobytes() if isinstance(bad, np.ndarray) else (
            repr(bad) if isinstance(bad, float) else
            _bytes(bad, bad.space))
        n0 = cnt.n
        try:
            op(x, out=bad)
        except OpRangeError:
            pass
        except Exception as e:  # noqa
            raise Violation(sig('bad-out', bk + '|' + type(e).__name__),
                            '{}: bad out raised {!r} instead of '
                            'OpRangeError'.format(name, e))
        else:
            raise Violation(sig('bad-out', bk + '|accepted'),
                            name + ': bad out accepted')
        ba = bad.tobytes() if isinstance(bad, np.ndarray) else (
            repr(bad) if isinstance(bad, float) else
            _bytes(bad, bad.space))
        if ba != bb:
            raise Violation(sig('bad-out', bk + '|modified'),
                            name + ': rejected out was modified')
        if cnt.ok and cnt.n != n0:
            raise Violation(sig('bad-out', bk + '|call-ran'),
                            name + ': implementation ran with bad out')
        check_x('bad-out')
        strata.append('badout-' + bk)
    else:
        nontrivial = True
    if desc['x'].get('order', 'C') != 'C':
        strata.append('x-' + desc['x']['order'])
    if getattr(op, '_verif_pso_dense', False) and not op.is_functional:
        # dense block operator with non-adjacent row entries, evaluated in
        # place against a NaN-filled out
        strata.append('pso-adjoint-dense')
    if desc['op']['opts'].get('large'):
        strata.append('large')
        if desc['x'].get('order') == 'strided' and not op.is_functional \
                and outorder == 'strided':
            strata.append('large-x-and-out-strided')
    if view_operand:
        strata.append('expr-operand-returns-view')
    return Outcome('ok', strata=strata, nontrivial=nontrivial,
                   notes={'implementation_calls_observed': cnt.n,
                          'inplace_evaluations': 0 if op.is_functional
                          else 2})


# entries that cannot reach status 'ok': classes documented to offer no
# evaluation, and entries lying completely inside a known finding
NEVER_OK = {'func.MoreauEnvelope', 'func.InfimalConvolution',
            'func.FunctionalDefaultConvexConjugate',
            'fprox.IndicatorNuclearNormUnitBall'}
REQUIRED_STRATA = ['inplace', 'functional', 'large', 'pso-adjoint-dense',
                   'large-x-and-out-strided', 'x-array', 'x-list', 'x-F',
                   'x-strided', 'out-F', 'out-strided'] + \
    ['junk-' + k for k in JUNK_X] + ['badout-' + k for k in BAD_OUT] + \
    ['entry:' + n for n, e in zoo.ENTRIES.items()
     if e.c03 and n not in NEVER_OK]

# introspection diff of the catalogue against the odl package (numbers for
# the evidence; also available as module constants)
ZOO_COVERAGE = zoo.introspect()
CLASSES_TOTAL = ZOO_COVERAGE['classes_total']
CLASSES_WITH_BUILDER = ZOO_COVERAGE['classes_with_builder']
CLASSES_EXEMPT = ZOO_COVERAGE['classes_exempt']
CLASSES_NOT_COVERED = ZOO_COVERAGE['classes_missing']
ASSUMPTIONS = ASSUMPTIONS + zoo.coverage_statement()
