"""C08 - functional, convex conjugate and their proximals are mutually
consistent.

Generator: functional catalogue (``vlib.zoo_funcs``: every class with a
``convex_conj`` / a proximal, and expressions derived by ``s*f``, ``f*s``,
``f*v``, ``f+c``, translation, linear/quadratic perturbation, Bregman
distance, separable sums, infimal convolution; depth <= 2) x spaces (rn,
const-/array-weighted rn, 2-d rn, uniform_discr with cell volume != 1 and
with boundary nodes, power spaces, matrix-field spaces, non-power products)
x points.  Three-step chains around an argument scaling
(translation -> scaling, scaling -> translation, (f + c) -> scaling,
perturbation -> scaling; innermost functional linear in half of the cases)
are drawn on purpose (depth 3).  Further strata hit by construction:
power-type separable sums ``SeparableSum(f, n)`` / the same functional
object listed n times / a non-power separable sum in which one object
occurs twice (bare or under one derivation rule), each with pairwise
distinct per-summand steps given as list / tuple / array; a non-constant
point-wise step (space element) for every case; scaling by zero
(``f * 0``, ``0 * f``); functionals wired from caller-supplied callables
(``simple_functional``).

Oracle (clauses):
  fy          f(x) + f*(y) >= <x, y> on random pairs (inf allowed)
  fy-adv      the same on adversarial pairs: y just inside / on / outside
              the boundary of the *reference* dom f*, x far out along y and
              along the outward normal of the reference domain
  conj-value  f*(y) against the independent reference conjugate (equal
              infinities are equal; points within rounding of the boundary
              of dom f* are skipped)
  fy-eq       equality at y in the reference sub-differential of f at x, at
              x in the reference sub-differential of f* at y and at the
              library's own gradient; a sub-gradient on the boundary of
              dom f* is pulled inside by 1e-8 and the gap bounded by
              convexity
  biconj      f** = f
  moreau      prox_{s f}(x) + s prox_{f*/s}(x/s) = x whenever both exist
  moreau-conj the same for the conjugate as a functional of its own, i.e.
              for the pair (f*, f**)
  moreau-seq  SeparableSum with one step per summand (documented): the
              decomposition holds summand by summand
  prox-parts  ... and component i of both proximals is the proximal of
              summand i (resp. of its conjugate) with step s_i (1/s_i)
  prox-seq-const  a scalar step equals the constant step sequence
  moreau-pointwise  one step per point (space element), wherever both
              proximal factories take it: p1 + s.p2(x/s) = x entry-wise
  prox-pointwise-slice  for functionals that are sums over the points, the
              entries with step v equal those of the proximal with the
              scalar step v (both for f and for f*)
  sepsum-getitem  h[i] is summand i, h[1:] the separable sum of the rest
              (values and conjugate values)
  fy-eq-libgrad-conj  equality at x = (f*).gradient(y)
  sup         f*(y) against sup_z <y,z> - f(z) by Nelder-Mead for smooth
              functionals in dimension <= 3
  param-snapshot
              history clause: after the caller mutates an element it passed
              as a parameter (translation, linear term, Bregman point and
              sub-gradient, prior, vectors) value, conjugate, biconjugate,
              gradient and both proximals must all be unchanged or all
              follow (noted); a mix is a violation
  not-offered conjugates documented as not implemented / not defined raise
              (negative left scaling: the proximal raises as well)
"""
import numpy as np
from hypothesis import strategies as st

from vlib import build, flat, zoo_funcs as Z
from vlib.core import Violation, Outcome, HarnessError
from vlib.ref import funcs_conj as R

odl = build.odl
from odl.solvers.functional.functional import (  # noqa: E402
    FunctionalDefaultConvexConjugate)
from odl.operator.operator import OpNotImplementedError  # noqa: E402

PROPERTY = 'C08'
TECHNIQUE = ('Hypothesis property-based testing over a functional catalogue '
             'and derived expressions: Fenchel-Young inequality on random '
             'and adversarial pairs, equality at reference sub-gradients, '
             'biconjugation, Moreau decomposition, conjugate values against '
             'an independent NumPy reference and a numerical sup-oracle; '
             'descriptor replay')
LEVEL_TEXT = ('Generated-input search over functional class x parameters x '
              'derivation rule (depth <= 2) x space (weighted, discretized, '
              'product) x points. Every conjugate that can be evaluated is '
              'compared with a reference conjugate written from convex '
              'analysis (never imports odl), checked for the Fenchel-Young '
              'inequality at pairs placed on purpose at the boundary of the '
              'reference domain, for equality at reference sub-gradients, '
              'for f** = f and, where both proximals exist, for the Moreau '
              'decomposition. Exploration, not proof: dense sampling of the '
              'cross product (every class / rule / space kind is a counted '
              'stratum), no statement about inputs that were not generated.')
LEVEL_NOTE = ('Trusted: NumPy, scipy.optimize (Nelder-Mead inside the sup '
              'oracle only), Hypothesis, vlib/ref/funcs_conj.py (reference '
              'values, sub-gradients, conjugate domains), the library inner '
              'product (pinned by C02) from which the reference weights are '
              'read. Real spaces only; convex parameter choices only.')
DESIGN_REF = 'DESIGN.md section 5, C08'
BUDGET = {'quick': 4800, 'thorough': 60000}
K_TOL = 512
TOLERANCES = {
    'fenchel_young': 'f(x)+f*(y) >= <x,y> - 512*eps*n*(1+|f|+|f*|+sum '
                     'w(|x||y|+|x|+|y|)+C*(1+|x|+|y|)), eps of the space dtype, '
                     'C = magnitude of the constants / vectors of the '
                     'derivation rules (terms that may cancel); the same '
                     'C term enters conj_value and biconj',
    'equality': '|f(x)+f*(y)-<x,y>| <= same tolerance (+ 1e-8*gap(y0) when '
                'the sub-gradient had to be pulled inside dom f* by 1e-8, '
                'bound from convexity of f*)',
    'conj_value': '(at the generated y and at every reference sub-gradient '
                  'used by fy-eq-ref) '
                  '|f*(y)-ref| <= 512*eps*n*(1+|ref|+sum w(|y|+y^2)) + the '
                  'change of the reference under a 32-ulp input '
                  'perturbation (conditioning next to the boundary); '
                  'finiteness is asserted only for points whose reference '
                  'domain residual is < -1e3*eps*(1+C+|y|), infinity only '
                  'for residual > +1e3*eps*(1+C+|y|); in the band either '
                  'answer passes (note boundary-band)',
    'adversarial': 'boundary offset delta = 1e-6 (float64) / 2e-3 (float32) '
                   'relative',
    'biconj': '|f**(x)-f(x)| <= 512*eps*n*(1+|f|+sum w x^2) + the change '
              'of the reference value under a 32-ulp input perturbation',
    'moreau': 'max|prox_sf(x)+s*prox_{f*/s}(x/s)-x| <= (256*eps + 40*'
              'resolution(dtype))*F*max(1,s,1/s)*(1+C+max|x|+s*max|p2|+'
              'max|p1|), F = product of the scalar factors of the rules (the library shrinks '
              'some thresholds by 10*resolution on purpose)',
    'moreau_non_finite': 'a non-finite proximal value is a violation unless '
                         'the inputs are beyond the safe range of the dtype: '
                         '(1+s+1/s)*max|x| + (1+s)*C > 0.4*log(max) for '
                         'exp/log based functionals, 1e-3*sqrt(max) else; the '
                         'Moreau clause is evaluated at the generic point and '
                         'at sparse points (zeros planted at every second '
                         'position, in all components of vector fields; x = 0; '
                         'x = translation)',
    'steps': 'non-scalar steps (moreau-seq, moreau-pointwise, moreau-conj, '
             'prox-parts, prox-seq-const, prox-pointwise-slice): the moreau '
             'tolerance with s replaced by the entry-wise step, i.e. factor '
             'max(1, max s, 1/min s) and s*|p2| taken entry-wise; the '
             'comparisons with scalar-step proximals use the same bound (a '
             'wrong step changes the result by O(|s_i - s_j|) >= 5e-2)',
    'sepsum_getitem': '|h[i](x_i) - f_i(x_i)|, |h[1:](x[1:]) - sum| <= '
                      '512*eps*n*(1+|value|); equal infinities are equal',
    'param_snapshot': 'observations before / after / rebuilt compared with '
                      'rtol 1e-10, atol 1e-13 (nan == nan)',
    'sup_oracle': '|f*(y) - sup| <= 1e-6*(1+|f*(y)|), only when Nelder-Mead '
                  'converged (restarts until no progress) and |f*(y)| < 1e6; '
                  'not for priors with zeros (supremum not attained)',
}
ASSUMPTIONS = [
    'real floating-point spaces only (Functional assumes a real field)',
    'convex parameters only (left scaling > 0, quadratic coefficient >= 0, '
    'positive definite quadratic forms); non-positive left scaling must '
    'raise ValueError on convex_conj',
    'SeparableSum lives on the unweighted product of its parts (its '
    'constructor builds the domain)',
    'FunctionalDefaultConvexConjugate (no _call) is used in the Moreau '
    'clause only',
    'the value of an InfimalConvolution cannot be evaluated through the '
    'API; only its conjugate is compared with the reference f*+g*',
    'space dimension <= 12',
    'a point-wise step (space element) is asserted only where BOTH proximal '
    'factories accept it (TypeError from float(sigma) = scalar steps only, '
    'counted as steps:pointwise-not-offered); per-summand step sequences '
    'are documented for SeparableSum and must be accepted there',
    '0 * f only for f finite on the whole space, f * 0 only for finite f(0)',
    'step clauses are skipped in the region of the known Huber vector-field '
    'proximal crash (C08-K5, reported by the scalar Moreau clause)',
]
RULE = ('Hypothesis draws (space, functional expression tree, x, y, sigma, '
        'per-summand step sequence with pairwise distinct entries + its '
        'container type, non-constant point-wise step vector); '
        'points are mapped into dom f / dom f* by bisection on the reference '
        'domain residual; non-trivial = at least one clause compared two '
        'finite sides AND (derived functional or non-default space); '
        'distinct by sha1 of the descriptor')
REQUIRED_STRATA = [
    'space:rn', 'space:discr', 'space:power', 'space:matrix',
    'space:product', 'w:unit', 'w:const', 'w:array',
    'clause:fy', 'clause:fy-adv', 'clause:fy-eq-ref', 'clause:fy-eq-conj',
    'clause:fy-eq-libgrad', 'clause:biconj', 'clause:moreau', 'clause:sup',
    'clause:conj-value', 'clause:not-offered', 'clause:param-snapshot',
    'points:generic', 'points:sparse',
    'rule:leftscal', 'rule:rightscal', 'rule:rightvec', 'rule:scalarsum',
    'rule:translated', 'rule:quadperturb', 'rule:infconv', 'rule:bregman',
    'rule:sepsum', 'rule:sepsum_power',
    'cls:L1Norm', 'cls:L2Norm', 'cls:LpNorm', 'cls:L2NormSquared',
    'cls:Huber', 'cls:KL', 'cls:KLConj', 'cls:KLCE', 'cls:KLCEConj',
    'cls:IndicatorLpUnitBall', 'cls:IndicatorZero', 'cls:Constant',
    'cls:Zero', 'cls:QuadraticForm', 'cls:IndicatorBox',
    'cls:IndicatorNonnegativity', 'cls:GroupL1Norm',
    'cls:IndicatorGroupL1UnitBall', 'cls:NuclearNorm',
    'cls:IndicatorNuclearNormUnitBall', 'cls:LinearForm',
    'chain:trans-scale', 'chain:scale-trans', 'chain:sum-scale',
    'chain:pert-scale', 'linear:flagged',
    'clause:moreau-conj', 'clause:moreau-seq', 'clause:prox-parts',
    'clause:prox-seq-const', 'clause:moreau-pointwise',
    'clause:prox-pointwise-slice', 'clause:sepsum-getitem',
    'clause:fy-eq-libgrad-conj',
    'steps:seq-list', 'steps:seq-tuple', 'steps:seq-array',
    'steps:seq-repeated-object', 'steps:pointwise',
    'steps:pointwise-not-offered', 'region:sepsum=shared-object',
    'region:zero=left', 'region:zero=right', 'cls:Simple',
]


# --------------------------------------------------------------------------
# strategy

@st.composite
def _strategy(draw, tier):
    pick = draw(st.sampled_from(['flat'] * 6 + ['power'] * 2 +
                                ['matrix', 'product']))
    dtypes = ('float64',) * 7 + ('float32',)
    if pick == 'flat':
        sd = draw(Z.flat_space_descs(
            max_size=6 if tier == 'quick' else 9, dtypes=dtypes))
    elif pick == 'power':
        sd = draw(Z.power_space_descs())
    elif pick == 'matrix':
        sd = draw(Z.matrix_space_descs())
    else:
        sd, fd = draw(Z.product_space_with_funcs('conj'))
        if len(sd['parts']) == 3 and draw(st.integers(0, 2)) == 0 and \
                Z.wtype(sd['parts'][0]) != 'array':
            # aliasing stratum: one and the same functional object occurs
            # twice among the summands (first and last part made equal;
            # not for array weightings, which compare by identity, so that
            # two separately built parts are different spaces)
            sd['parts'][2] = sd['parts'][0]
            fd['parts'][2] = fd['parts'][0]
            fd['share'] = [[0, 2]]
    if pick != 'product':
        depth = draw(st.sampled_from([0, 1, 1, 2, 2, 3]))
        if pick == 'power' and sd.get('weighting') is None and \
                draw(st.integers(0, 2)) == 0:
            # power-type separable sum (one functional object repeated) on
            # purpose: bare, or under one derivation rule
            fd = draw(_sepsum_power_descs(sd))
        else:
            fd = draw(Z.func_descs(sd, 'conj', depth))
        # non-positive left scaling: convex_conj must raise
        k = draw(st.integers(0, 24))
        if k == 0:
            fd = {'cls': 'leftscal', 's': draw(st.sampled_from([-1.0, -2.5])),
                  'f': fd, 'expect': 'ValueError'}
        elif k == 1:
            # scaling by zero: documented (f * 0)(x) = f(0), (0 * f)(x) = 0
            which = draw(st.sampled_from(['leftscal', 'rightscal',
                                          'rightscal+c']))
            if which == 'rightscal+c':
                # f(0) != 0 on purpose (most catalogue entries vanish at 0)
                which = 'rightscal'
                fd = {'cls': 'scalarsum', 'f': fd,
                      'c': draw(st.sampled_from([1.0, -2.5, 0.5, 3.0]))}
            fd = {'cls': which, 's': 0.0, 'f': fd}
    n = Z.space_dim(sd)
    # pointwise step: few distinct values (so that every value is shared by
    # several points), non-constant by construction
    sv = draw(st.lists(st.sampled_from([0.5, 2.0, 1.25]), min_size=n,
                       max_size=n))
    if n >= 2 and len(set(sv)) == 1:
        sv[-1] = 2.0 if sv[0] != 2.0 else 0.5
    return {'space': sd, 'func': fd,
            # per-component steps of separable sums: pairwise distinct
            'sigmas': draw(st.lists(Z.scal_pos(), min_size=3, max_size=3,
                                    unique=True)),
            'seqstyle': draw(st.sampled_from(['list', 'tuple', 'array'])),
            'sigvec': sv,
            'probe_known': draw(st.integers(0, 3)) == 0,
            # numerical sup-oracle (the most expensive clause): every
            # eligible case in the thorough tier, one in three in quick
            'sup': tier != 'quick' or draw(st.integers(0, 2)) == 0,
            'x': draw(Z.vec(n)), 'y': draw(Z.vec(n)),
            'z': draw(Z.vec(n)),
            'sigma': draw(Z.scal_pos()),
            'xscale': draw(st.sampled_from([1.0, 1.0, 0.1, 10.0])),
            'yscale': draw(st.sampled_from([1.0, 1.0, 0.3, 3.0]))}


@st.composite
def _sepsum_power_descs(draw, sd):
    """SeparableSum(f, n) / SeparableSum(f, ..., f) on the power space
    ``sd``, bare or under one derivation rule whose proximal / conjugate
    rule has to pass non-scalar steps through."""
    n = Z.space_dim(sd)
    inner = {'cls': 'sepsum_power', 'n': int(sd['power']),
             'style': draw(st.sampled_from(['int', 'repeat'])),
             'f': draw(Z.func_descs(sd['base'], 'conj',
                                    draw(st.sampled_from([0, 0, 1])),
                                    top=False))}
    rule = draw(st.sampled_from(['none', 'none', 'translated', 'leftscal',
                                 'rightscal', 'quadperturb', 'scalarsum']))
    if rule == 'translated':
        return {'cls': rule, 't': draw(Z.vec(n)), 'f': inner}
    if rule == 'leftscal':
        return {'cls': rule, 's': draw(Z.scal_pos()), 'f': inner}
    if rule == 'rightscal':
        return {'cls': rule, 's': draw(Z.scal_nz()), 'f': inner}
    if rule == 'quadperturb':
        return {'cls': rule, 'a': draw(st.sampled_from([0.0, 0.5, 2.0])),
                'u': draw(st.one_of(st.none(), Z.vec(n))),
                'c': draw(st.sampled_from([0.0, 1.0])), 'f': inner}
    if rule == 'scalarsum':
        return {'cls': rule, 'c': draw(st.sampled_from([1.0, -2.5])),
                'f': inner}
    return inner


def strategy(tier):
    return _strategy(tier)


# --------------------------------------------------------------------------
# helpers

def _val(fn, x, what, sig):
    v = fn(x)
    try:
        v = float(v)
    except (TypeError, ValueError):
        raise Violation(sig('bad-value'),
                        '{} returned {!r}'.format(what, v))
    if np.isnan(v):
        raise Violation(sig('nan-value'), '{} returned nan'.format(what))
    return v


def _pull_inside(residual, center, v, frac=0.9):
    """Point on the segment center -> v inside {residual <= 0}."""
    r = residual(v)
    if r is None or r <= 0 or center is None:
        return v
    rc = residual(center)
    if rc is None or not rc < 0:
        return v
    lo, hi = 0.0, 1.0
    for _ in range(60):
        mid = 0.5 * (lo + hi)
        if residual(center + mid * (v - center)) <= 0:
            lo = mid
        else:
            hi = mid
    return center + frac * lo * (v - center)


def _evaluable(fn, x):
    try:
        fn(x)
        return True
    except NotImplementedError:
        return False


# --------------------------------------------------------------------------
# the case

def run_case(desc):
    sd, fd = desc['space'], desc['func']
    space = Z.build_space(sd)
    try:
        B = Z.build_func(space, sd, fd)
    except Z.Rejected as e:
        return Outcome('rejected', strata=['rejected:' + str(e)[:30]])
    except Z.BuildCrash as bc:
        from vlib import core
        part = bc.built
        kr = known_region(part)
        if kr is not None and not desc.get('probe_known', False):
            return Outcome('excluded', strata=['excluded:' + kr])
        where, csig = core.crash_signature(PROPERTY, bc.exc)
        region = 'w=' + Z.wcoarse(part.sd)
        if part.region_str():
            region += ',' + part.region_str()
        raise Violation('C08|crash|{}|{}|{}'.format(
            type(part.f).__name__, region, csig.split('|', 2)[2]),
            'constructing the derived functional failed: ' + str(bc)[:300])
    n = B.geo.n
    xraw = np.asarray(desc['x'], float) * desc['xscale']
    yraw = np.asarray(desc['y'], float) * desc['yscale']
    zraw = np.asarray(desc['z'], float)
    steps = {'sigmas': [float(v) for v in desc.get('sigmas') or []],
             'seqstyle': desc.get('seqstyle', 'list'),
             'sigvec': (np.asarray(desc['sigvec'], float)
                        if desc.get('sigvec') else None)}
    pts = (xraw, yraw, zraw, float(desc['sigma']), steps)
    probe = bool(desc.get('probe_known', False))
    do_sup = bool(desc.get('sup', True))
    # children first (post-order): the innermost failing node names the
    # root cause
    out = None
    for node, npts in _post_order(B, pts):
        top = node is B
        res = _guarded(node, npts, top and do_sup, top, fd if top else {},
                       probe)
        if res.status == 'excluded' and not top:
            # a part lies in the region of a known finding: the whole
            # expression is excluded (counted)
            return Outcome('excluded', strata=res.strata)
        if top:
            out = res
    return out


def known_region(B):
    """Id of the known finding whose region contains this functional (the
    predicate mirrors the signature patterns of known_findings.d/C08.json).
    Such cases are excluded unless the descriptor asks to probe them
    (``probe_known``: one generated case in four and every regress replay).
    """
    for b in B.nodes():
        r = b.region
        q = r.get('quad', '')
        if 'opvec' in q or 'nonsym' in q:
            return 'C08-K1'
        g = r.get('group', '')
        if (g.startswith('p1.0-') or g.startswith('pinf-')) and \
                ('-cconst' in g or '-carray' in g):
            return 'C08-K3'
    return None


def _cut_steps(steps, a, b):
    sv = steps.get('sigvec')
    return dict(steps, sigvec=None if sv is None else sv[a:b])


def _post_order(B, pts):
    x, y, z, sigma, steps = pts
    if B.cls == 'sepsum':
        off = 0
        for k in B.children:
            m = k.geo.n
            for item in _post_order(k, (x[off:off + m], y[off:off + m],
                                        z[off:off + m], sigma,
                                        _cut_steps(steps, off, off + m))):
                yield item
            off += m
    elif B.cls == 'sepsum_power':
        k = B.children[0]
        m = k.geo.n
        for item in _post_order(k, (x[:m], y[:m], z[:m], sigma,
                                    _cut_steps(steps, 0, m))):
            yield item
    elif B.cls == 'comp':
        pass
    else:
        for k in B.children:
            for item in _post_order(k, pts):
                yield item
    yield B, pts


def _guarded(B, pts, do_sup, top, fd, probe):
    ctx = {}
    try:
        return _check_node(B, pts, top, fd, ctx, probe, do_sup)
    except (Violation, HarnessError):
        raise
    except Exception as e:  # noqa
        from vlib import core
        where, csig = core.crash_signature(PROPERTY, e)
        if where != 'odl' or 'who' not in ctx:
            raise
        import traceback
        tb = ''.join(traceback.format_exception(type(e), e,
                                                e.__traceback__))
        raise Violation('C08|crash|{}|{}|{}'.format(
            ctx['who'], ctx['region'], csig.split('|', 2)[2]), tb[-1200:])


def _check_node(B, pts, top, fd, ctx, probe=True, do_sup=True):
    sd, space = B.sd, B.space
    xraw, yraw, zraw, sigma, steps = pts
    f, ref, geo = B.f, B.ref, B.geo
    n = geo.n
    eps = Z.space_eps(space)
    f32 = eps > 1e-10
    sk = Z.space_kind(sd)
    wk = Z.wkind(geo.w)
    classes = Z.classes_in(fd) if top else [B.cls]
    region = 'w=' + Z.wcoarse(sd)
    rs = B.region_str()
    if rs:
        region += ',' + rs
    if f32:
        region += ',f32'
    who = type(f).__name__

    ctx['who'], ctx['region'] = who, region

    def sig(clause):
        return 'C08|{}|{}|{}'.format(clause, who, region)

    strata = ['space:' + sk, 'w:' + wk, 'depth:{}'.format(B.depth()),
              'dtype:' + ('float32' if f32 else 'float64')]
    for c in sorted(set(classes)):
        strata.append(('rule:' if c in RULES else 'cls:') + c)
    for b in B.nodes():
        for k in sorted(b.region):
            strata.append('region:{}={}'.format(k, b.region[k]))
    if top and fd.get('chain'):
        strata.append('chain:' + fd['chain'])
    if f.is_linear:
        strata.append('linear:flagged')
    notes = {}
    finite_hits = [0]

    def note(k, v=1):
        notes[k] = notes.get(k, 0) + v

    def hit(clause):
        s = 'clause:' + clause
        if s not in strata:
            strata.append(s)

    kr = known_region(B)
    if kr is not None:
        strata.append('known-region:' + kr)
        if not probe:
            return Outcome('excluded', strata=strata + ['excluded:' + kr])

    # ---- the conjugate ----------------------------------------------------
    expect = fd.get('expect')
    if expect == 'ValueError' and B.region.get('linneg'):
        # (negative scalar) * (linear functional) is linear, hence convex
        expect = None
    not_offered = ('IndicatorSimplex' in classes or
                   'IndicatorSumConstraint' in classes)
    try:
        fc = f.convex_conj
    except OpNotImplementedError:
        # e.g. MultiplyOperator has no inverse for QuadraticForm.convex_conj
        strata.append('conj:op-inverse-not-offered')
        return Outcome('rejected', strata=strata)
    except NotImplementedError:
        if not_offered:
            hit('not-offered')
            return Outcome('rejected', strata=strata)
        raise
    except ValueError as e:
        if expect == 'ValueError':
            hit('not-offered')
            # the proximal of a negatively scaled (non-linear) functional is
            # rejected the same way ("not well-defined")
            try:
                f.proximal
            except (ValueError, NotImplementedError):
                pass
            else:
                raise Violation(sig('not-offered'),
                                'proximal of a functional scaled by {} did '
                                'not raise'.format(fd['s']))
            return Outcome('rejected', strata=strata)
        if B.region.get('linneg'):
            raise Violation(sig('linear-negative-scaling'),
                            'convex_conj of (linear functional) * negative '
                            'scalar raises ValueError: ' + str(e)[:120])
        raise
    if expect == 'ValueError':
        raise Violation(sig('not-offered'),
                        'convex_conj of a functional scaled by {} did not '
                        'raise'.format(fd['s']))
    if not_offered:
        raise Violation(sig('not-offered'),
                        'convex_conj documented as not implemented returned '
                        '{!r}'.format(type(fc).__name__))

    def X(v):
        return Z.elem(space, v)

    f_eval = B.cls != 'infconv' and _evaluable(f, X(xraw)[0])
    default_conj = isinstance(fc, FunctionalDefaultConvexConjugate)
    c_eval = (not default_conj) and _evaluable(fc, X(yraw)[0])
    strata.append('conj:' + ('evaluable' if c_eval else
                             ('default' if default_conj else 'no-call')))

    rscale = _ref_scale(ref)

    def scale_xy(xf, yf):
        return float(np.sum(geo.w * np.abs(xf) * np.abs(yf)))

    def tol_fy(fx, fcy, xf, yf):
        # (sum w(|x|+|y|): magnitude of terms that may cancel inside
        # derived functionals, e.g. f(x) - <s, x> of a Bregman distance)
        return K_TOL * eps * max(n, 1) * (
            1.0 + abs(fx) + abs(fcy) + scale_xy(xf, yf) +
            float(np.sum(geo.w * (np.abs(xf) + np.abs(yf)))) +
            rscale * (1.0 + float(np.max(np.abs(xf))) +
                      float(np.max(np.abs(yf)))))

    # candidate points ------------------------------------------------------
    xs = [xraw]
    if ref is not None:
        xd = _pull_inside(ref.dom_residual, ref.center(), xraw)
        if xd is not xraw:
            xs.append(xd)
        xs.append(zraw)
    sp = _sparse_points(B, xraw)
    if sp:
        # value class "sparse": exact zeros planted at fixed positions
        xs.append(sp[0])
    ys = [yraw]
    ccenter = None
    if ref is not None:
        ccenter = ref.conj_center()
        yd = _pull_inside(ref.conj_residual, ccenter, yraw)
        if yd is not yraw:
            ys.append(yd)
    Xs = [X(v) for v in xs]
    Ys = [X(v) for v in ys]

    # ---- (1) Fenchel-Young on random pairs --------------------------------
    def fy_pair(xe, xf, ye, yf, clause, extra=''):
        fx = _val(f, xe, 'f(x)', sig)
        fcy = _val(fc, ye, 'f*(y)', sig)
        ip = float(xe.inner(ye)) if sk != 'field' else float(xe * ye)
        if np.isinf(fx) or np.isinf(fcy):
            if fx == -np.inf or fcy == -np.inf:
                raise Violation(sig(clause), 'value -inf')
            return None
        finite_hits[0] += 1
        gap = fx + fcy - ip
        t = tol_fy(fx, fcy, xf, yf)
        if gap < -t:
            raise Violation(
                sig(clause),
                'f(x)+f*(y) = {!r} + {!r} < <x,y> = {!r} (gap {:.3g}, tol '
                '{:.3g}) x={} y={} {}'.format(fx, fcy, ip, gap, t,
                                              xf.tolist(), yf.tolist(),
                                              extra))
        return gap, t

    if f_eval and c_eval:
        for xe, xf in Xs:
            for ye, yf in Ys:
                fy_pair(xe, xf, ye, yf, 'fy')
        hit('fy')

    # ---- (H) conjugate value against the reference ------------------------
    def conj_vs_ref(ye, yf, clause='conj-value'):
        if ref is None:
            return
        rv = ref.conj(yf)
        if rv is None:
            return
        res = ref.conj_residual(yf)
        margin = 1e3 * eps * (1.0 + rscale + (
            float(np.max(np.abs(yf))) if n else 0.0))
        lv = _val(fc, ye, 'f*(y)', sig)
        if res is not None and abs(res) <= margin:
            # boundary band of dom f*: finiteness is asserted only a margin
            # inside, infinity only a margin outside; in between either
            # answer passes.  (Only when a thin domain -- a single point --
            # is hit exactly and both sides are finite are the values
            # compared.)
            if not (ref.thin_conj_dom and res == 0 and np.isfinite(lv) and
                    np.isfinite(rv)):
                note('boundary-band')
                return
        if np.isinf(rv) or np.isinf(lv):
            if rv != lv:
                raise Violation(
                    sig('conj-domain'),
                    'f*(y) = {!r} but the reference conjugate is {!r} '
                    '(domain residual {!r}) y={}'.format(lv, rv, res,
                                                         yf.tolist()))
            return
        finite_hits[0] += 1
        t = K_TOL * eps * max(n, 1) * (
            1.0 + abs(rv) + float(np.sum(geo.w * (np.abs(yf) + yf * yf))) +
            rscale * (1.0 + float(np.max(np.abs(yf)))))
        # conditioning: the conjugate may be steep next to the boundary of
        # its domain; allow what an input perturbation of a few ulp does to
        # the reference
        if not (ref.thin_conj_dom and res == 0):
            dy = 32 * eps * (np.abs(yf) + 1.0)
            r1, r2 = ref.conj(yf + dy), ref.conj(yf - dy)
            if not (np.isfinite(r1) and np.isfinite(r2)):
                note('boundary-band')
                return
            t += 4 * (abs(r1 - rv) + abs(r2 - rv))
        if abs(lv - rv) > t:
            raise Violation(
                sig(clause),
                'f*(y) = {!r}, reference {!r} (diff {:.3g}, tol {:.3g}) '
                'y={}'.format(lv, rv, lv - rv, t, yf.tolist()))

    if c_eval and ref is not None:
        for ye, yf in Ys:
            conj_vs_ref(ye, yf)
        hit('conj-value')

    # ---- (2) adversarial pairs at the boundary of the reference dom f* ----
    if c_eval and ref is not None and ccenter is not None and \
            ref.conj_residual(ccenter) is not None and \
            ref.conj_residual(ccenter) < 0:
        direction = yraw - ccenter
        if not np.any(direction):
            direction = np.ones(n)
        tstar = R.boundary_scale(ref, ccenter, direction)
        if tstar is not None and tstar > 0:
            hit('fy-adv')
            delta = 2e-3 if f32 else 1e-6
            y_on = ccenter + tstar * direction
            normal = R.residual_normal(ref, y_on)
            if not np.all(np.isfinite(normal)):
                normal = np.zeros(n)
            x0 = ref.center()
            if x0 is None:
                x0 = np.zeros(n)
            for fac, where in ((1 - delta, 'in'), (1.0, 'on'),
                               (1 + delta, 'out'), (1.5, 'far')):
                ye, yf = X(ccenter + fac * tstar * direction)
                res = ref.conj_residual(yf)
                cands = []
                for t in (1.0, 100.0, 1e5):
                    cands.append(t * yf)
                    cands.append(x0 + t * normal)
                    cands.append(x0 + t * (yf - ccenter))
                if where in ('out', 'far'):
                    lv = _val(fc, ye, 'f*(y)', sig)
                    margin = 1e3 * eps * (1.0 + rscale +
                                          float(np.max(np.abs(yf))))
                    if np.isfinite(lv) and res is not None and res > margin:
                        # library domain larger than the reference domain:
                        # look for a concrete Fenchel-Young witness
                        if f_eval:
                            for xv in cands:
                                xe, xf = X(xv)
                                fy_pair(xe, xf, ye, yf, 'fy-adv',
                                        '[y {} reference dom f*, residual '
                                        '{:.3g}]'.format(where, res))
                        raise Violation(
                            sig('conj-domain'),
                            'f*(y) = {!r} finite at y {} the reference '
                            'domain (residual {:.3g}) y={}'.format(
                                lv, where, res, yf.tolist()))
                elif where == 'in':
                    conj_vs_ref(ye, yf)
                if f_eval:
                    for xv in cands[:6]:
                        xe, xf = X(xv)
                        fy_pair(xe, xf, ye, yf, 'fy-adv')

    # ---- (3) equality at sub-gradients ------------------------------------
    pull = 1e-4 if f32 else 1e-8

    def equality(xe, xf, ye, yf, clause, center_conj, center_dom):
        """|f(x) + f*(y) - <x,y>| <= tol; boundary points are pulled."""
        fx = _val(f, xe, 'f(x)', sig)
        fcy = _val(fc, ye, 'f*(y)', sig)
        bound = 0.0
        if np.isinf(fcy) and np.isfinite(fx):
            if center_conj is None:
                if ref.thin_conj_dom:
                    note('thin_conj_dom_rounding')
                    return
                raise Violation(sig(clause),
                                'f*(y) = inf at a sub-gradient y of f at x; '
                                'x={} y={}'.format(xf.tolist(), yf.tolist()))
            ye, yf = X(center_conj + (1 - pull) * (yf - center_conj))
            fcy = _val(fc, ye, 'f*(y)', sig)
            g0 = ref.value(xf) + ref.conj(center_conj) - geo.inner(
                xf, center_conj)
            bound = pull * abs(g0) * 2
            note('subgradient_pulled_inside')
            if np.isinf(fcy):
                raise Violation(
                    sig(clause),
                    'f*(y) = inf at a sub-gradient of f at x even after '
                    'pulling y inside dom f* by {:g}; x={} y={}'.format(
                        pull, xf.tolist(), yf.tolist()))
        elif np.isinf(fx) and np.isfinite(fcy):
            if center_dom is None:
                if ref.thin_dom:
                    note('thin_dom_rounding')
                    return
                raise Violation(sig(clause),
                                'f(x) = inf at a sub-gradient x of f* at y; '
                                'x={} y={}'.format(xf.tolist(), yf.tolist()))
            xe, xf = X(center_dom + (1 - pull) * (xf - center_dom))
            fx = _val(f, xe, 'f(x)', sig)
            g0 = ref.value(center_dom) + ref.conj(yf) - geo.inner(
                center_dom, yf)
            bound = pull * abs(g0) * 2
            note('subgradient_pulled_inside')
            if np.isinf(fx):
                raise Violation(
                    sig(clause),
                    'f(x) = inf at a sub-gradient of f* at y even after '
                    'pulling x inside dom f; x={} y={}'.format(
                        xf.tolist(), yf.tolist()))
        if np.isinf(fx) or np.isinf(fcy):
            return
        ip = float(xe.inner(ye)) if sk != 'field' else float(xe * ye)
        gap = fx + fcy - ip
        t = tol_fy(fx, fcy, xf, yf)
        finite_hits[0] += 1
        if abs(gap) > t + bound:
            raise Violation(
                sig(clause),
                'no equality at a sub-gradient: f(x)+f*(y)-<x,y> = {!r}+'
                '{!r}-{!r} = {:.6g} (tol {:.3g}) x={} y={}'.format(
                    fx, fcy, ip, gap, t + bound, xf.tolist(), yf.tolist()))

    if f_eval and c_eval and ref is not None:
        dcenter = ref.center()
        for xe, xf in Xs:
            if ref.dom_residual(xf) is not None and \
                    ref.dom_residual(xf) > 0:
                continue
            yg = ref.subgrad(xf)
            if yg is None or not np.all(np.isfinite(yg)):
                continue
            ye, yf = X(yg)
            if not _moderate(yf, f32):
                note('subgradient_overflow')
                continue
            if f32 and float(np.max(np.abs(yf - yg))) > 0:
                # the rounded sub-gradient is no sub-gradient any more;
                # the gap is second order only for smooth conjugates
                if not ref.smooth:
                    note('f32_subgradient_rounded')
                    continue
            hit('fy-eq-ref')
            equality(xe, xf, ye, yf, 'fy-eq-ref', ccenter, dcenter)
            # the sub-gradient is a point of dom f* by construction (for a
            # thin dom f* the only way to meet it): value against the
            # reference there, too
            conj_vs_ref(ye, yf)
        for ye, yf in Ys:
            if ref.conj_residual(yf) is not None and \
                    ref.conj_residual(yf) > 0:
                continue
            xg = ref.conj_subgrad(yf)
            if xg is None or not np.all(np.isfinite(xg)):
                continue
            xe, xf = X(xg)
            if not _moderate(xf, f32):
                note('subgradient_overflow')
                continue
            if f32 and float(np.max(np.abs(xf - xg))) > 0:
                note('f32_subgradient_rounded')
                continue
            hit('fy-eq-conj')
            equality(xe, xf, ye, yf, 'fy-eq-conj', ccenter, dcenter)

    # equality at the library's own gradient (the property's wording)
    if f_eval and c_eval and ref is not None and not f32:
        grad = None
        try:
            grad = f.gradient
        except NotImplementedError:
            pass
        if grad is not None:
            for xe, xf in Xs:
                dr = ref.dom_residual(xf)
                if dr is not None and dr >= 0:
                    continue
                if not ref.radius(xf) > 1e-6:
                    continue
                try:
                    ye = grad(xe)
                except Exception:  # noqa
                    # gradients are C09's business; here the library
                    # gradient is only a source of sub-gradients
                    note('libgrad_failed')
                    break
                yf = flat.flat(ye, space)
                if not _moderate(yf, f32):
                    continue
                hit('fy-eq-libgrad')
                equality(xe, xf, ye, yf, 'fy-eq-libgrad', ccenter,
                         ref.center())

    # the same with the roles exchanged: x = grad f*(y) is a sub-gradient
    # of f* at y (the conjugate is a functional with a gradient of its own)
    if f_eval and c_eval and ref is not None and not f32:
        cgrad = None
        try:
            cgrad = fc.gradient
        except (NotImplementedError, OpNotImplementedError, TypeError,
                ValueError):
            pass
        if cgrad is not None:
            for ye, yf in Ys:
                cr = ref.conj_residual(yf)
                margin = 1e3 * eps * (1.0 + rscale +
                                      float(np.max(np.abs(yf))))
                if ref.thin_conj_dom or (cr is not None and
                                         not cr < -max(margin, 1e-6)):
                    continue
                rv_ = ref.conj(yf)
                if rv_ is None or not np.isfinite(rv_):
                    continue
                try:
                    xe = cgrad(ye)
                except Exception:  # noqa  (gradients are C09's business)
                    note('libgrad_failed')
                    break
                if xe not in space:
                    break
                xf = flat.flat(xe, space)
                if not _moderate(xf, f32):
                    continue
                hit('fy-eq-libgrad-conj')
                equality(xe, xf, ye, yf, 'fy-eq-libgrad-conj', ccenter,
                         ref.center())

    # ---- (4) biconjugate ----------------------------------------------------
    if f_eval and c_eval:
        fcc = None
        try:
            fcc = fc.convex_conj
        except (NotImplementedError, OpNotImplementedError, ValueError):
            fcc = None
        if fcc is not None and not isinstance(
                fcc, FunctionalDefaultConvexConjugate) and \
                _evaluable(fcc, Xs[0][0]):
            hit('biconj')
            for xe, xf in Xs + [X(np.zeros(n))]:
                a = _val(f, xe, 'f(x)', sig)
                b = _val(fcc, xe, 'f**(x)', sig)
                if np.isinf(a) or np.isinf(b):
                    if a != b:
                        dr = ref.dom_residual(xf) if ref is not None \
                            else None
                        margin = 1e3 * eps * (1 + rscale +
                                              float(np.max(np.abs(xf))))
                        if dr is not None and abs(dr) <= margin:
                            note('boundary-band')
                            continue
                        raise Violation(
                            sig('biconj'),
                            'f(x) = {!r} but f**(x) = {!r}; x={}'.format(
                                a, b, xf.tolist()))
                    continue
                finite_hits[0] += 1
                t = K_TOL * eps * max(n, 1) * (
                    1.0 + abs(a) + float(np.sum(geo.w * xf * xf)) +
                    rscale * (1.0 + float(np.max(np.abs(xf)))))
                if ref is not None and ref.value(xf) is not None:
                    # conditioning next to the boundary of dom f (see
                    # conj_vs_ref)
                    dx = 32 * eps * (np.abs(xf) + 1.0)
                    r0 = ref.value(xf)
                    r1, r2 = ref.value(xf + dx), ref.value(xf - dx)
                    if not (np.isfinite(r1) and np.isfinite(r2) and
                            np.isfinite(r0)):
                        note('boundary-band')
                        continue
                    t += 4 * (abs(r1 - r0) + abs(r2 - r0))
                if abs(a - b) > t:
                    raise Violation(
                        sig('biconj'),
                        'f(x) = {!r} but f**(x) = {!r} (diff {:.3g}, tol '
                        '{:.3g}); x={}'.format(a, b, a - b, t, xf.tolist()))

    # ---- (5) numerical sup oracle -------------------------------------------
    if do_sup and f_eval and c_eval and ref is not None and ref.smooth and \
            n <= 3 and 'prior=zeros' not in region and \
            not ref.thin_conj_dom and not f32 and sk != 'field':
        ye, yf = Ys[-1]
        rv = ref.conj(yf)
        start = xs[1] if len(xs) > 2 else xs[0]
        if rv is not None and np.isfinite(rv) and \
                np.isfinite(_val(f, X(start)[0], 'f(x)', sig)):
            sup, ok = _sup_oracle(f, space, ye, start)
            lv = _val(fc, ye, 'f*(y)', sig)
            if ok and np.isfinite(lv) and abs(lv) < 1e6:
                hit('sup')
                finite_hits[0] += 1
                if abs(lv - sup) > 1e-6 * (1 + abs(lv)):
                    raise Violation(
                        sig('sup'),
                        'f*(y) = {!r} but sup_z <y,z>-f(z) = {!r} '
                        '(Nelder-Mead); y={}'.format(lv, sup, yf.tolist()))
            else:
                note('sup_unconverged')

    # ---- (6) Moreau decomposition -------------------------------------------
    pf = pc = None
    try:
        pf = f.proximal
        pc = fc.proximal
    except (NotImplementedError, TypeError, ValueError):
        pf = pc = None
    if pf is not None and pc is not None and sk != 'field':
        try:
            P1 = pf(sigma)
            P2 = pc(1.0 / sigma)
        except NotImplementedError:
            P1 = P2 = None
        mpts = []
        if P1 is not None:
            base = xs[-1] if len(xs) > 1 else xs[0]
            mpts = [('generic', base)] + [
                ('sparse', v) for v in _sparse_points(B, base)]
        for kind, xv in mpts:
            xe, xf = X(xv)
            try:
                p1 = P1(xe)
                p2 = P2(xe / sigma)
            except NotImplementedError:
                break
            except Exception as e:  # noqa
                if _huber_prox_known(B) and not probe:
                    strata.append('excluded:C08-K5')
                    break
                elif _huber_prox_known(B):
                    raise Violation(
                        sig('moreau-crash'),
                        '{}: {}'.format(type(e).__name__, str(e)[:200]))
                else:
                    raise
            if p1 not in space or p2 not in space:
                raise Violation(sig('moreau'),
                                'proximal result not in the space')
            a, b = flat.flat(p1, space), flat.flat(p2, space)
            strata.append('points:' + kind) if ('points:' + kind) \
                not in strata else None
            if not (np.all(np.isfinite(a)) and np.all(np.isfinite(b))):
                # only genuine overflow is skipped, and that is decided
                # from the inputs, never from the result
                if _overflow_prone(B, xf, sigma, rscale, f32):
                    note('moreau_overflow_range')
                    continue
                raise Violation(
                    sig('moreau-non-finite'),
                    'non-finite proximal value at a {} point: prox_sf(x) = '
                    '{}, prox_(f*/s)(x/s) = {}; sigma={} x={}'.format(
                        kind, a.tolist(), b.tolist(), sigma, xf.tolist()))
            r = a + sigma * b - xf
            res = np.finfo(np.float32 if f32 else np.float64).resolution
            t = (256 * eps + 40 * res) * _scal_factor(ref) * max(
                1.0, sigma, 1.0 / sigma) * (
                1.0 + rscale + float(np.max(np.abs(xf))) +
                sigma * float(np.max(np.abs(b))) +
                float(np.max(np.abs(a))))
            hit('moreau')
            finite_hits[0] += 1
            if not np.all(np.abs(r) <= t):
                raise Violation(
                    sig('moreau'),
                    'prox_sf(x) + s prox_(f*/s)(x/s) - x = {} (tol '
                    '{:.3g}) at a {} point; sigma={} x={} p1={} p2={}'.format(
                        r.tolist(), t, kind, sigma, xf.tolist(), a.tolist(),
                        b.tolist()))

    # ---- (6b) non-scalar step sizes ------------------------------------------
    res_dt = np.finfo(np.float32 if f32 else np.float64).resolution

    def steps_tol(svf, xf, a, b):
        return (256 * eps + 40 * res_dt) * _scal_factor(ref) * max(
            1.0, float(np.max(svf)), 1.0 / float(np.min(svf))) * (
            1.0 + rscale + float(np.max(np.abs(xf))) +
            float(np.max(svf * np.abs(b))) + float(np.max(np.abs(a))))

    def steps_moreau(P1, P2, svf, clause):
        """prox_{s f}(x) + s prox_{f*/s}(x/s) = x with an entry-wise step
        ``svf`` at the generic and at the first sparse point; returns the
        evaluated rows for the clauses that compare with scalar steps."""
        base = xs[-1] if len(xs) > 1 else xs[0]
        rows = []
        for kind, xv in [('generic', base)] + [
                ('sparse', v) for v in _sparse_points(B, base)[:1]]:
            xe, xf = X(xv)
            xse, xsf = X(xf / svf)
            try:
                p1 = P1(xe)
                p2 = P2(xse)
            except NotImplementedError:
                break
            if p1 not in space or p2 not in space:
                raise Violation(sig(clause),
                                'proximal result not in the space')
            a, b = flat.flat(p1, space), flat.flat(p2, space)
            if not (np.all(np.isfinite(a)) and np.all(np.isfinite(b))):
                if _overflow_prone(B, xf, float(np.max(svf)), rscale, f32) \
                        or _overflow_prone(B, xf, float(np.min(svf)),
                                           rscale, f32):
                    note('moreau_overflow_range')
                    continue
                raise Violation(
                    sig(clause + '-non-finite'),
                    'non-finite proximal value at a {} point: prox_sf(x) = '
                    '{}, prox_(f*/s)(x/s) = {}; steps={} x={}'.format(
                        kind, a.tolist(), b.tolist(), svf.tolist(),
                        xf.tolist()))
            t = steps_tol(svf, xf, a, b)
            r = a + svf * b - xf
            finite_hits[0] += 1
            if not np.all(np.abs(r) <= t):
                raise Violation(
                    sig(clause),
                    'prox_sf(x) + s prox_(f*/s)(x/s) - x = {} (tol {:.3g}) '
                    'at a {} point with entry-wise steps s={}; x={} p1={} '
                    'p2={}'.format(r.tolist(), t, kind, svf.tolist(),
                                   xf.tolist(), a.tolist(), b.tolist()))
            rows.append((kind, xe, xf, xse, p1, p2, a, b, t))
        return rows

    def same_entries(got, exp, idx, t, clause, what):
        if got.shape != exp.shape or not np.all(
                np.abs(got[idx] - exp[idx]) <= t):
            raise Violation(sig(clause), what + ': got {} expected {} '
                            '(tol {:.3g})'.format(got[idx].tolist(),
                                                  exp[idx].tolist(), t))

    # (6a') the conjugate is a functional with a conjugate of its own: the
    # decomposition also holds for the pair (f*, f**)
    if pc is not None and sk != 'field' and n > 0:
        try:
            pcc = fc.convex_conj.proximal
            Q1, Q2 = pc(sigma), pcc(1.0 / sigma)
        except (NotImplementedError, OpNotImplementedError, ValueError,
                TypeError):
            Q1 = Q2 = None
        if Q1 is not None and not _huber_prox_known(B):
            if steps_moreau(Q1, Q2, np.full(n, float(sigma)), 'moreau-conj'):
                hit('moreau-conj')

    # (6b-1) SeparableSum: one step per summand (documented: "if sigma is a
    # list of positive floats it distributes, too")
    huber_known = _huber_prox_known(B)   # (reported by the clause above)
    if pf is not None and pc is not None and steps.get('sigmas') and \
            B.cls in ('sepsum', 'sepsum_power') and not huber_known:
        sizes = _comp_sizes(B)
        m = len(sizes)
        kids = (B.children if B.cls == 'sepsum'
                else [B.children[0]] * m)
        pal = steps['sigmas']
        sg = [pal[i % len(pal)] * (1 + i // len(pal)) for i in range(m)]
        style = steps.get('seqstyle', 'list')
        mk = {'list': list, 'tuple': tuple,
              'array': lambda v: np.array(v, dtype=float)}[style]
        svf = np.concatenate([np.full(k, v) for k, v in zip(sizes, sg)])
        try:
            P1 = pf(mk(sg))
            P2 = pc(mk([1.0 / v for v in sg]))
        except NotImplementedError:
            P1 = P2 = None
        rows = [] if P1 is None else steps_moreau(P1, P2, svf, 'moreau-seq')
        if rows:
            hit('moreau-seq')
            strata.append('steps:seq-' + style)
            if len(set(id(k) for k in kids)) < m:
                strata.append('steps:seq-repeated-object')
            # every component is the proximal of its own summand with its
            # own step (the summands' proximals are judged at their nodes)
            for kind, xe, xf, xse, p1, p2, a, b, t in rows:
                for i in range(m):
                    try:
                        q1 = kids[i].f.proximal(sg[i])(xe[i])
                        q2 = kids[i].f.convex_conj.proximal(
                            1.0 / sg[i])(xse[i])
                    except NotImplementedError:
                        continue
                    for got, expd, nm in ((p1[i], q1, 'prox_(s h)(x)'),
                                          (p2[i], q2, 'prox_(h*/s)(x/s)')):
                        g_ = flat.flat(got, space[i])
                        e_ = flat.flat(expd, space[i])
                        same_entries(
                            g_, e_, slice(None), t, 'prox-parts',
                            '{}[{}] with steps {} is not the proximal of '
                            'summand {} with step {!r} ({} point)'.format(
                                nm, i, sg, i, sg[i], kind))
            hit('prox-parts')
            # a scalar step is the constant sequence
            try:
                Pc, Ps = pf(mk([sigma] * m)), pf(sigma)
                kind, xe, xf = rows[0][:3]
                same_entries(flat.flat(Pc(xe), space),
                             flat.flat(Ps(xe), space), slice(None),
                             rows[0][8], 'prox-seq-const',
                             'proximal with the constant step sequence {} '
                             'differs from the scalar step'.format(
                                 [sigma] * m))
                hit('prox-seq-const')
            except NotImplementedError:
                pass

    # (6b-2) one step per point (space element), wherever both factories
    # take it (documented for L1 / squared L2 norms, their conjugates, the
    # Moreau-identity default and the calculus rules on top of them)
    sv = steps.get('sigvec')
    if pf is not None and pc is not None and sk != 'field' and \
            sv is not None and len(sv) == n and n > 0 and not huber_known:
        se, svf = X(sv)
        sie = X(1.0 / svf)[0]
        try:
            P1 = pf(se)
            P2 = pc(sie)
        except TypeError:
            # float(sigma): this proximal takes scalar steps only
            strata.append('steps:pointwise-not-offered')
            P1 = P2 = None
        except NotImplementedError:
            P1 = P2 = None
        rows = [] if P1 is None else steps_moreau(P1, P2, svf,
                                                  'moreau-pointwise')
        if rows:
            hit('moreau-pointwise')
            strata.append('steps:pointwise')
            if _pointwise_separable(B):
                # "the element defines a step size for each point": where
                # the step equals v the result is that of the scalar step v
                for v in sorted(set(svf.tolist())):
                    idx = svf == v
                    try:
                        Pv, Qv = pf(float(v)), pc(1.0 / float(v))
                    except NotImplementedError:
                        break
                    for kind, xe, xf, xse, p1, p2, a, b, t in rows:
                        same_entries(
                            a, flat.flat(Pv(xe), space), idx, t,
                            'prox-pointwise-slice',
                            'prox_(s f)(x) with point-wise steps {} at the '
                            'points with step {!r} ({} point, x={})'.format(
                                svf.tolist(), v, kind, xf.tolist()))
                        same_entries(
                            b, flat.flat(Qv(xse), space), idx, t,
                            'prox-pointwise-slice',
                            'prox_(f*/s)(x/s) with point-wise steps {} at '
                            'the points with step {!r} ({} point, x={})'
                            ''.format(svf.tolist(), v, kind, xf.tolist()))
                else:
                    hit('prox-pointwise-slice')

    # ---- (6c) SeparableSum: indexing returns the summands -------------------
    if B.cls in ('sepsum', 'sepsum_power') and f_eval:
        sizes = _comp_sizes(B)
        m = len(sizes)
        kids = (B.children if B.cls == 'sepsum'
                else [B.children[0]] * m)
        xe, xf = Xs[0]
        ye, yf = Ys[-1]

        def close(u, v):
            if np.isinf(u) or np.isinf(v):
                return u == v
            return abs(u - v) <= K_TOL * eps * max(n, 1) * (1 + abs(v))

        for i in sorted(set((0, m - 1))):
            fi = f[i]
            u, v = _val(fi, xe[i], 'f[i](x_i)', sig), \
                _val(kids[i].f, xe[i], 'f_i(x_i)', sig)
            if not close(u, v):
                raise Violation(sig('sepsum-getitem'),
                                'h[{}](x_{}) = {!r} but summand {} gives '
                                '{!r}'.format(i, i, u, i, v))
        if m >= 2:
            sub = f[1:]
            u = _val(sub, xe[1:], 'h[1:](x[1:])', sig)
            v = sum(_val(kids[i].f, xe[i], 'f_i(x_i)', sig)
                    for i in range(1, m))
            if not close(u, v):
                raise Violation(sig('sepsum-getitem'),
                                'h[1:](x[1:]) = {!r} but the summands 1.. '
                                'add up to {!r}'.format(u, v))
            if c_eval:
                u = _val(sub.convex_conj, ye[1:], 'h[1:]*(y[1:])', sig)
                v = sum(_val(kids[i].f.convex_conj, ye[i], 'f_i*(y_i)', sig)
                        for i in range(1, m))
                if not close(u, v):
                    raise Violation(sig('sepsum-getitem'),
                                    'h[1:]*(y[1:]) = {!r} but the conjugates '
                                    'of the summands 1.. add up to '
                                    '{!r}'.format(u, v))
        hit('sepsum-getitem')

    # ---- (7) functionals are snapshots of their element-valued parameters ---
    if B.extra.get('params') and sk != 'field':
        _param_snapshot(B, f, Xs, Ys, sigma, sig, hit, note, f_eval, probe,
                        strata)

    nontrivial = finite_hits[0] > 0 and (B.children or sk != 'rn' or
                                         wk != 'unit')
    return Outcome('ok' if finite_hits[0] > 0 else 'trivial', strata=strata,
                   nontrivial=nontrivial, notes=notes)


RULES = {'leftscal', 'rightscal', 'rightvec', 'scalarsum', 'translated',
         'quadperturb', 'infconv', 'bregman', 'sepsum', 'sepsum_power',
         'sum', 'comp', 'product', 'quotient', 'moreau'}


def _comp_sizes(B):
    """Flat sizes of the summands of a separable sum."""
    if B.cls == 'sepsum':
        return [k.geo.n for k in B.children]
    k = B.children[0].geo.n
    return [k] * (B.geo.n // k if k else len(B.f.functionals))


SEP_LEAVES = {'L1Norm', 'L2NormSquared', 'IndicatorZero', 'Constant', 'Zero',
              'IndicatorBox', 'IndicatorNonnegativity', 'KL', 'KLConj',
              'KLCE', 'KLCEConj', 'LinearForm', 'Simple'}
SEP_RULES = {'leftscal', 'rightscal', 'rightvec', 'scalarsum', 'translated',
             'quadperturb', 'bregman', 'sepsum', 'sepsum_power'}


def _pointwise_separable(B):
    """The functional is a sum over the points of the space of functions
    of one point each (then a point-wise step acts point by point)."""
    for b in B.nodes():
        c = b.cls
        if c in SEP_RULES or c in SEP_LEAVES:
            continue
        if c == 'LpNorm' and b.ref is not None and b.ref.p == 1:
            continue
        if c == 'IndicatorLpUnitBall' and b.ref is not None and \
                b.ref.p == np.inf:
            continue
        if c == 'Huber' and b.geo.power is None:
            continue
        if c == 'QuadraticForm' and (
                'qop' not in b.region or
                b.region['qop'].startswith(('scaling', 'multiply'))):
            continue
        return False
    return True


def _huber_prox_known(B):
    """Huber's proximal crashes on vector fields (C07's finding F11b); the
    Moreau clause reports that under its own signature."""
    return any('huber' in b.region and b.region['huber'].startswith('vec')
               for b in B.nodes())


def _moderate(v, f32):
    """Finite and far from the overflow threshold of the space dtype (a
    point that squared still fits)."""
    lim = 1e-3 * np.sqrt(np.finfo(np.float32 if f32 else np.float64).max)
    return bool(np.all(np.isfinite(v))) and (
        v.size == 0 or float(np.max(np.abs(v))) < lim)


def _sparse_points(B, v):
    """Value class ``sparse``: copies of ``v`` with exact zeros planted at
    deterministic positions (vector fields: the same positions in every
    component), the zero vector, and the translation of translated
    functionals."""
    v = np.asarray(v, float)
    n = v.size
    out = []
    if n == 0:
        return out
    w = v.copy()
    g = B.geo
    if g.power is not None:
        m, nb = g.power
        W = w.reshape(m, nb)
        W[:, ::2] = 0.0          # points 0, 2, ... vanish in all components
        w = W.ravel()
    elif g.matrix is not None:
        m1, m2, nb = g.matrix
        W = w.reshape(m1, m2, nb)
        W[:, :, ::2] = 0.0
        w = W.ravel()
    else:
        w[::2] = 0.0
    out.append(w)
    out.append(np.zeros(n))
    for b in B.nodes():
        if b.cls == 'translated' and b.geo is B.geo:
            out.append(np.asarray(b.extra['tf'], float).copy())
            break
    return out


def _overflow_prone(B, xf, sigma, rscale, f32):
    """Inputs beyond the safe range of the dtype (decided from the inputs):
    exp/log based functionals overflow once the arguments reach a fraction
    of log(max), everything else once their squares do."""
    fi = np.finfo(np.float32 if f32 else np.float64)
    mag = (1.0 + sigma + 1.0 / sigma) * (
        float(np.max(np.abs(xf))) if xf.size else 0.0) + \
        (1.0 + sigma) * rscale
    has_exp = any(b.cls in ('KL', 'KLConj', 'KLCE', 'KLCEConj')
                  for b in B.nodes())
    lim = 0.4 * np.log(fi.max) if has_exp else 1e-3 * np.sqrt(fi.max)
    return mag > lim


def _same(a, b):
    if a is None or b is None:
        return a is None and b is None
    a, b = np.asarray(a, float), np.asarray(b, float)
    return a.shape == b.shape and bool(np.allclose(
        a, b, rtol=1e-10, atol=1e-13, equal_nan=True))


def _param_snapshot(B, f, Xs, Ys, sigma, sig, hit, note, f_eval, probe,
                    strata):
    """History clause: after the caller mutates an element it passed as a
    parameter, value / conjugate / gradient / proximals must either all be
    unchanged (snapshot) or all follow (consistent by-reference, noted); a
    mix is a violation."""
    space = B.space

    def observe(func):
        obs = {}

        def put(key, fn):
            try:
                v = fn()
            except Exception:  # noqa  (not offered / not evaluable)
                return
            obs[key] = (flat.flat(v, space) if v in space
                        else np.array([float(v)]))

        xe, ye = Xs[0][0], Ys[0][0]
        xe2 = Xs[-1][0]
        if f_eval:
            put('value', lambda: func(xe))
            put('value2', lambda: func(xe2))
        put('conj', lambda: func.convex_conj(ye))
        put('biconj', lambda: func.convex_conj.convex_conj(xe))
        put('gradient', lambda: func.gradient(xe2))
        put('proximal', lambda: func.proximal(sigma)(xe))
        put('conj-proximal', lambda: func.convex_conj.proximal(sigma)(ye))
        return obs

    params = B.extra['params']
    for which in sorted(params):
        if B.cls == 'bregman' and which == 'subgrad' and not probe:
            # known: BregmanDistance.gradient keeps `subgrad` by reference
            # while value / conjugate / proximal use a snapshot (C08-K8)
            strata.append('excluded:C08-K8')
            continue
        par = params[which]
        orig = par.copy()
        old = observe(f)
        try:
            par *= 2.0
            par += 0.25
            after = observe(f)
            fresh = dict((k, (v.copy() if k != which else par.copy()))
                         for k, v in params.items())
            try:
                new = observe(B.extra['remake'](fresh))
            except Exception:  # noqa  (mutated value not admissible)
                new = {}
        finally:
            par.assign(orig)
        hit('param-snapshot')
        kinds = {}
        for key in sorted(old):
            if key not in after:
                # no longer evaluable: consistent with a rebuilt functional
                # that cannot be evaluated either (mutated value outside
                # the domain)
                if key in new:
                    kinds[key] = 'other'
            elif _same(after[key], old[key]):
                if key in new and not _same(new[key], old[key]):
                    kinds[key] = 'snapshot'
            elif key in new and _same(after[key], new[key]):
                kinds[key] = 'by-reference'
            else:
                kinds[key] = 'other'
        seen = set(kinds.values())
        if not seen or seen == {'snapshot'}:
            continue
        if seen == {'by-reference'}:
            note('param_by_reference:{}.{}'.format(B.cls, which))
            continue
        raise Violation(
            'C08|param-snapshot|{}|{}'.format(type(f).__name__, which),
            'after mutating the element passed as `{}` in place the '
            'functional is neither a snapshot nor consistently by-reference:'
            ' {}'.format(which, ', '.join(
                '{}: {}'.format(k, kinds[k]) for k in sorted(kinds))))


def _scal_factor(ref):
    """Product of the scalar factors of the derivation rules (thresholds
    that the library shrinks by 10*resolution are scaled by them)."""
    if ref is None:
        return 1.0
    fac = 1.0
    if isinstance(ref, (R.LeftScal, R.RightScal)):
        fac = max(1.0, abs(ref.s), 1.0 / abs(ref.s))
    if isinstance(ref, R.RightVec):
        fac = max(1.0, float(np.max(np.abs(ref.v))),
                  float(np.max(1.0 / np.abs(ref.v))))
    sub = [_scal_factor(ch) for ch in ref.children()]
    return fac * (max(sub) if sub else 1.0)


def _ref_scale(ref):
    """Magnitude of the constants and vectors hidden in a derived
    functional (terms that may cancel in its value or in its conjugate)."""
    if ref is None:
        return 0.0
    s = 0.0
    w = ref.geo.w
    if isinstance(ref, R.QuadPerturb):
        s += abs(ref.c) + float(np.sum(w * np.abs(ref.u)))
    elif isinstance(ref, R.Translation):
        s += float(np.sum(w * np.abs(ref.t)))
    elif isinstance(ref, R.ScalarSum):
        s += abs(ref.c)
    fac = 1.0
    if isinstance(ref, (R.LeftScal, R.RightScal)):
        fac = max(1.0, abs(ref.s), 1.0 / abs(ref.s))
    for ch in ref.children():
        if ch.geo is ref.geo:
            s += fac * _ref_scale(ch)
    return s


def _sup_oracle(f, space, ye, start):
    """sup_z <y, z> - f(z) by Nelder-Mead with restarts (library values of f
    only -- leaf evaluation)."""
    from scipy.optimize import minimize

    def g(v):
        z = flat.unflat(v, space)
        val = float(f(z))
        if not np.isfinite(val):
            return 1e300
        return val - float(z.inner(ye))

    v = np.asarray(start, float)
    best = g(v)
    ok = False
    size = 0.5
    for _ in range(5):
        # explicit initial simplex (scipy's default degenerates for start
        # entries that are zero or tiny)
        sim = [v.copy()]
        for k in range(v.size):
            w = v.copy()
            w[k] += size
            if g(w) >= 1e300:
                w[k] -= 2 * size
            sim.append(w)
        res = minimize(g, v, method='Nelder-Mead',
                       options={'xatol': 1e-9, 'fatol': 1e-13,
                                'maxiter': 1000, 'maxfev': 1000,
                                'initial_simplex': np.array(sim)})
        improved = best - res.fun
        if res.fun <= best:
            v = res.x
        best = min(best, res.fun)
        size = max(size * 0.2, 1e-3)
        if res.success and improved <= 1e-12 * (1 + abs(best)):
            ok = True
            break
    return -best, ok
