"""C01 - vector arithmetic is element-wise exact under every aliasing pattern.

Generator: space (tensor / discretized / nested product; dtype; size strata
straddling the 100 and 50000 thresholds of ``_lincomb_impl``) x memory layout
of each operand (C, F, strided view, reversed view) x identity-aliasing
pattern of (x1, x2, out) x scalar classes x operation.
Oracle: entry-wise evaluation in long double from copies taken before the
call (``vlib.ref.arith``), object identity of the result, bit-identity of the
non-output operands, independence from the stale contents of ``out``.
"""
import numpy as np
from hypothesis import strategies as st

from vlib import build, strategies as vs
from vlib.core import Violation, Outcome, HarnessError
from vlib.ref import arith

PROPERTY = 'C01'
TECHNIQUE = ('Hypothesis property-based testing: generated (space, layout, '
             'aliasing, scalar, op) cases against an independent long-double '
             'entry-wise reference; descriptor replay')
LEVEL_TEXT = ('Generated-input search over the cross product size regime x '
              'dtype x layout x aliasing pattern x scalar class x operation, '
              'every case compared entry-wise with a long-double reference '
              'that never imports odl; operands and stale-out independence '
              'checked bit-for-bit. Exploration, not proof: it samples the '
              'cross product densely (every leaf of the dispatch tree of '
              '_lincomb_impl is a counted stratum) but cannot show absence.')
LEVEL_NOTE = ('Trusted: NumPy long-double arithmetic, Hypothesis, the '
              'descriptor builder (vlib/build.py). Overlapping views and '
              'non-finite operands are outside the generator (see '
              'assumptions in the evidence).')
DESIGN_REF = 'DESIGN.md section 5, C01'
BUDGET = {'quick': 15000, 'thorough': 200000}
K_TOL = 8
TOLERANCES = {
    'values': '|got-ref| <= 8*eps(dtype)*magnitude entry-wise, magnitude = '
              'sum of |terms| of the reference expression (x**n: (8+4|n|)); '
              'exact for integer dtypes',
    'operands': 'bit-identical to pre-call copies',
    'stale_out': 'results from NaN-filled and sentinel-filled out are '
                 'bit-identical',
}
ASSUMPTIONS = [
    'aliasing means object identity of whole elements, never overlapping '
    'views', 'operands hold finite values; non-finite values only as stale '
    'contents of out / of the target of set_zero',
    'integer spaces: integer scalars only, no division (documented as not '
    'guaranteed)', 'scalars in 1e-3..1e3, data in +-1e3 (the in-place '
    'x/=a; x+=y; x*=a trick may overflow otherwise; not asserted)',
]
RULE = ('Hypothesis draws (space, op, alias pattern, scalar classes, element '
        'layouts and values); non-trivial = size >= 2 and (aliased or '
        'non-contiguous operand or size >= 100 or product/discretized space) '
        'and not all operands zero; distinct by sha1 of the case descriptor')

LINCOMB_ALIAS = ['none', 'x1x2', 'outx1', 'outx2', 'all', 'fresh']
OPS = {
    # name: (needs x2, alias choices, needs scalar a, b)
    'lincomb2': (True, LINCOMB_ALIAS),
    'lincomb1': (False, ['none', 'outx1', 'fresh']),
    'elem_lincomb': (True, ['none', 'x1x2', 'outx1', 'outx2', 'all']),
    'add': (True, ['none', 'x1x2']), 'sub': (True, ['none', 'x1x2']),
    'mul': (True, ['none', 'x1x2']), 'div': (True, ['none', 'x1x2']),
    'iadd': (True, ['none', 'x1x2']), 'isub': (True, ['none', 'x1x2']),
    'imul': (True, ['none', 'x1x2']), 'idiv': (True, ['none', 'x1x2']),
    'multiply': (True, LINCOMB_ALIAS), 'divide': (True, LINCOMB_ALIAS),
    'smul': (False, ['none']), 'rsmul': (False, ['none']),
    'ismul': (False, ['none']), 'sdiv': (False, ['none']),
    'isdiv': (False, ['none']), 'rsdiv': (False, ['none']),
    'sadd': (False, ['none']), 'rsadd': (False, ['none']),
    'isadd': (False, ['none']), 'ssub': (False, ['none']),
    'rssub': (False, ['none']), 'issub': (False, ['none']),
    'pow': (False, ['none']), 'ipow': (False, ['none']),
    'neg': (False, ['none']), 'pos': (False, ['none']),
    'copy': (False, ['none']), 'assign': (True, ['none', 'x1x2']),
    'set_zero': (False, ['none']), 'zero': (False, ['none']),
    'one': (False, ['none']),
    'bcast_add': (True, ['none']), 'bcast_mul': (True, ['none']),
    'bcast_iadd': (True, ['none']),
    # second operand given as an array-like (nested list / ndarray) that the
    # space converts itself
    'add_al': (True, ['none']), 'sub_al': (True, ['none']),
    'mul_al': (True, ['none']), 'div_al': (True, ['none']),
    'radd_al': (True, ['none']), 'rsub_al': (True, ['none']),
    'rmul_al': (True, ['none']), 'rdiv_al': (True, ['none']),
    'iadd_al': (True, ['none']), 'isub_al': (True, ['none']),
    'imul_al': (True, ['none']), 'idiv_al': (True, ['none']),
}
DIV_OPS = {'div', 'idiv', 'divide', 'sdiv', 'isdiv', 'rsdiv', 'div_al',
           'rdiv_al', 'idiv_al'}
INT_OPS = [o for o in OPS if o not in DIV_OPS and o not in ('pow', 'ipow')]


# --------------------------------------------------------------------------
# strategy

def _kind(dtype):
    return {'f': 'real', 'c': 'cplx', 'i': 'int', 'u': 'int'}[
        np.dtype(dtype).kind]


@st.composite
def _scalar(draw, kind, cls=None, unsigned=False):
    cls = cls or draw(st.sampled_from(['zero', 'one', 'mone', 'generic',
                                       'generic']))
    if cls == 'zero':
        v = 0
    elif cls == 'one':
        v = 1
    elif cls == 'mone':
        v = -1
    elif kind == 'int':
        v = draw(st.integers(-6, 6))
    else:
        mag = draw(st.sampled_from([1.0, 30.0, 0.05]))
        v = float(np.float32(draw(st.floats(0.05, 1.0)) * mag))
        if draw(st.booleans()):
            v = -v
        if kind == 'cplx' and draw(st.booleans()):
            v = complex(v, float(np.float32(draw(st.floats(-2, 2)))))
    if kind != 'int' and cls in ('zero', 'one', 'mone') \
            and draw(st.booleans()):
        v = float(v)
    return {'cls': cls, 'value': v}


@st.composite
def _leaf_space(draw, kind, size=None, shape=None):
    if size is None:
        size = draw(st.sampled_from(vs.SIZE_STRATA))
    if shape is None:
        shape = draw(vs.shapes_for_size(size,
                                        max_ndim=3 if size < 1000 else 2))
    dtypes = {'real': ['float64', 'float32'],
              'cplx': ['complex128', 'complex64'],
              'int': ['int64', 'int32', 'int8', 'uint8']}[kind]
    dtype = draw(st.sampled_from(dtypes))
    sk = draw(st.sampled_from(['tensor', 'tensor', 'discr']))
    if sk == 'discr' and kind != 'int':
        return {'kind': 'discr', 'min': [0.0] * len(shape),
                'max': [float(s) * 0.5 for s in shape],
                'shape': list(shape), 'dtype': dtype, 'exponent': 2.0,
                'nodes_on_bdry': draw(st.booleans()) and min(shape) > 1,
                'weighting': None}
    w = None
    if kind != 'int' and draw(st.integers(0, 3)) == 0:
        w = {'type': 'const', 'value': draw(vs.float_values(positive=True))}
    return {'kind': 'tensor', 'shape': list(shape), 'dtype': dtype,
            'weighting': w, 'exponent': 2.0}


@st.composite
def _space(draw):
    kind = draw(st.sampled_from(['real', 'real', 'cplx', 'int']))
    sk = draw(st.sampled_from(['leaf', 'leaf', 'leaf', 'pspace', 'large']))
    if sk == 'large':
        size = draw(st.sampled_from(vs.LARGE_SIZES))
        if draw(st.integers(0, 3)) == 0:
            # one axis alone crosses the size threshold (size != len(x),
            # size != shape[k]): the regime must be decided by the entry count
            k = draw(st.sampled_from([2, 3]))
            shape = draw(st.permutations([size, k]))
            return kind, draw(_leaf_space(kind, size * k, shape=shape))
        return kind, draw(_leaf_space(kind, size))
    if sk == 'leaf':
        return kind, draw(_leaf_space(kind))
    small = st.sampled_from([1, 2, 3, 5, 99, 100, 101])
    leaves = small.flatmap(lambda s: _leaf_space(kind, s))
    return kind, draw(vs.pspace_descs(leaves, max_depth=2, max_len=3,
                                      weighting_kinds=('none', 'const')))


@st.composite
def _strategy(draw):
    kind, sd = draw(_space())
    leaves = build.leaf_descs(sd)
    total = sum(build.space_size(l) for l in leaves)
    large = total >= 49999
    ops = INT_OPS if kind == 'int' else list(OPS)
    if large:
        ops = ['lincomb2', 'lincomb2', 'lincomb1', 'add', 'isub', 'imul',
               'smul', 'set_zero', 'multiply']
    op = draw(st.sampled_from(ops))
    is_power = sd['kind'] == 'pspace' and sd.get('power') is not None
    if op.startswith('bcast') and not is_power:
        op = 'lincomb2'
    needs_x2, aliases = OPS[op]
    alias = draw(st.sampled_from(aliases))
    unsigned = any(l.get('dtype') == 'uint8' for l in leaves)
    orders = ('C', 'F', 'strided', 'rev') if not large else ('C', 'C', 'F',
                                                             'strided')
    # keep integer products inside int8 range: small values
    lo, hi = (-1e3, 1e3)
    if kind == 'int':
        lo, hi = (-9, 9)
    desc = {'space': sd, 'op': op, 'alias': alias,
            'x1': draw(vs.element_descs(sd, orders=orders, lo=lo, hi=hi))}
    if op.startswith('bcast'):
        desc['x2'] = draw(vs.element_descs(sd['base'], orders=orders,
                                           lo=lo, hi=hi))
    elif needs_x2 and alias not in ('x1x2', 'all'):
        desc['x2'] = draw(vs.element_descs(sd, orders=orders, lo=lo, hi=hi))
    if op in ('lincomb2', 'lincomb1', 'multiply', 'divide') and \
            alias in ('none', 'x1x2'):
        # layout of the separate out element
        desc['out'] = draw(vs.element_descs(sd, orders=orders, lo=0, hi=1))
    if sd['kind'] == 'tensor' and draw(st.integers(0, 5)) == 0:
        desc['interleave'] = True
    if op in DIV_OPS and kind == 'real' and draw(st.integers(0, 3)) == 0:
        # IEEE semantics: exact zeros in the divisor give inf / nan entries
        desc['zero_div'] = True
    if op.endswith('_al'):
        # product spaces: the array-like is the list of component elements
        desc['alkind'] = ('parts' if sd['kind'] == 'pspace' else
                          draw(st.sampled_from(['list', 'ndarray',
                                                'ndarray'])))
    if op in ('lincomb2', 'elem_lincomb'):
        desc['a'] = draw(_scalar(kind))
        desc['b'] = draw(_scalar(kind))
    elif op == 'lincomb1':
        desc['a'] = draw(_scalar(kind))
    elif op in ('smul', 'rsmul', 'ismul', 'sadd', 'rsadd', 'isadd', 'ssub',
                'rssub', 'issub'):
        desc['a'] = draw(_scalar(kind))
    elif op in ('sdiv', 'isdiv', 'rsdiv'):
        desc['a'] = draw(_scalar(kind, cls=draw(st.sampled_from(
            ['one', 'mone', 'generic']))))
    elif op in ('pow', 'ipow'):
        desc['n'] = draw(st.integers(-3, 5))
    single = kind != 'int' and all(np.dtype(l['dtype']).itemsize ==
                                   (8 if kind == 'cplx' else 4)
                                   for l in leaves)
    if (single and not large and
            op in ('lincomb2', 'lincomb1', 'elem_lincomb', 'smul', 'rsmul',
                   'ismul') and draw(st.integers(0, 5)) == 0):
        # scalars beyond the range of the single-precision dtype with data
        # small enough that every term is representable
        desc['tiny_data'] = True
        for key in ('a', 'b'):
            if key in desc and draw(st.booleans()):
                mant = float(np.float32(draw(st.floats(1.0, 9.0))))
                sign = -1.0 if draw(st.booleans()) else 1.0
                desc[key] = {'cls': 'huge', 'value': sign * mant * 1e39}
    if kind == 'int' and unsigned:
        # keep everything non-negative for unsigned spaces (no wrap-around
        # semantics are asserted)
        for key in ('a', 'b'):
            if key in desc:
                desc[key]['value'] = abs(desc[key]['value'])
                if desc[key]['cls'] == 'mone':
                    desc[key]['cls'] = 'one'
        if op in ('ssub', 'rssub', 'issub', 'neg'):
            desc['op'] = {'ssub': 'sadd', 'rssub': 'rsadd', 'issub': 'isadd',
                          'neg': 'pos'}[op]
    return desc


def strategy(tier):
    return _strategy()


# --------------------------------------------------------------------------
# helpers

def _fill(elem, value):
    for arr in build.leaf_arrays_of(elem):
        arr[...] = value


def _snapshot(elem):
    return [np.array(a, copy=True) for a in build.leaf_arrays_of(elem)]


def _bits_equal(a, b):
    return a.shape == b.shape and a.dtype == b.dtype and \
        np.ascontiguousarray(a).tobytes() == np.ascontiguousarray(b).tobytes()


def _nonzero(vals):
    """Replace (near-)zero entries so that division is well defined."""
    out = []
    for v in vals:
        v = v.copy()
        small = np.abs(v) < 1e-2
        v[small] = 1.5
        out.append(v)
    return out


def _with_zeros(vals):
    """Deterministically plant exact (signed) zeros among the entries."""
    out = []
    for v in vals:
        v = v.copy()
        flat = v.reshape(-1)
        flat[np.abs(flat) < 1e-2] = 0
        if flat.size:
            flat[0] = 0.0
            flat[-1] = -0.0 if flat.size > 1 else 0.0
        if flat.size > 4:
            flat[flat.size // 2] = 0.0
        out.append(v)
    return out


def _set_values(elem, vals):
    for arr, v in zip(build.leaf_arrays_of(elem), vals):
        arr[...] = v


# --------------------------------------------------------------------------
# the case

def run_case(desc):
    sd = desc['space']
    op = desc['op']
    alias = desc['alias']
    space = build.build_space(sd)
    leaves = build.leaf_descs(sd)
    kind = _kind(leaves[0]['dtype'])
    dts = [np.dtype(l['dtype']) for l in leaves]
    total = max(build.space_size(l) for l in leaves)

    lanes = {'n': 0, 'buf': None}

    def make(ed, spc=space, sdesc=sd):
        if desc.get('interleave') and sdesc is sd and sd['kind'] == 'tensor':
            # distinct, non-overlapping elements that are interleaved views
            # of ONE buffer (columns of a matrix, x[0::k] / x[1::k]): their
            # memory ranges overlap although no entry is shared
            nl = 6
            vals = build.array_values(ed, dtype=space.dtype,
                                      shape=space.shape)
            if lanes['buf'] is None:
                lanes['buf'] = np.zeros(
                    tuple(space.shape[:-1]) + (nl * space.shape[-1],),
                    dtype=space.dtype)
            k = lanes['n']
            lanes['n'] += 1
            if k >= nl:
                raise HarnessError('more than {} interleaved lanes'.format(nl))
            view = lanes['buf'][..., k::nl]
            view[...] = vals
            elem = space.element(view)
            if not np.shares_memory(elem.data, lanes['buf']):
                raise HarnessError('interleaved view was copied')
            return elem
        return build.build_element(spc, sdesc, ed)

    x1 = make(desc['x1'])
    if op.startswith('bcast'):
        x2 = build.build_element(space[0], sd['base'], desc['x2'])
    elif alias in ('x1x2', 'all') or 'x2' not in desc:
        x2 = x1
    else:
        x2 = make(desc['x2'])

    if desc.get('tiny_data'):
        for x in ([x1] if x2 is x1 else [x1, x2]):
            _set_values(x, [v * v.dtype.type(1e-9) for v in _snapshot(x)])

    # operand preconditions (division): replace zeros deterministically, or
    # (zero_div) plant exact zeros on purpose
    fix = _with_zeros if desc.get('zero_div') else _nonzero
    if op in ('div', 'idiv', 'divide', 'div_al', 'idiv_al'):
        _set_values(x2, fix(_snapshot(x2)))
    if op in ('rsdiv', 'rdiv_al'):
        _set_values(x1, fix(_snapshot(x1)))
    if op in ('pow', 'ipow') and desc['n'] < 0:
        _set_values(x1, _nonzero(_snapshot(x1)))
    if op in ('pow', 'ipow') and kind != 'int':
        # keep |x|**5 within float32 range
        vals = _snapshot(x1)
        _set_values(x1, [np.where(np.abs(v) > 50, v / 64, v) for v in vals])

    if any(dt.kind == 'u' for dt in dts) and x2 is not x1:
        # unsigned spaces: keep differences representable (wrap-around
        # semantics are not asserted)
        if op in ('sub', 'isub', 'sub_al', 'isub_al'):
            _set_values(x2, [np.minimum(p, q) for p, q in
                             zip(_snapshot(x2), _snapshot(x1))])
        elif op == 'rsub_al':
            _set_values(x1, [np.minimum(p, q) for p, q in
                             zip(_snapshot(x1), _snapshot(x2))])

    v1 = _snapshot(x1)
    v2 = _snapshot(x2)
    a = desc.get('a', {}).get('value')
    b = desc.get('b', {}).get('value')
    n = desc.get('n')

    # --- reference -------------------------------------------------------
    if op.startswith('bcast'):
        nleaf = len(v2)
        v2ref = [v2[i % nleaf] for i in range(len(v1))]
    else:
        v2ref = v2
    base_op = op[:-3] if op.endswith('_al') else op
    if base_op in ('radd', 'rmul'):
        base_op = base_op[1:]
    ref, mag, k = arith.reference(base_op, v1, v2ref, a, b, n, dts)
    if op.endswith('_al'):
        # the array-like operand: same values as x2, but not a space element
        if desc['alkind'] == 'parts':
            other = [p for p in x2]
        else:
            other = np.array(v2[0], copy=True)
            if desc['alkind'] == 'list':
                other = other.tolist()

    # --- run -------------------------------------------------------------
    def call(out):
        if op == 'lincomb2':
            return space.lincomb(a, x1, b, x2, out=out)
        if op == 'lincomb1':
            return space.lincomb(a, x1, out=out)
        if op == 'multiply':
            return space.multiply(x1, x2, out=out)
        if op == 'divide':
            return space.divide(x1, x2, out=out)
        raise HarnessError(op)

    result = None
    expect_is = None       # object the result must be identical to
    modified = set()       # operands allowed to change
    stale_checked = False
    if op in ('lincomb2', 'lincomb1', 'multiply', 'divide'):
        if alias == 'fresh':
            result = call(None)
        elif alias in ('none', 'x1x2'):
            out = make(desc['out'])
            if kind != 'int':
                _fill(out, np.nan)
            else:
                _fill(out, 77)
            result = call(out)
            expect_is = out
            first = _snapshot(result)
            _fill(out, 12345.0 if kind != 'int' else 5)
            result2 = call(out)
            if not all(_bits_equal(p, q)
                       for p, q in zip(first, _snapshot(result2))):
                raise Violation(
                    'C01|stale-out|{}|{}'.format(op, _regime(total)),
                    'result depends on previous contents of out')
            stale_checked = True
            # restore first result semantics (identical anyway)
        else:
            out = {'outx1': x1, 'outx2': x2, 'all': x1}[alias]
            if alias == 'outx2' and x2 is x1:
                raise HarnessError('inconsistent alias')
            result = call(out)
            expect_is = out
            modified.add(id(out))
    elif op == 'elem_lincomb':
        out = {'none': None, 'x1x2': None, 'outx1': x1, 'outx2': x2,
               'all': x1}[alias]
        if out is None:
            out = space.element()
            _fill(out, np.nan if kind != 'int' else 77)
        result = out.lincomb(a, x1, b, x2)
        expect_is = out
        modified.add(id(out))
    elif op == 'add':
        result = x1 + x2
    elif op == 'sub':
        result = x1 - x2
    elif op == 'mul':
        result = x1 * x2
    elif op == 'div':
        result = x1 / x2
    elif op in ('iadd', 'bcast_iadd'):
        tmp = x1
        tmp += x2
        result, expect_is = tmp, x1
        modified.add(id(x1))
    elif op == 'isub':
        tmp = x1
        tmp -= x2
        result, expect_is = tmp, x1
        modified.add(id(x1))
    elif op == 'imul':
        tmp = x1
        tmp *= x2
        result, expect_is = tmp, x1
        modified.add(id(x1))
    elif op == 'idiv':
        tmp = x1
        tmp /= x2
        result, expect_is = tmp, x1
        modified.add(id(x1))
    elif op.endswith('_al'):
        import operator as _o
        f = {'add_al': _o.add, 'sub_al': _o.sub, 'mul_al': _o.mul,
             'div_al': _o.truediv, 'radd_al': _o.add, 'rsub_al': _o.sub,
             'rmul_al': _o.mul, 'rdiv_al': _o.truediv, 'iadd_al': _o.iadd,
             'isub_al': _o.isub, 'imul_al': _o.imul,
             'idiv_al': _o.itruediv}[op]
        args = (other, x1) if op.startswith('r') else (x1, other)
        try:
            result = f(*args)
        except TypeError as e:
            import traceback
            tb = traceback.extract_tb(e.__traceback__)
            if tb[-1].filename.endswith('c01_arith.py'):
                # Python found no implementation for the operator: the
                # space refused an array-like operand it documents to accept
                raise Violation('C01|arraylike-rejected|{}|{}'.format(
                    op, desc['alkind']), str(e))
            raise
        if op.startswith('i'):
            expect_is = x1
            modified.add(id(x1))
    elif op == 'bcast_add':
        result = x1 + x2
    elif op == 'bcast_mul':
        result = x1 * x2
    elif op == 'smul':
        result = x1 * a
    elif op == 'rsmul':
        result = a * x1
    elif op == 'ismul':
        tmp = x1
        tmp *= a
        result, expect_is = tmp, x1
        modified.add(id(x1))
    elif op == 'sdiv':
        result = x1 / a
    elif op == 'isdiv':
        tmp = x1
        tmp /= a
        result, expect_is = tmp, x1
        modified.add(id(x1))
    elif op == 'rsdiv':
        result = a / x1
    elif op == 'sadd':
        result = x1 + a
    elif op == 'rsadd':
        result = a + x1
    elif op == 'isadd':
        tmp = x1
        tmp += a
        result, expect_is = tmp, x1
        modified.add(id(x1))
    elif op == 'ssub':
        result = x1 - a
    elif op == 'rssub':
        result = a - x1
    elif op == 'issub':
        tmp = x1
        tmp -= a
        result, expect_is = tmp, x1
        modified.add(id(x1))
    elif op == 'pow':
        result = x1 ** n
    elif op == 'ipow':
        tmp = x1
        tmp **= n
        result, expect_is = tmp, x1
        modified.add(id(x1))
    elif op == 'neg':
        result = -x1
    elif op == 'pos':
        result = +x1
    elif op == 'copy':
        result = x1.copy()
    elif op == 'assign':
        x1.assign(x2)
        result, expect_is = x1, x1
        modified.add(id(x1))
    elif op == 'set_zero':
        if kind != 'int':
            _fill(x1, np.nan)
        x1.set_zero()
        result, expect_is = x1, x1
        modified.add(id(x1))
    elif op == 'zero':
        result = space.zero()
    elif op == 'one':
        result = space.one()
    else:
        raise HarnessError('unknown op ' + op)

    sig_tail = '{}|{}|{}'.format(op, kind, _regime(total))

    # (1) identity / membership
    if op == 'bcast_iadd' and result is not expect_is:
        # power-space broadcasting re-wraps the (in-place updated) parts
        if len(result) == len(x1) and all(
                r is p for r, p in zip(result, x1)):
            expect_is = result
    if expect_is is not None and result is not expect_is:
        raise Violation('C01|identity|' + sig_tail,
                        'result is not the output object')
    if expect_is is None:
        if result is x1 or result is x2:
            raise Violation('C01|identity|' + sig_tail,
                            'out-of-place result is an operand')
        if any(np.shares_memory(r, o) for r in build.leaf_arrays_of(result)
               for o in build.leaf_arrays_of(x1) + build.leaf_arrays_of(x2)):
            raise Violation('C01|identity|' + sig_tail,
                            'out-of-place result shares memory with operand')
    if result not in space:
        raise Violation('C01|space|' + sig_tail,
                        'result not an element of the space: {!r}'.format(
                            getattr(result, 'space', type(result))))

    # (2) values
    got = build.leaf_arrays_of(result)
    for i, (g, r, m, dt) in enumerate(zip(got, ref, mag, dts)):
        if g.shape != r.shape or g.dtype != dt:
            raise Violation('C01|shape-dtype|' + sig_tail,
                            'leaf {} has {} {} expected {} {}'.format(
                                i, g.shape, g.dtype, r.shape, dt))
        if dt.kind in 'iu':
            if not np.array_equal(g, np.rint(r).astype(np.int64).astype(dt)):
                raise Violation('C01|value|' + sig_tail + '|' + alias,
                                'integer result differs (leaf {})'.format(i))
        else:
            eps = np.finfo(dt).eps
            ld = np.clongdouble if dt.kind == 'c' else np.longdouble
            nonfin = ~np.isfinite(r)
            if np.any(nonfin):
                # IEEE special values (division by exact zero): same NaN
                # pattern, same signed infinities
                gl = g.astype(ld)
                same = (np.isnan(gl) == np.isnan(r))
                inf = np.isinf(r)
                same &= ~inf | (gl == r)
                same &= nonfin | np.isfinite(gl)
                if not np.all(same):
                    idx = tuple(int(j) for j in np.argwhere(~same)[0])
                    raise Violation(
                        'C01|special-value|' + sig_tail + '|' + alias,
                        'leaf {} entry {}: got {!r} ref {!r}'.format(
                            i, idx, g[idx], r[idx]))
            with np.errstate(all='ignore'):
                err = np.abs(g.astype(ld) - r)
                tol = k * eps * m + np.finfo(dt).tiny * 4
            bad = ~(err <= tol) & ~nonfin
            if np.any(bad):
                idx = tuple(int(j) for j in np.argwhere(bad)[0])
                raise Violation(
                    'C01|value|' + sig_tail + '|' + alias,
                    'leaf {} entry {}: got {!r} ref {!r} err {:.3g} tol '
                    '{:.3g} (a={!r}, b={!r}, n={!r})'.format(
                        i, idx, g[idx], complex(r[idx]) if dt.kind == 'c'
                        else float(r[idx]), float(err[idx]),
                        float(tol[idx]), a, b, n))

    # (3) operands untouched
    if op.endswith('_al') and desc['alkind'] == 'ndarray':
        if not _bits_equal(other, v2[0]):
            raise Violation('C01|operand-modified|' + sig_tail + '|arraylike',
                            'the ndarray operand was modified')
    for name, x, v in (('x1', x1, v1), ('x2', x2, v2)):
        if id(x) in modified:
            continue
        now = build.leaf_arrays_of(x)
        if not all(_bits_equal(p, q) for p, q in zip(now, v)):
            raise Violation('C01|operand-modified|' + sig_tail + '|' + alias,
                            '{} was modified'.format(name))

    # strata and triviality
    layouts = set()
    for key in ('x1', 'x2', 'out'):
        if key in desc:
            for ad in build.flatten_values(_layout_list(desc[key])):
                layouts.add(ad)
    noncontig = bool(layouts - {'C'})
    allzero = all(not np.any(v) for v in v1) and all(not np.any(v)
                                                     for v in v2)
    nontriv = (total >= 2 and not allzero and
               (alias not in ('none', 'fresh') or noncontig or total >= 100 or
                sd['kind'] != 'tensor'))
    strata = ['op:' + op, 'alias:' + alias, 'regime:' + _regime(total),
              'kind:' + kind, 'space:' + sd['kind'],
              'leaf:{}|{}|{}'.format(_regime(total), kind, alias)]
    if 'a' in desc:
        strata.append('a:' + desc['a']['cls'])
    if 'b' in desc:
        strata.append('b:' + desc['b']['cls'])
    if total >= 50000 and any(
            len(l['shape']) >= 2 and max(l['shape']) < build.space_size(l)
            and max(l['shape']) >= 49999 for l in build.leaf_descs(sd)):
        strata.append('regime:large-by-one-axis')
    if stale_checked:
        strata.append('stale-out-checked')
    if desc.get('interleave') and sd['kind'] == 'tensor':
        strata.append('interleaved-views')
    if desc.get('zero_div'):
        strata.append('zero-divisor')
    if desc.get('tiny_data'):
        strata.append('huge-scalar-single-precision')
    if noncontig:
        strata.append('noncontiguous')
    return Outcome('ok', strata=strata, nontrivial=nontriv)


def _layout_list(ed):
    if isinstance(ed, list):
        return [_layout_list(e) for e in ed]
    return ed.get('order', 'C')


def _regime(total):
    return 'small' if total < 100 else ('medium' if total < 50000
                                        else 'large')


REQUIRED_STRATA = ['zero-divisor', 'huge-scalar-single-precision',
                   'regime:small', 'regime:medium', 'regime:large',
                   'regime:large-by-one-axis', 'interleaved-views',
                   'kind:int', 'kind:cplx', 'alias:all', 'alias:outx2',
                   'stale-out-checked', 'space:pspace', 'space:discr']
