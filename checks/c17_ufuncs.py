"""C17 - NumPy ufuncs on space elements behave like NumPy on the arrays.

Generator: (ufunc from ``odl.util.ufuncs.RAW_UFUNCS`` (+ a few ufuncs outside
the table), filtered per dtype by NumPy's own type resolution) x method
(``__call__``, ``reduce``, ``accumulate``, ``outer``, ``at``, ``reduceat``,
legacy ``x.ufuncs.<name>``, legacy ``sum/prod/min/max``, wrapping/asarray)
x element kind (tensor: unweighted / const / array weighted, discretized,
power space; non-power product spaces for the legacy namespace) x operand
form (element, element of a sibling space, ndarray, broadcast ndarray,
scalar, list; element first or second) x out (none, element, underlying
tensor, ndarray, the operand itself; tuples with ``None`` for two outputs)
x kwargs (axis int / negative / tuple / None / (), dtype, keepdims) x dtype
x memory layout.

Oracle: the same NumPy call on independent arrays that mirror values, memory
layout and aliasing of the ODL operands (built from the descriptor, never
from ODL): bit-identical values (NaNs by position), kind of the result
(tensor / discretized with the partition implied by the method / product
space), shape, dtype, identity and contents of ``out``, all operands
afterwards bit-identical to NumPy's operands (covers "not mutated" and the
in-place semantics of ``at``), documented weighting propagation, and the
exception differential.
"""
import warnings

import numpy as np
from hypothesis import strategies as st

from vlib import build, strategies as vs
from vlib.core import Violation, Outcome, HarnessError

odl = build.odl
from odl.util.ufuncs import RAW_UFUNCS  # noqa: E402
from odl.space.npy_tensors import NumpyTensor, NumpyTensorSpace  # noqa: E402
from odl.discr.discr_space import (  # noqa: E402
    DiscretizedSpace, DiscretizedSpaceElement)
from odl.space.pspace import ProductSpace, ProductSpaceElement  # noqa: E402

PROPERTY = 'C17'
TECHNIQUE = ('Hypothesis property-based differential testing against NumPy: '
             'generated (ufunc, method, element kind, operand forms, out, '
             'kwargs, dtype, layout) calls compared bit-for-bit with the same '
             'NumPy call on mirrored raw arrays; exhaustive ufunc x dtype x '
             'element-kind sweep; descriptor replay')
LEVEL_TEXT = ('Generated-input search over ufunc table x method x element '
              'kind x operand form x out kind x kwargs x dtype x layout; every '
              'case is decided by a differential against NumPy itself on '
              'arrays built from the descriptor (values bit-identical, result '
              'kind / partition / shape / dtype, out identity and contents, '
              'operands bit-identical to NumPy\'s afterwards, exception '
              'differential). Every applicable (ufunc, dtype, element kind) '
              'triple is additionally enumerated for the plain call and the '
              'legacy namespace. Exploration, not proof.')
LEVEL_NOTE = ('Trusted: NumPy 1.26 (the reference is NumPy on raw arrays of the '
              'same layout and aliasing), Hypothesis, the descriptor builder. '
              'Operands broadcast to the shape of the ODL element; `where=`, '
              '`casting=`, `initial=`, zero-size arrays and negative-stride '
              'out arrays (a NumPy defect) are outside the generator. Value '
              'mismatches are re-run on a perturbed heap because NumPy\'s '
              'SIMD/scalar kernel choice is address dependent (see '
              'tolerances). 19 of 21 hand-made mutations of the anchored '
              'code are detected by the quick tier, the other two are not '
              'observable through the public API.')
DESIGN_REF = 'DESIGN.md section 5, C17'
BUDGET = {'quick': 16000, 'thorough': 150000}
TOLERANCES = {
    'values': 'bit-identical to the NumPy result (NaN entries compared by '
              'position only)',
    'numpy_kernel_flip': 'NumPy picks its SIMD or its scalar kernel by an '
                         'address-range test that misfires when a negative-'
                         'stride operand is heap-adjacent to the output '
                         '(reproduced with raw arrays: np.arctan2(a[::-1], '
                         '.5, out=o), 45 of 129 entries differ in the last '
                         'bit); a value mismatch therefore re-runs the whole '
                         'case up to 3 times on a perturbed heap and must '
                         'agree bit-for-bit in one of them; on the last '
                         'attempt only, for the transcendental ufuncs '
                         '(INEXACT) and complex arithmetic only, |got-ref| '
                         '<= 16 eps |ref| is let through and counted '
                         '(notes: ulp_fallback_tolerated)',
    'operands': 'bit-identical to the operands of the NumPy call afterwards',
    'pspace_legacy_sum_prod': 'product-space x.ufuncs.sum()/prod() reduce per '
                              'part first (different association): |got-ref| '
                              '<= 4*n*eps*sum|x| (sum), 4*n*eps*|ref| (prod); '
                              'integers exact, min and max the same '
                              'number; a non-finite reference must be '
                              'matched exactly (NaN / sign of inf) for real '
                              'dtypes, for complex dtypes any non-finite '
                              'result is accepted (component pattern '
                              'depends on the association; counted as '
                              'complex-nonfinite-association)',
}
ASSUMPTIONS = [
    'operands other than the element broadcast to the shape of the element '
    '(the result lives in a space of the element\'s shape)',
    'no `where=`, `casting=`, `initial=`, `order=` keywords; no zero-size '
    'arrays; no overlapping views other than out being an operand itself',
    'reductions with `dtype=` get an out of the result dtype: with an out of '
    'another dtype NumPy accumulates in the out array itself (initial copy '
    'cast straight to the out dtype, e.g. np.greater.reduce(c, axis=(), '
    'dtype=bool, out=int_arr) gives 0 for c = 0.01), ODL computes in a '
    'temporary of the requested dtype and casts afterwards - no caller '
    'relies on either',
    'out arrays are C-, F-contiguous or positively strided views: NumPy '
    '1.26.4 itself writes wrong results into negative-stride bool outputs '
    '(np.signbit(np.zeros(24), out=np.ones(24, bool)[::-1]))',
    'if NumPy rejects the call on the raw arrays nothing is asserted about '
    'ODL (rejecting is a pass, accepting is counted in the notes)',
    'documented rejections are passes: discretized reduce(keepdims=True), '
    'discretized reduceat, discretized outer with a non-element operand',
    'weighting/exponent of the result space asserted only for tensor spaces '
    'and single-output ufuncs (kept for same shape + floating result, '
    'dropped when the shape changes); discretized: same space if dtype and '
    'shape are unchanged',
]
RULE = ('Hypothesis draws (method, element kind, space, ufunc applicable to '
        'the dtype, operand forms and order, out kinds/layouts/dtypes, '
        'kwargs, data); plus enumeration of all applicable (ufunc, dtype, '
        'element kind) triples. Non-trivial = oracle evaluated and not a '
        'plain unary same-dtype __call__ without out/kwargs on an unweighted '
        'C-contiguous real tensor element; distinct by sha1 of the '
        'descriptor')

FROZEN_TABLE = [
    'absolute', 'add', 'arccos', 'arccosh', 'arcsin', 'arcsinh', 'arctan',
    'arctan2', 'arctanh', 'bitwise_and', 'bitwise_or', 'bitwise_xor', 'ceil',
    'conj', 'copysign', 'cos', 'cosh', 'deg2rad', 'divide', 'equal', 'exp',
    'exp2', 'expm1', 'floor', 'floor_divide', 'fmax', 'fmin', 'fmod',
    'greater', 'greater_equal', 'hypot', 'invert', 'isfinite', 'isinf',
    'isnan', 'left_shift', 'less', 'less_equal', 'log', 'log10', 'log1p',
    'log2', 'logaddexp', 'logaddexp2', 'logical_and', 'logical_not',
    'logical_or', 'logical_xor', 'maximum', 'minimum', 'mod', 'modf',
    'multiply', 'negative', 'not_equal', 'power', 'rad2deg', 'reciprocal',
    'remainder', 'right_shift', 'rint', 'sign', 'signbit', 'sin', 'sinh',
    'sqrt', 'square', 'subtract', 'tan', 'tanh', 'true_divide', 'trunc']
TABLE = sorted(set(FROZEN_TABLE) | set(RAW_UFUNCS))
# ufuncs outside the legacy table, exercised through np.<ufunc> only
EXTRA = ['divmod', 'frexp', 'ldexp', 'positive', 'float_power', 'heaviside',
         'nextafter', 'cbrt', 'fabs', 'gcd', 'lcm', 'spacing', 'degrees']
DTYPES = ['float64', 'float32', 'complex128', 'complex64', 'int64', 'int32',
          'int8', 'uint8', 'bool']
DISCR_DTYPES = ['float64', 'float32', 'complex128', 'complex64', 'int64']
KW_DTYPES = ['float64', 'float32', 'complex128', 'complex64', 'int64',
             'int32', 'int16', 'bool', 'float16']
ORDERS = ('C', 'F', 'strided', 'rev', 'unaligned')
WIDER = {'float16': 'float32', 'float32': 'float64', 'float64': 'complex128',
         'complex64': 'complex128', 'complex128': 'complex64',
         'int16': 'int64', 'int32': 'int64', 'int64': 'float64',
         'bool': 'int64'}


def _probe(name, dt, **kw):
    uf = getattr(np, name)
    a = np.ones(2, dtype=dt)
    try:
        with np.errstate(all='ignore'), warnings.catch_warnings():
            warnings.simplefilter('ignore')
            uf(*([a] * uf.nin), **kw)
        return True
    except TypeError:
        return False


# per dtype: names NumPy has a loop for (this is np.<ufunc>.types filtered by
# NumPy's own resolver); per (name, dtype): `dtype=` values NumPy accepts
APPLICABLE = {dt: [n for n in TABLE if _probe(n, dt)] for dt in DTYPES}
APPLICABLE_EXTRA = {dt: [n for n in EXTRA if hasattr(np, n) and
                         _probe(n, dt)] for dt in DTYPES}
KW_OK = {}
for _dt in DTYPES:
    for _n in APPLICABLE[_dt] + APPLICABLE_EXTRA[_dt]:
        KW_OK[_n, _dt] = [k for k in KW_DTYPES if _probe(_n, _dt, dtype=k)]


def _binary(names):
    return [n for n in names
            if getattr(np, n).nin == 2 and getattr(np, n).nout == 1]


def _nout1(names):
    return [n for n in names if getattr(np, n).nout == 1]


# --------------------------------------------------------------------------
# strategies

def _one_in(draw, n):
    """True with probability ~1/n (Hypothesis over-weights the end points of
    integer ranges, so the hit is an interior value)."""
    return draw(st.sampled_from(range(n))) == (n // 2 if n > 2 else 0)


def _shapes():
    small = vs.small_shapes(min_ndim=1, max_ndim=3, min_side=1, max_side=5,
                            max_size=40)
    big = st.sampled_from([[129], [300], [17, 9], [8, 40], [3, 5, 11],
                           [1025], [2, 260]])
    return st.one_of(small, small, small, small, small, big)


@st.composite
def _tensor_sd(draw, dtype=None, shape=None):
    dtype = dtype or draw(st.sampled_from(DTYPES))
    shape = list(shape if shape is not None else draw(_shapes()))
    sd = {'kind': 'tensor', 'shape': shape, 'dtype': dtype,
          'weighting': None, 'exponent': 2.0}
    if np.dtype(dtype).kind in 'fc':
        # array weightings are float64 arrays: only admissible (castable
        # to the space dtype) for the double-precision spaces
        sd['weighting'] = draw(vs.weightings(
            shape, ('none', 'none', 'const', 'array')
            if np.dtype(dtype).itemsize in (8, 16) and
            np.dtype(dtype).kind != 'c' or dtype == 'complex128'
            else ('none', 'const')))
        sd['exponent'] = draw(st.sampled_from([2.0, 2.0, 2.0, 1.0, 1.5,
                                               float('inf')]))
    return sd


@st.composite
def _discr_sd(draw, dtype=None, small=False):
    dtype = dtype or draw(st.sampled_from(DISCR_DTYPES))
    shapes = (vs.small_shapes(1, 2, 1, 3, 6) if small else
              st.one_of(vs.small_shapes(1, 3, 1, 5, 40),
                        vs.small_shapes(1, 3, 1, 5, 40),
                        st.sampled_from([[129], [17, 9], [2, 3, 4]])))
    flt = np.dtype(dtype).kind in 'fc'
    sd = draw(vs.discr_space_descs(
        shapes=shapes, dtypes=(dtype,),
        exponents=(2.0, 2.0, 1.0, 1.5) if flt else (2.0,),
        weighting_kinds=('none', 'none', 'const') if flt else ('none',)))
    return sd


@st.composite
def _pspace_sd(draw, dtype=None, power_only=True):
    dtype = dtype or draw(st.sampled_from(DTYPES))
    base_kind = draw(st.sampled_from(['tensor', 'tensor', 'discr']))
    if base_kind == 'discr' and dtype not in DISCR_DTYPES:
        base_kind = 'tensor'
    sshape = vs.small_shapes(1, 2, 1, 4, 8)

    def base():
        if base_kind == 'tensor':
            return draw(_tensor_sd(dtype, draw(sshape)))
        return draw(_discr_sd(dtype, small=True))

    style = 'power' if power_only else draw(st.sampled_from(
        ['power', 'parts', 'parts']))
    n = draw(st.integers(1, 3))
    if style == 'parts':
        sd = {'kind': 'pspace', 'parts': [base() for _ in range(n)],
              'power': None}
    else:
        if _one_in(draw, 4):
            # 'square' power space: as many components as entries along the
            # first axis of the base space, so that an operand of the base
            # shape also matches the component axis in length
            n = draw(st.integers(2, 3))
            shp = [n] + ([draw(st.integers(1, 3))] if _one_in(draw, 3)
                         else [])
            b = draw(_tensor_sd(dtype, shp))
        else:
            b = base()
        if _one_in(draw, 6):
            b = {'kind': 'pspace', 'base': b, 'power': draw(
                st.integers(1, 2)), 'weighting': None, 'exponent': 2.0}
        sd = {'kind': 'pspace', 'base': b, 'power': n}
    wk = draw(st.sampled_from(['none', 'none', 'const', 'array']))
    if np.dtype(dtype).kind not in 'fc' or wk == 'none':
        sd['weighting'] = None
    elif wk == 'const':
        sd['weighting'] = {'type': 'const',
                           'value': draw(vs.float_values(positive=True))}
    else:
        sd['weighting'] = {'type': 'array', 'data': draw(st.lists(
            vs.float_values(positive=True), min_size=n, max_size=n))}
    sd['exponent'] = 2.0
    return sd


def _sd_dtype(sd):
    return build.leaf_descs(sd)[0]['dtype']


def _sd_shape(sd):
    """Shape of the array underlying an element (power spaces stack)."""
    if sd['kind'] == 'pspace':
        if sd.get('power') is None:
            return None
        return (int(sd['power']),) + _sd_shape(sd['base'])
    return tuple(build.space_shape(sd))


def _with_dtype(sd, dtype, plain=False):
    """The same space descriptor with another dtype (sound weighting;
    ``plain`` drops user-given weightings altogether)."""
    if sd['kind'] == 'pspace':
        new = dict(sd)
        if sd.get('power') is not None:
            new['base'] = _with_dtype(sd['base'], dtype, plain)
        else:
            new['parts'] = [_with_dtype(p, dtype, plain) for p in sd['parts']]
        if np.dtype(dtype).kind not in 'fc':
            new['weighting'] = None
        return new
    new = dict(sd, dtype=str(np.dtype(dtype)))
    if np.dtype(dtype).kind not in 'fc':
        new['weighting'] = None
        new['exponent'] = 2.0
    elif (sd.get('weighting') or {}).get('type') == 'array' and (
            plain or not np.can_cast('float64', dtype)):
        # a float64 weighting array must be castable to the space dtype
        new['weighting'] = None
    elif plain:
        new['weighting'] = None
    return new


SPECIALS = ['nan', 'nan', 'inf', '-inf', '-0.0']
POSITIONS = ['first', 'middle', 'last']


def _position(pos, n):
    return {'first': 0, 'middle': n // 2, 'last': n - 1}[pos]


def _plant_into(ed, leafpos, entrypos, value):
    """Record a special value in the leaf array descriptor at the given
    (component, entry) position class; floating dtypes only."""
    leaves = build.flatten_values(ed)
    leaf = leaves[_position(leafpos, len(leaves))]
    if np.dtype(leaf['dtype']).kind not in 'fc':
        return
    leaf.setdefault('plant', []).append([entrypos, value])


@st.composite
def _elem(draw, sd, lo=-30.0, hi=30.0, orders=ORDERS, p_special=4):
    """Element descriptor; one in ``p_special`` carries NaN / inf / -inf /
    -0.0 at first / middle / last component and entry."""
    ed = draw(vs.element_descs(sd, orders=orders, lo=lo, hi=hi))
    if np.dtype(_sd_dtype(sd)).kind in 'fc' and _one_in(draw, p_special):
        for _ in range(draw(st.sampled_from([1, 1, 2, 3]))):
            _plant_into(ed, draw(st.sampled_from(POSITIONS)),
                        draw(st.sampled_from(POSITIONS)),
                        draw(st.sampled_from(SPECIALS)))
    return ed


@st.composite
def _scalar(draw, dtype):
    k = np.dtype(dtype).kind
    if k == 'b':
        return draw(st.sampled_from([True, False, 1, 0]))
    if k in 'iu':
        return draw(st.sampled_from([0, 1, 2, 3, 7, -1 if k == 'i' else 5]))
    c = draw(st.sampled_from(['int', 'float', 'float', 'cplx'
                              if k == 'c' else 'float']))
    if c == 'int':
        return draw(st.sampled_from([0, 1, 2, -3]))
    v = draw(st.sampled_from([0.0, 1.0, -1.0, 0.5, 2.5, -0.25, 1e-3, 12.5]))
    if c == 'cplx':
        return complex(v, draw(st.sampled_from([0.0, 1.0, -2.5])))
    return v


@st.composite
def _operand(draw, sd, forms):
    """Second operand of a binary ufunc, relative to element space ``sd``."""
    form = draw(st.sampled_from(forms))
    dtype = _sd_dtype(sd)
    shape = _sd_shape(sd)
    if form == 'elem':
        return {'form': 'elem', 'data': draw(_elem(sd))}
    if form == 'elem2':
        # element of a sibling space: same shape / partition, other dtype
        pool = DISCR_DTYPES if any(
            l['kind'] != 'tensor' for l in build.leaf_descs(sd)) else DTYPES
        dt2 = draw(st.sampled_from(pool))
        sd2 = _with_dtype(sd, dt2)
        return {'form': 'elem2', 'space': sd2, 'data': draw(_elem(sd2))}
    if form == 'scalar':
        return {'form': 'scalar', 'value': draw(_scalar(dtype))}
    if form in ('ndarray', 'list'):
        dt2 = dtype if not _one_in(draw, 4) else draw(
            st.sampled_from(DTYPES))
        return {'form': form, 'array': draw(vs.array_descs(
            shape, dt2, lo=-30.0, hi=30.0, orders=ORDERS))}
    if form == 'bcast':
        # trailing sub-shape, or unit axes
        nd = len(shape)
        cut = draw(st.integers(0, nd - 1)) if nd > 1 else 0
        sub = list(shape[cut:])
        for i in range(len(sub)):
            if _one_in(draw, 4):
                sub[i] = 1
        return {'form': 'ndarray', 'array': draw(vs.array_descs(
            sub, dtype, lo=-30.0, hi=30.0, orders=ORDERS))}
    raise HarnessError(form)


@st.composite
def _out_desc(draw, ekind, kinds):
    kind = draw(st.sampled_from(kinds))
    if kind == 'none':
        return None
    if kind == 'tensor' and ekind != 'discr':
        kind = 'elem'
    # no negative-stride out arrays: NumPy 1.26 itself mis-writes them
    # (np.signbit(np.zeros(24), out=np.ones(24, bool)[::-1]) leaves 14
    # entries True; same for isnan) - the reference must not be wrong
    od = {'kind': kind, 'order': draw(st.sampled_from(
        ['C', 'C', 'F', 'strided', 'unaligned'])), 'dtype': 'match'}
    if kind not in ('x', 'other') and _one_in(draw, 8):
        od['dtype'] = draw(st.sampled_from(
            ['float64', 'float32', 'complex128', 'int64']))
        od['order'] = 'C'
    return od


def _axis(draw, nd, method):
    """Axis argument; 'absent' means the keyword is not passed."""
    opts = ['absent', 'int', 'neg']
    if method == 'reduce':
        opts = ['absent', 'absent', 'int', 'int', 'neg', 'neg', 'neg',
                'tuple', 'tuple', 'tuple', 'tuple', 'none', 'none', 'empty']
    cls = draw(st.sampled_from(opts))
    if _one_in(draw, 25):
        cls = 'bad'
    if cls == 'tuple' and nd >= 2 and draw(st.booleans()):
        # all but one axis (the sub-partition case with most ways to go wrong)
        keep = draw(st.integers(0, nd - 1))
        axes = [a for a in draw(st.permutations(list(range(nd))))
                if a != keep]
        return cls, [a - nd if draw(st.booleans()) else a for a in axes]
    if cls == 'int':
        return cls, draw(st.integers(0, nd - 1))
    if cls == 'neg':
        return cls, draw(st.integers(-nd, -1))
    if cls == 'tuple':
        axes = draw(st.lists(st.integers(0, nd - 1), min_size=1, max_size=nd,
                             unique=True))
        axes = [a - nd if draw(st.booleans()) else a for a in axes]
        return cls, axes
    if cls == 'none':
        return cls, None
    if cls == 'empty':
        return cls, []
    if cls == 'bad':
        return cls, draw(st.sampled_from([nd, -nd - 1]))
    return cls, 'absent'


def _kw_dtype(draw, name, dtype, p=4):
    if not _one_in(draw, p + 1):
        return None
    ok = KW_OK.get((name, dtype), [])
    if ok and not _one_in(draw, 8):
        return draw(st.sampled_from(ok))
    return draw(st.sampled_from(KW_DTYPES))


METHODS = (['__call__'] * 7 + ['reduce'] * 5 + ['accumulate'] * 2 +
           ['outer'] * 2 + ['at'] * 2 + ['reduceat'] + ['legacy'] * 3 +
           ['legacy_red'] * 2 + ['wrap'] * 2)
EKINDS = ['tensor', 'tensor', 'tensor', 'discr', 'discr', 'discr', 'pspace',
          'pspace']


@st.composite
def _case(draw):
    method = draw(st.sampled_from(METHODS))
    ekind = draw(st.sampled_from(EKINDS))
    if method == 'wrap':
        return draw(_wrap_case(ekind))
    if ekind == 'pspace' and method in ('at', 'reduce', 'reduceat', 'outer') \
            and not _one_in(draw, 4):
        # power-space elements fail these methods wholesale (known finding
        # C17-K1); keep a trickle, spend the budget where the oracle decides
        ekind = draw(st.sampled_from(['tensor', 'discr']))
    if ekind == 'tensor':
        sd = draw(_tensor_sd())
    elif ekind == 'discr':
        sd = draw(_discr_sd())
    else:
        sd = draw(_pspace_sd(power_only=method != 'legacy' or
                             draw(st.booleans())))
    dtype = _sd_dtype(sd)
    shape = _sd_shape(sd)
    nd = len(shape) if shape is not None else 1
    desc = {'method': method, 'ekind': ekind, 'space': sd,
            'x': draw(_elem(sd, p_special=2 if method == 'legacy_red'
                            else 4))}
    kw = {}

    if method == 'legacy_red':
        desc['ufunc'] = draw(st.sampled_from(['sum', 'prod', 'min', 'max']))
        if ekind != 'pspace':
            cls, ax = _axis(draw, nd, 'reduce')
            if cls != 'absent':
                kw['axis'] = ax
            if _one_in(draw, 4):
                kw['keepdims'] = draw(st.sampled_from([True, True, False]))
            name = {'sum': 'add', 'prod': 'multiply', 'min': 'minimum',
                    'max': 'maximum'}[desc['ufunc']]
            kd = _kw_dtype(draw, name, dtype)
            if kd is not None:
                kw['dtype'] = kd
            desc['out'] = [draw(_out_desc(ekind, [
                'none', 'none', 'none', 'elem', 'ndarray', 'tensor']))]
        desc['kwargs'] = kw
        return desc

    table = APPLICABLE[dtype]
    if method in ('reduce', 'accumulate', 'outer', 'reduceat'):
        pool = _binary(table)
        if method == 'reduce' and _one_in(draw, 3):
            pool = [n for n in ('add', 'multiply', 'maximum', 'minimum',
                                'logical_or', 'bitwise_xor', 'hypot')
                    if n in pool] or pool
    elif method == 'at':
        pool = _nout1(table)
    elif method == '__call__':
        pool = table
        if _one_in(draw, 7):
            pool = [n for n in table if getattr(np, n).nout == 2] + \
                [n for n in APPLICABLE_EXTRA[dtype]
                 if getattr(np, n).nout == 2] or table
        elif _one_in(draw, 8) and APPLICABLE_EXTRA[dtype]:
            pool = APPLICABLE_EXTRA[dtype]
    else:
        pool = table
    name = draw(st.sampled_from(pool))
    uf = getattr(np, name)
    desc['ufunc'] = name

    if method in ('__call__', 'legacy'):
        if uf.nin == 2:
            if ekind == 'pspace' and method == 'legacy':
                forms = ['elem', 'elem', 'scalar', 'base']
            else:
                forms = ['elem', 'elem', 'elem2', 'ndarray', 'ndarray',
                         'bcast', 'scalar', 'scalar', 'list']
            form = draw(st.sampled_from(forms))
            if form == 'base':
                b = build.space_parts(sd)[0] if sd.get('power') is not None \
                    else None
                if b is None or b['kind'] == 'pspace':
                    form = 'scalar'
                else:
                    desc['other'] = {'form': 'ndarray', 'array': draw(
                        vs.array_descs(build.space_shape(b), dtype,
                                       lo=-30.0, hi=30.0, orders=ORDERS))}
            if 'other' not in desc:
                if shape is None and form not in ('elem', 'scalar'):
                    form = 'elem'
                desc['other'] = draw(_operand(sd, [form]))
            desc['pos'] = 0 if method == 'legacy' else draw(
                st.sampled_from([0, 0, 1]))
        kd = _kw_dtype(draw, name, dtype, p=5)
        if kd is not None:
            kw['dtype'] = kd
        okinds = ['none', 'none', 'none', 'elem', 'elem', 'ndarray', 'tensor',
                  'x']
        if uf.nin == 2 and desc['other']['form'] == 'ndarray':
            okinds += ['other', 'other']        # arr += x
        if method == 'legacy':
            okinds = ['none', 'none', 'elem', 'ndarray']
        outs = [draw(_out_desc(ekind, okinds)) for _ in range(uf.nout)]
        if method == 'legacy' and ekind == 'pspace' and uf.nout == 2:
            # the product-space wrapper takes out1=/out2= and is broken
            # altogether (known finding C17-K3)
            outs = [None, None]
        real = [o for o in outs if o and o['kind'] not in ('x', 'other')]
        if real and 'dtype' not in kw and KW_OK.get((name, dtype)) and \
                _one_in(draw, 3):
            kw['dtype'] = draw(st.sampled_from(KW_OK[name, dtype]))
        if 'dtype' in kw:
            # the only route on which `writable_array` works on a converted
            # copy and has to write it back: out of another dtype than the
            # requested one (a wider one, so that NumPy admits the cast)
            for o in real:
                if draw(st.booleans()) and kw['dtype'] in WIDER:
                    o['dtype'] = WIDER[kw['dtype']]
                    o['order'] = 'C'
        desc['out'] = outs
        if method == '__call__' and uf.nout == 2 and any(outs):
            desc['out_positional'] = draw(st.booleans()) and all(outs)
    elif method == 'reduce':
        cls, ax = _axis(draw, nd, 'reduce')
        if cls != 'absent':
            kw['axis'] = ax
        if _one_in(draw, 4):
            kw['keepdims'] = draw(st.sampled_from([True, True, False]))
        kd = _kw_dtype(draw, name, dtype)
        if kd is not None:
            kw['dtype'] = kd
        desc['out'] = [draw(_out_desc(ekind, [
            'none', 'none', 'none', 'elem', 'ndarray', 'tensor']))]
    elif method == 'accumulate':
        cls, ax = _axis(draw, nd, 'accumulate')
        if cls != 'absent':
            kw['axis'] = ax
        kd = _kw_dtype(draw, name, dtype)
        if kd is not None:
            kw['dtype'] = kd
        desc['out'] = [draw(_out_desc(ekind, [
            'none', 'none', 'elem', 'ndarray', 'tensor', 'x']))]
    elif method == 'reduceat':
        cls, ax = _axis(draw, nd, 'reduceat')
        if cls != 'absent':
            kw['axis'] = ax
        n_ax = shape[ax if cls in ('int', 'neg') else 0]
        desc['indices'] = draw(st.lists(st.integers(0, n_ax - 1), min_size=1,
                                        max_size=4))
        kd = _kw_dtype(draw, name, dtype)
        if kd is not None:
            kw['dtype'] = kd
        desc['out'] = [draw(_out_desc(ekind, ['none', 'none', 'elem',
                                              'ndarray']))]
    elif method == 'outer':
        form = draw(st.sampled_from(['other', 'other', 'other', 'self',
                                     'ndarray', 'scalar']))
        if form == 'other':
            dt2 = dtype if not _one_in(draw, 3) else draw(st.sampled_from(
                DISCR_DTYPES if ekind == 'discr' else DTYPES))
            if ekind == 'tensor':
                sd2 = draw(_tensor_sd(dt2, draw(vs.small_shapes(1, 2, 1, 4,
                                                                8))))
            elif ekind == 'discr':
                sd2 = draw(_discr_sd(dt2, small=True))
            else:
                sd2 = draw(_pspace_sd(dt2))
            desc['other'] = {'form': 'elem2', 'space': sd2,
                             'data': draw(_elem(sd2))}
        elif form == 'self':
            desc['other'] = {'form': 'self'}
        elif form == 'ndarray':
            desc['other'] = {'form': 'ndarray', 'array': draw(vs.array_descs(
                draw(vs.small_shapes(1, 2, 1, 3, 6)), dtype, lo=-30.0,
                hi=30.0))}
        else:
            desc['other'] = {'form': 'scalar', 'value': draw(_scalar(dtype))}
        desc['pos'] = draw(st.sampled_from([0, 0, 1]))
        kd = _kw_dtype(draw, name, dtype, p=6)
        if kd is not None:
            kw['dtype'] = kd
        desc['out'] = [draw(_out_desc(ekind, ['none', 'none', 'none', 'elem',
                                              'ndarray']))]
    elif method == 'at':
        style = draw(st.sampled_from(['first', 'full', 'full']))
        k = draw(st.integers(1, 4))
        if style == 'first' or nd == 1:
            idx = draw(st.lists(st.integers(-shape[0], shape[0] - 1),
                                min_size=k, max_size=k))
            sel_shape = [k] + list(shape[1:])
            desc['indices'] = {'style': 'first', 'idx': idx}
        else:
            idx = [draw(st.lists(st.integers(0, s - 1), min_size=k,
                                 max_size=k)) for s in shape]
            sel_shape = [k]
            desc['indices'] = {'style': 'full', 'idx': idx}
        if uf.nin == 2:
            form = draw(st.sampled_from(['scalar', 'ndarray', 'ndarray',
                                         'list']))
            if form == 'scalar':
                desc['other'] = {'form': 'scalar',
                                 'value': draw(_scalar(dtype))}
            else:
                desc['other'] = {'form': form, 'array': draw(vs.array_descs(
                    sel_shape, dtype, lo=-30.0, hi=30.0, orders=ORDERS))}
    desc['kwargs'] = kw
    return desc


@st.composite
def _wrap_case(draw, ekind):
    if ekind == 'tensor':
        sd = draw(_tensor_sd())
    elif ekind == 'discr':
        sd = draw(_discr_sd())
    else:
        sd = draw(_pspace_sd())
    dtype = _sd_dtype(sd)
    shape = _sd_shape(sd)
    adt = dtype if not _one_in(draw, 4) else draw(st.sampled_from(
        [d for d in DTYPES if np.can_cast(d, dtype, 'same_kind')]))
    desc = {'method': 'wrap', 'ekind': ekind, 'space': sd,
            'array': draw(vs.array_descs(shape, adt, lo=-30.0, hi=30.0, orders=ORDERS)),
            'order_arg': draw(st.sampled_from([None, None, 'C', 'F']))
            if ekind != 'pspace' else None,
            'out_order': draw(st.sampled_from(['C', 'F'])),
            'as_dtype': draw(st.sampled_from([None, 'complex128',
                                              'float32', 'float64']))}
    size = int(np.prod(shape, dtype=int))
    desc['poke'] = draw(st.integers(0, size - 1))
    return desc


def strategy(tier):
    return _case()


# --------------------------------------------------------------------------
# exhaustive sweep: every applicable (ufunc, dtype, element kind) for the
# plain call and the legacy namespace on fixed data

PAL_F = [0.5, -1.5, 2.0, 0.0, 3.25, -0.75, 1.0, 7.5, -0.0, 0.125, 30.0, -2.0]
PAL_I = [1, 2, 0, 3, 5, 7, 1, 4, 20, 6, 2, 9]


def _fixed_array(shape, dtype, shift=0):
    dt = np.dtype(dtype)
    n = int(np.prod(shape, dtype=int))
    if dt.kind == 'c':
        vals = [complex(PAL_F[(i + shift) % 12], PAL_F[(i + 5 + shift) % 12])
                for i in range(n)]
    elif dt.kind == 'f':
        vals = [PAL_F[(i + shift) % 12] for i in range(n)]
    elif dt.kind == 'b':
        vals = [float(PAL_I[(i + shift) % 12] % 2) for i in range(n)]
    else:
        vals = [PAL_I[(i + shift) % 12] for i in range(n)]
    arr = np.empty(n, dtype=object)
    for i, v in enumerate(vals):
        arr[i] = v
    return {'dtype': str(dt), 'shape': list(shape), 'order': 'C',
            'data': arr.reshape(shape).tolist()}


def _fixed_elem(sd, shift=0):
    if sd['kind'] == 'pspace':
        return [_fixed_elem(p, shift + 3 * i)
                for i, p in enumerate(build.space_parts(sd))]
    return _fixed_array(build.space_shape(sd), sd['dtype'], shift)


def _fixed_space(ekind, dtype):
    if ekind == 'tensor':
        return {'kind': 'tensor', 'shape': [2, 3], 'dtype': dtype,
                'weighting': None, 'exponent': 2.0}
    if ekind == 'discr':
        return {'kind': 'discr', 'min': [0.0, -1.0], 'max': [1.0, 2.0],
                'shape': [2, 3], 'dtype': dtype, 'exponent': 2.0,
                'nodes_on_bdry': False, 'weighting': None}
    return {'kind': 'pspace', 'base': {
        'kind': 'tensor', 'shape': [3], 'dtype': dtype, 'weighting': None,
        'exponent': 2.0}, 'power': 2, 'weighting': None, 'exponent': 2.0}


def enumerate_cases(tier):
    dts = DTYPES if tier == 'thorough' else ['float64', 'float32',
                                             'complex128', 'int64', 'uint8',
                                             'bool']
    for ekind in ('tensor', 'discr', 'pspace'):
        for dt in dts:
            if ekind == 'discr' and dt not in DISCR_DTYPES + ['bool']:
                continue
            sd = _fixed_space(ekind, dt)
            for name in APPLICABLE[dt] + APPLICABLE_EXTRA[dt]:
                uf = getattr(np, name)
                for method in ('__call__', 'legacy'):
                    if method == 'legacy' and name not in TABLE:
                        continue
                    desc = {'method': method, 'ekind': ekind, 'space': sd,
                            'ufunc': name, 'x': _fixed_elem(sd),
                            'kwargs': {}, 'out': [None] * uf.nout}
                    if uf.nin == 2:
                        desc['other'] = {'form': 'elem',
                                         'data': _fixed_elem(sd, 4)}
                        desc['pos'] = 0
                    yield desc
    # legacy reductions with one special value at every position class
    for ekind in ('tensor', 'discr', 'pspace'):
        sd = _fixed_space(ekind, 'float64')
        if ekind == 'pspace':
            sd = dict(sd, power=3)
        for red in ('sum', 'prod', 'min', 'max'):
            for value in ('nan', 'inf', '-inf', '-0.0'):
                for leafpos in (POSITIONS if ekind == 'pspace'
                                else ['first']):
                    for entrypos in POSITIONS:
                        ed = _fixed_elem(sd)
                        _plant_into(ed, leafpos, entrypos, value)
                        yield {'method': 'legacy_red', 'ekind': ekind,
                               'space': sd, 'ufunc': red, 'x': ed,
                               'kwargs': {}, 'out': [None]}
    # every axis subset (positive and negative spelling) of a 3-d and a 2-d
    # element for reduce, every axis for accumulate
    import itertools
    for ekind in ('tensor', 'discr'):
        for shape in ([2, 3, 4], [3, 3]):
            nd = len(shape)
            sd = _fixed_space(ekind, 'float64')
            sd = dict(sd, shape=shape)
            if ekind == 'discr':
                sd.update(min=[0.0, -1.0, 2.0][:nd], max=[1.0, 2.0, 2.5][:nd],
                          nodes_on_bdry=[[True, False]] * nd)
            axes_opts = ['absent', None]
            for k in range(0, nd + 1):
                for sub in itertools.combinations(range(nd), k):
                    axes_opts.append(list(sub))
                    if k:
                        axes_opts.append([a - nd for a in sub])
                        axes_opts.append([a - nd if i % 2 else a
                                          for i, a in enumerate(sub)][::-1])
                    if k == 1:
                        axes_opts += [sub[0], sub[0] - nd]
            for name in ('add', 'maximum'):
                for ax in axes_opts:
                    kw = {} if ax == 'absent' else {'axis': ax}
                    yield {'method': 'reduce', 'ekind': ekind, 'space': sd,
                           'ufunc': name, 'x': _fixed_elem(sd), 'kwargs': kw,
                           'out': [None]}
                for ax in list(range(-nd, nd)):
                    yield {'method': 'accumulate', 'ekind': ekind,
                           'space': sd, 'ufunc': name, 'x': _fixed_elem(sd),
                           'kwargs': {'axis': ax}, 'out': [None]}


EXHAUSTIVE = {
    'quick': ['every ufunc of the table (and the extra ufuncs) applicable to '
              'the dtype x {float64, float32, complex128, int64, uint8, '
              'bool} x {tensor, discretized, power space} x {np.<ufunc>(x '
              '[, y]), x.ufuncs.<ufunc>([y])} on fixed (2, 3) data'],
    'thorough': ['same sweep over all 9 dtypes'],
}
for _t in EXHAUSTIVE:
    EXHAUSTIVE[_t].append(
        'x.ufuncs.sum/prod/min/max() with NaN, inf, -inf or -0.0 at the '
        'first / middle / last entry of the first / middle / last component '
        'of a tensor, discretized and three-component power-space element')
    EXHAUSTIVE[_t].append(
        'np.add / np.maximum .reduce over every subset of axes (absent, '
        'None, int, tuple; positive, negative and mixed spelling) and '
        '.accumulate over every axis of a (2, 3, 4) and a (3, 3) tensor and '
        'discretized element')


# --------------------------------------------------------------------------
# helpers

def _lay(vals, order):
    """Copy of ``vals`` with the given memory layout (mirrors build)."""
    vals = np.asarray(vals)
    if order == 'C' or vals.ndim == 0:
        return np.array(vals, order='C', copy=True)
    if order == 'F':
        return np.array(vals, order='F', copy=True)
    if order == 'strided':
        big = np.zeros(tuple(2 * s for s in vals.shape), dtype=vals.dtype)
        view = big[tuple(slice(None, None, 2) for _ in vals.shape)]
        view[...] = vals
        return view
    if order == 'rev':
        rv = tuple(slice(None, None, -1) for _ in vals.shape)
        return np.ascontiguousarray(vals[rv])[rv]
    if order == 'unaligned':
        return _unaligned(vals)
    raise HarnessError('unknown order {!r}'.format(order))


def _unaligned(vals):
    """Writable C-contiguous copy of ``vals`` whose data start one byte
    into a buffer, i.e. not aligned for item sizes > 1."""
    vals = np.asarray(vals)
    buf = bytearray(vals.nbytes + 1)
    arr = np.frombuffer(buf, dtype=vals.dtype, count=vals.size,
                        offset=1).reshape(vals.shape)
    arr[...] = vals
    if not arr.flags.writeable:
        raise HarnessError('unaligned array is not writable')
    # one-byte dtypes (and platforms that align anyway) are counted apart
    _MODE['unaligned' if not arr.flags.aligned else 'unaligned_na'] += 1
    return arr


def _build_array(ad, dtype=None, shape=None):
    """`build.build_array` plus the 'unaligned' layout and planted special
    values (``ad['plant'] = [[position class, 'nan'|'inf'|'-inf'|'-0.0']]``,
    flat C index first / middle / last)."""
    vals = build.array_values(ad, dtype, shape)
    if ad.get('plant') and vals.dtype.kind in 'fc' and vals.size:
        flat = vals.reshape(-1)
        for pos, value in ad['plant']:
            flat[_position(pos, flat.size)] = float(value)
        _MODE['special'] += 1
    return _lay(vals, ad.get('order', 'C'))


def _stack(sd, ed):
    """Array underlying the described element (power spaces stacked)."""
    if sd['kind'] == 'pspace':
        parts = build.space_parts(sd)
        # x.asarray() of a power-space element is a fresh C-ordered array
        return np.ascontiguousarray(
            np.stack([_stack(parts[i], ed[i]) for i in range(len(parts))]))
    return _build_array(ed, dtype=sd['dtype'], shape=build.space_shape(sd))


def _ref_array(sd, ed):
    """Reference operand: same values *and layout* as the ODL operand."""
    return _stack(sd, ed)


def _cur(obj):
    """Current values of an operand as ndarray (ODL objects via asarray)."""
    if isinstance(obj, np.ndarray):
        return obj
    if isinstance(obj, ProductSpaceElement):
        return np.stack([_cur(p) for p in obj]) if len(obj) else \
            np.empty((0,))
    if hasattr(obj, 'asarray'):
        return obj.asarray()
    return np.asarray(obj)


# NumPy itself is not bit-deterministic for the ufuncs with SIMD *and* scalar
# kernels (exp, log, trigonometric, power, ...; complex arithmetic): which
# kernel runs depends on an address-range overlap test that misfires when a
# negative-stride operand happens to be heap-adjacent to the output, and the
# two kernels differ in the last bits. A value mismatch is therefore re-tried
# with a perturbed heap (`run_case`); only on the last attempt, and only for
# those ufuncs, differences up to ULP_FALLBACK ulp are let through (counted).
INEXACT = {'arccos', 'arccosh', 'arcsin', 'arcsinh', 'arctan', 'arctan2',
           'arctanh', 'cos', 'cosh', 'exp', 'exp2', 'expm1', 'log', 'log10',
           'log1p', 'log2', 'logaddexp', 'logaddexp2', 'power', 'float_power',
           'sin', 'sinh', 'tan', 'tanh', 'cbrt', 'hypot',
           'absolute'}      # |z| of complex input is a hypot
ULP_FALLBACK = 16
_MODE = {'lenient': False, 'tolerated': 0, 'unaligned': 0, 'unaligned_na': 0,
         'special': 0}


def _same(a, b, ufunc=None):
    """Bit-identical, NaNs compared by position only."""
    a = np.asarray(a)
    b = np.asarray(b)
    if a.shape != b.shape or a.dtype != b.dtype:
        return False
    if a.dtype.kind not in 'fc':
        return bool(np.array_equal(a, b))
    if _same_bits(a, b):
        return True
    if _MODE['lenient'] and ufunc is not None and (
            ufunc in INEXACT or a.dtype.kind == 'c'):
        with np.errstate(all='ignore'):
            fin = np.isfinite(a) & np.isfinite(b)
            if not _same_bits(np.where(fin, 0, a), np.where(fin, 0, b)):
                return False
            err = np.abs(np.where(fin, a, 0) - np.where(fin, b, 0))
            tol = ULP_FALLBACK * np.finfo(a.dtype).eps * np.abs(
                np.where(fin, b, 0))
            if np.all(err <= tol):
                _MODE['tolerated'] += 1
                return True
    return False


def _same_bits(a, b):
    ca = np.ascontiguousarray(a)
    cb = np.ascontiguousarray(b)
    if ca.tobytes() == cb.tobytes():
        return True
    if a.dtype.kind == 'c':
        ft = np.dtype('f{}'.format(a.dtype.itemsize // 2))
        ca = ca.view(ft)
        cb = cb.view(ft)
    na = np.isnan(ca)
    nb = np.isnan(cb)
    if not np.array_equal(na, nb):
        return False
    it = np.dtype('u{}'.format(ca.dtype.itemsize))
    return bool(np.array_equal(ca.view(it)[~na], cb.view(it)[~nb]))


def _diff_text(got, ref):
    got = np.asarray(got)
    ref = np.asarray(ref)
    if got.shape != ref.shape:
        return 'shape {} vs {}'.format(got.shape, ref.shape)
    with np.errstate(all='ignore'):
        bad = ~((got == ref) | ((got != got) & (ref != ref)))
    if got.ndim == 0:
        return 'got {!r} numpy {!r}'.format(got[()], ref[()])
    if not np.any(bad):
        return 'bit-level difference (sign of zero / dtype {} vs {})'.format(
            got.dtype, ref.dtype)
    idx = tuple(int(j) for j in np.argwhere(bad)[0])
    return 'entry {}: got {!r} numpy {!r} ({} of {} entries differ)'.format(
        idx, got[idx], ref[idx], int(bad.sum()), bad.size)


def _sentinel(shape, dtype, order):
    dt = np.dtype(dtype)
    if dt.kind in 'fc':
        fill = np.nan
    elif dt.kind == 'b':
        fill = True
    else:
        fill = 77
    return _lay(np.full(shape, fill, dtype=dt), order)


def _dtclass(in_dtype, ref_dtypes):
    """'same' or 'chg:<kind>' ('<' appended if a floating result is of
    lower precision than the floating input)."""
    ind = np.dtype(in_dtype)
    for rd in ref_dtypes:
        rd = np.dtype(rd)
        if rd != ind:
            narrow = (rd.kind in 'fc' and ind.kind in 'fc' and
                      np.finfo(rd).bits < np.finfo(ind).bits)
            return 'chg:' + rd.kind + ('<' if narrow else '')
    return 'same'


def _kw_build(kw):
    out = {}
    for k, v in kw.items():
        if k == 'axis':
            if v == 'absent':
                continue
            out[k] = tuple(v) if isinstance(v, list) else v
        elif k == 'dtype':
            out[k] = np.dtype(v)
        else:
            out[k] = v
    return out


def _axis_class(kw, nd):
    if 'axis' not in kw:
        return 'absent'
    ax = kw['axis']
    if ax is None:
        return 'none'
    if isinstance(ax, (list, tuple)):
        if not len(ax):
            return 'empty'
        return 'tuple-neg' if any(a < 0 for a in ax) else 'tuple'
    if ax >= nd or ax < -nd:
        return 'bad'
    return 'neg' if ax < 0 else 'int'


def _kept_axes(kw, nd, method):
    """Axes that survive a reduce, by NumPy's rules (None if scalar)."""
    ax = kw.get('axis', 0)
    if ax is None:
        return []
    if isinstance(ax, (list, tuple)):
        red = set(a % nd for a in ax)
    else:
        red = {ax % nd}
    return [i for i in range(nd) if i not in red]


def _ekind_label(ekind, sd):
    """Element kind as it appears in signatures: array-weighted tensor
    spaces are a region of their own, non-power product spaces too."""
    aw = any((l.get('weighting') or {}).get('type') == 'array'
             for l in build.leaf_descs(sd))
    if ekind == 'pspace':
        ekind = 'pspace' if _sd_shape(sd) is not None else 'prodspace'
    return ekind + ('-aw' if aw else '')


class _Sig(object):
    def __init__(self, ekind, method):
        self.ekind = ekind
        self.method = method
        self.dt = '?'
        self.out = 'out=none'
        self.extra = ''

    def __call__(self, clause, tail=''):
        parts = ['C17', clause, self.ekind, self.method, self.dt]
        if self.out:
            parts.append(self.out)
        if self.extra:
            parts.append(self.extra)
        if tail:
            parts.append(tail)
        return '|'.join(parts)


EXPECTED_CLASS = {'tensor': (NumpyTensor, NumpyTensorSpace),
                  'discr': (DiscretizedSpaceElement, DiscretizedSpace),
                  'pspace': (ProductSpaceElement, ProductSpace)}


def _weighting_kept(got, own):
    """Same weighting; array weightings (which compare by identity) may
    also hold the same values converted to the result precision."""
    if got == own:
        return True
    ga, oa = getattr(got, 'array', None), getattr(own, 'array', None)
    return (ga is not None and oa is not None and ga.shape == oa.shape and
            got.exponent == own.exponent and
            bool(np.array_equal(ga, oa.astype(ga.dtype))))


def _partition_axes(space):
    """(min, max, grid vector) per axis of a discretized space."""
    part = space.partition
    return [(float(part.min_pt[i]), float(part.max_pt[i]),
             np.asarray(part.grid.coord_vectors[i]))
            for i in range(part.ndim)]


def _same_axes(got, exp):
    if len(got) != len(exp):
        return False
    return all(g[0] == e[0] and g[1] == e[1] and np.array_equal(g[2], e[2])
               for g, e in zip(got, exp))


# --------------------------------------------------------------------------
# operands

class _Operand(object):
    """An input of the call: the ODL-side object and NumPy's counterpart."""

    def __init__(self, odl_obj, ref_obj, is_elem=False, space=None,
                 watch=None):
        self.odl = odl_obj
        self.ref = ref_obj
        self.is_elem = is_elem
        self.space = space
        self.watch = watch
        # leaf arrays that were handed to space.element (matching dtype and
        # shape: the element must share their memory)
        self.wrapped = []


def _make_elem(space, sd, ed, wrapped=None):
    """Element wrapping the laid-out leaf arrays (collected in ``wrapped``,
    depth first)."""
    if sd['kind'] == 'pspace':
        parts = build.space_parts(sd)
        if len(ed) != len(parts):
            raise HarnessError('element descriptor / pspace length mismatch')
        return space.element([_make_elem(space[i], parts[i], ed[i], wrapped)
                              for i in range(len(parts))])
    arr = _build_array(ed, dtype=space.dtype, shape=space.shape)
    if wrapped is not None:
        wrapped.append(arr)
    return space.element(arr)


def _build_other(od, space, sd, x_op):
    form = od['form']
    if form == 'self':
        return x_op
    if form == 'elem':
        w = []
        y = _make_elem(space, sd, od['data'], w)
        ref = _ref_array(sd, od['data']) if _sd_shape(sd) is not None \
            else None
        op = _Operand(y, ref, True, space)
        op.wrapped = w
        return op
    if form == 'elem2':
        sp2 = build.build_space(od['space'])
        w = []
        y = _make_elem(sp2, od['space'], od['data'], w)
        op = _Operand(y, _ref_array(od['space'], od['data']), True, sp2)
        op.wrapped = w
        return op
    if form == 'scalar':
        return _Operand(od['value'], od['value'])
    if form == 'ndarray':
        a = _build_array(od['array'])
        return _Operand(a, _build_array(od['array']), watch=True)
    if form == 'list':
        lst = build.array_values(od['array']).tolist()
        lst2 = build.array_values(od['array']).tolist()
        return _Operand(lst, lst2)
    raise HarnessError('operand form {!r}'.format(form))


def _make_out(od, ekind, sd, x_op, shape, dtype, other_op=None):
    """(odl-side out object, reference out array, kind label, array the
    out element wraps or None)."""
    kind = od['kind']
    if kind == 'x':
        return x_op.odl, x_op.ref, 'x', None
    if kind == 'other':
        return other_op.odl, other_op.ref, 'other', None
    dt = np.dtype(dtype if od['dtype'] == 'match' else od['dtype'])
    shape = tuple(shape)
    if shape == () and kind != 'ndarray':
        kind = 'ndarray'
    ref = _sentinel(shape, dt, od['order'])
    arr = _sentinel(shape, dt, od['order'])
    if kind == 'ndarray':
        return arr, ref, 'ndarray' if shape != () else 'ndarray0d', None
    if kind == 'tensor' or (kind == 'elem' and ekind == 'tensor'):
        sp = odl.tensor_space(shape, dtype=dt)
        return (sp.element(arr), ref,
                'tensor' if ekind == 'discr' else 'elem', arr)
    if ekind == 'discr':
        if shape == _sd_shape(sd):
            sp = build.build_space(_with_dtype(sd, dt, plain=True))
        else:
            sp = odl.uniform_discr([0.0] * len(shape), [1.0] * len(shape),
                                   shape, dtype=dt)
        return sp.element(arr), ref, 'elem', arr
    # power space: the same space with the result dtype if the shape is
    # unchanged, otherwise a power space of tensor spaces of that shape
    if shape == _sd_shape(sd):
        sp = build.build_space(_with_dtype(sd, dt, plain=True))
    elif len(shape) < 2:
        sp = odl.ProductSpace(odl.tensor_space((), dtype=dt), shape[0])
    else:
        sp = odl.ProductSpace(odl.tensor_space(shape[1:], dtype=dt),
                              shape[0])
    return sp.element(arr), ref, 'elem', None


# --------------------------------------------------------------------------
# the case

RETRY_CLAUSES = ('|value|', '|out-value|', '|operand-modified|',
                 '|at-mutation|', '|wrapped-array|')
RETRIES = 3


def _layout_strata(out, desc):
    """Count the cases in which an array handed to ODL was unaligned / held
    planted special values."""
    if _MODE['special']:
        out.strata.append('values=special')
        out.strata.append('values=special|' + desc['ekind'])
    if _MODE['unaligned']:
        out.strata.append('layout=unaligned')
    elif _MODE['unaligned_na']:
        out.strata.append('layout=unaligned-n/a')    # one-byte dtype
    return out


def _dispatch(desc):
    if desc['method'] == 'wrap':
        return _run_wrap(desc)
    if desc['method'] == 'legacy_red':
        return _run_legacy_red(desc)
    return _run_ufunc(desc)


def run_case(desc):
    with warnings.catch_warnings():
        warnings.simplefilter('ignore')
        _MODE['lenient'] = False
        _MODE['unaligned'] = _MODE['unaligned_na'] = _MODE['special'] = 0
        try:
            return _layout_strata(_dispatch(desc), desc)
        except Violation as v:
            if not any(c in v.signature + '|' for c in RETRY_CLAUSES):
                raise
            last = v
        # value mismatch: NumPy's kernel choice may depend on heap adjacency
        # (see INEXACT) - repeat the whole case on a perturbed heap; a real
        # deviation of ODL is deterministic and fails every time
        for k in range(RETRIES):
            junk = [np.empty(sz + 8 * k, dtype=np.uint8)
                    for sz in range(8, 6000, 40)]
            _MODE['lenient'] = k == RETRIES - 1
            _MODE['tolerated'] = 0
            try:
                out = _dispatch(desc)
            except Violation as v:
                last = v
                continue
            finally:
                _MODE['lenient'] = False
                del junk
            out = _layout_strata(out, desc)
            out.notes = dict(out.notes or {})
            out.notes['numpy_kernel_flip_retried'] = 1
            if _MODE['tolerated']:
                out.notes['ulp_fallback_tolerated'] = 1
            return out
        raise last


def _call_numpy(fn):
    try:
        return fn(), None
    except Exception as e:  # noqa - any rejection by NumPy
        return None, e


def _run_ufunc(desc):
    method = desc['method']
    ekind = desc['ekind']
    sd = desc['space']
    name = desc['ufunc']
    uf = getattr(np, name)
    in_dtype = np.dtype(_sd_dtype(sd))
    shape = _sd_shape(sd)
    is_power = shape is not None
    kw = _kw_build(desc.get('kwargs', {}))
    sig = _Sig(_ekind_label(ekind, sd), method)
    sig.extra = 'nout2' if uf.nout == 2 else ''
    legacy = method == 'legacy'

    space = build.build_space(sd)
    xw = []
    x = _make_elem(space, sd, desc['x'], xw)
    if is_power:
        x_op = _Operand(x, _ref_array(sd, desc['x']), True, space)
    else:
        x_op = _Operand(x, None, True, space)
    x_op.wrapped = xw
    ops = [x_op]
    if 'other' in desc:
        ops.append(_build_other(desc['other'], space, sd, x_op))
        if desc.get('pos', 0) == 1:
            ops.reverse()

    if not is_power:
        return _run_prodspace_legacy(desc, sig, uf, x, ops, kw)

    nd = len(shape)
    strata = ['{}|{}'.format(method, ekind), 'method:' + method,
              'kind:' + ekind, 'dtype:' + str(in_dtype),
              'nin{}nout{}'.format(uf.nin, uf.nout)]
    if name in EXTRA:
        strata.append('extra-ufunc')
    leaves = build.leaf_descs(sd)
    wkind = (leaves[0].get('weighting') or {}).get('type', 'none')
    strata.append('weight:' + wkind)
    if 'other' in desc:
        strata.append('operand:{}@{}'.format(
            desc['other']['form'], 1 - desc.get('pos', 0)))
    for k in ('dtype', 'keepdims'):
        if k in kw:
            strata.append('kw:' + k)
    if method in ('reduce', 'accumulate', 'reduceat'):
        strata.append('axis:' + _axis_class(kw, nd))

    # ---- positional extras (indices) ------------------------------------
    def extra_args():
        if method == 'reduceat':
            return [list(desc['indices'])]
        if method == 'at':
            ind = desc['indices']
            if ind['style'] == 'first':
                return [list(ind['idx'])]
            return [tuple(list(i) for i in ind['idx'])]
        return []

    def call(side, outs):
        """Run the call on the ODL side ('odl') or NumPy side ('ref')."""
        args = [getattr(o, side) for o in ops]
        k = dict(kw)
        if method == 'at':
            args = args[:1] + extra_args() + args[1:]
            return uf.at(*args)
        if method == 'reduceat':
            args = args + extra_args()
        if outs is not None and any(o is not None for o in outs):
            if desc.get('out_positional') and not legacy:
                args = args + list(outs)
            elif len(outs) == 1:
                k['out'] = outs[0]
            else:
                k['out'] = tuple(outs)
        if legacy and side == 'odl':
            fn = getattr(args[0].ufuncs, name)
            return fn(*args[1:], **k)
        f = uf if method in ('__call__', 'legacy') else getattr(uf, method)
        return f(*args, **k)

    # ---- step A: NumPy without out (learn shape / dtype) -----------------
    out_descs = desc.get('out') or [None] * uf.nout
    has_out = any(o is not None for o in out_descs)
    np_exc = None
    ref0 = None
    if method != 'at':
        ref0, np_exc = _call_numpy(lambda: call('ref', None))
    ref0s = None
    if np_exc is None and method != 'at':
        ref0s = ref0 if isinstance(ref0, tuple) else (ref0,)
        # relative to the element that handles the call (first element-typed
        # operand): its space is the one the result is derived from
        lead_dtype = np.dtype([o for o in ops if o.is_elem][0].odl.dtype)
        sig.dt = _dtclass(lead_dtype, [np.asarray(r).dtype for r in ref0s])

    # ---- step B: out objects ---------------------------------------------
    outs_odl = outs_ref = None
    outs_wrap = {}
    out_labels = []
    if has_out:
        outs_odl, outs_ref = [], []
        for i, od in enumerate(out_descs):
            if od is None:
                outs_odl.append(None)
                outs_ref.append(None)
                out_labels.append('none')
                continue
            if ref0s is not None:
                oshape = np.asarray(ref0s[i]).shape
                odt = np.asarray(ref0s[i]).dtype
            else:
                oshape, odt = shape, in_dtype
            if od['dtype'] != 'match' and 'dtype' in kw and method in (
                    'reduce', 'accumulate', 'reduceat'):
                od = dict(od, dtype='match')    # see ASSUMPTIONS
            if od['kind'] == 'x' and (tuple(oshape) != tuple(shape)):
                od = dict(od, kind='elem')
            if od['kind'] == 'x' and 'x' in out_labels:
                od = dict(od, kind='ndarray')
            other_op = [o for o in ops if o is not x_op]
            other_op = other_op[0] if other_op else None
            if od['kind'] == 'other' and (
                    other_op is None or 'other' in out_labels or
                    not isinstance(other_op.odl, np.ndarray) or
                    other_op.odl.shape != tuple(oshape)):
                od = dict(od, kind='ndarray')
            o, r, lab, w = _make_out(od, ekind, sd, x_op, oshape, odt,
                                     other_op)
            if od['dtype'] != 'match':
                lab += '-cast'
            outs_odl.append(o)
            outs_ref.append(r)
            outs_wrap[i] = w
            out_labels.append(lab)
        sig.out = 'out=' + '+'.join(out_labels)
    strata.append(sig.out)

    # ---- step C: NumPy with out ------------------------------------------
    if method == 'at':
        ref, np_exc = _call_numpy(lambda: call('ref', None))
        sig.dt = 'same'
    elif has_out and np_exc is None:
        ref, np_exc = _call_numpy(lambda: call('ref', outs_ref))
    else:
        ref = ref0

    # ---- step D: ODL -------------------------------------------------------
    got = None
    odl_exc = None
    try:
        got = call('odl', outs_odl)
    except Exception as e:  # noqa - classified below
        odl_exc = e

    strata.append('dt:' + sig.dt.rstrip('<'))
    if sig.dt.endswith('<'):
        strata.append('dt-narrow')
    if np_exc is not None:
        strata.append('np-rejects:' + ('odl-rejects' if odl_exc is not None
                                       else 'odl-accepts'))
        notes = {}
        if odl_exc is None:
            notes['numpy_rejects_odl_accepts'] = 1
        return Outcome('rejected', strata=strata, notes=notes)

    if odl_exc is not None:
        doc = _documented_rejection(ekind, method, kw, ops, odl_exc, legacy)
        if doc:
            strata.append('rejected:' + doc)
            return Outcome('rejected', strata=strata)
        raise Violation(
            sig('raises', type(odl_exc).__name__),
            'np.{}{}({}) on {} element{}: NumPy succeeds, ODL raises {}: {}'
            ''.format(name, '' if method in ('__call__', 'legacy')
                      else '.' + method, _kw_text(desc), ekind,
                      ' [legacy x.ufuncs]' if legacy else '',
                      type(odl_exc).__name__, str(odl_exc)[:300]))

    # ---- step E: compare ---------------------------------------------------
    if method == 'at':
        if got is not None:
            raise Violation(sig('return'), 'ufunc.at returned {!r}'.format(
                type(got)))
    else:
        refs = ref if isinstance(ref, tuple) else (ref,)
        if uf.nout == 2:
            if not isinstance(got, tuple) or len(got) != 2:
                raise Violation(sig('type'), 'two-output ufunc returned {!r}'
                                ''.format(type(got)))
            gots = got
        else:
            gots = (got,)
        for i, (g, r) in enumerate(zip(gots, refs)):
            o_odl = outs_odl[i] if outs_odl is not None else None
            o_ref = outs_ref[i] if outs_ref is not None else None
            _compare_result(sig, desc, i, g, r, o_odl, o_ref, x, ops, kw,
                            strata, outs_wrap.get(i))

    # operands afterwards identical to NumPy's operands (not mutated, or
    # mutated exactly like NumPy for `at` / out being an operand)
    for j, o in enumerate(ops):
        if not isinstance(o.ref, np.ndarray):
            continue
        if not _same(_cur(o.odl), o.ref, name):
            clause = 'at-mutation' if method == 'at' else 'operand-modified'
            raise Violation(sig(clause),
                            'operand {} after the call differs from NumPy\'s '
                            'operand: {}'.format(j, _diff_text(_cur(o.odl),
                                                               o.ref)))
        # ... and so is the array the element was created from (no-copy
        # wrapping: `at`, out=x reach the caller's array)
        if o.wrapped and not _same(
                np.concatenate([w.ravel() for w in o.wrapped]),
                o.ref.ravel(), name):
            raise Violation(sig('wrapped-array'),
                            'the array wrapped by operand {} differs from '
                            'NumPy\'s operand after the call (the element '
                            'does not share its memory)'.format(j))
    if method == 'at':
        strata.append('at:' + desc['indices']['style'])

    nontriv = not (method == '__call__' and uf.nin == 1 and uf.nout == 1 and
                   not has_out and not kw and ekind == 'tensor' and
                   wkind == 'none' and in_dtype.kind == 'f' and
                   sig.dt == 'same' and
                   desc['x'].get('order', 'C') == 'C')
    return Outcome('ok', strata=strata, nontrivial=nontriv)


def _kw_text(desc):
    bits = []
    if 'other' in desc:
        bits.append('other=' + desc['other']['form'] + '@' +
                    str(1 - desc.get('pos', 0)))
    for k, v in sorted(desc.get('kwargs', {}).items()):
        bits.append('{}={!r}'.format(k, v))
    outs = desc.get('out') or []
    if any(outs):
        bits.append('out=' + '+'.join(o['kind'] if o else 'None'
                                      for o in outs))
    return ', '.join(bits)


def _documented_rejection(ekind, method, kw, ops, exc, legacy):
    """Name of the documented restriction that explains ``exc`` (or '')."""
    if ekind != 'discr':
        return ''
    if method in ('reduce',) and kw.get('keepdims') and \
            isinstance(exc, ValueError) and 'keepdims' in str(exc):
        return 'discr-reduce-keepdims'
    if method == 'reduceat' and isinstance(exc, ValueError) and \
            'reduceat' in str(exc):
        return 'discr-reduceat'
    if method == 'outer' and isinstance(exc, TypeError) and \
            not all(isinstance(o.odl, DiscretizedSpaceElement) for o in ops):
        return 'discr-outer-nonelement'
    return ''


def _compare_result(sig, desc, i, g, r, o_odl, o_ref, x, ops, kw, strata,
                    o_wrap=None):
    method = desc['method']
    ekind = desc['ekind']
    lenient_scalar = ekind == 'pspace'
    tail = 'res{}'.format(i) if i else ''

    # --- with out: identity and contents ---------------------------------
    if o_odl is not None:
        if g is not o_odl:
            raise Violation(sig('out-identity', tail),
                            'result {} is not the given out object (got {!r})'
                            ''.format(i, type(g)))
        if not _same(_cur(o_odl), o_ref, desc['ufunc']):
            raise Violation(sig('out-value', tail),
                            'out {} holds other values than NumPy\'s out: {}'
                            ''.format(i, _diff_text(_cur(o_odl), o_ref)))
        if o_wrap is not None and not _same(o_wrap, o_ref, desc['ufunc']):
            raise Violation(sig('wrapped-array', tail),
                            'the array wrapped by out element {} was not '
                            'written (the element does not share its '
                            'memory)'.format(i))
        return

    # --- scalar results ---------------------------------------------------
    if not isinstance(r, np.ndarray):
        r = np.asarray(r)[()]
        if isinstance(g, (np.ndarray, NumpyTensor, DiscretizedSpaceElement,
                          ProductSpaceElement)) or not np.isscalar(g):
            raise Violation(sig('type', 'scalar'),
                            'NumPy returns a scalar, ODL a {}'.format(
                                type(g).__name__))
        gd = np.asarray(g)
        if lenient_scalar and not isinstance(g, np.generic):
            # product-space elements hand back Python scalars (`.item()`):
            # same number in the Python type NumPy's scalar converts to
            ri = np.asarray(r).item()
            if type(g) is type(ri) and (g == ri or (g != g and ri != ri)):
                strata.append('result:scalar')
                return
        if gd.dtype != np.asarray(r).dtype:
            raise Violation(sig('dtype', 'scalar'),
                            'scalar result has dtype {} (NumPy {})'.format(
                                gd.dtype, np.asarray(r).dtype))
        if not _same(gd, np.asarray(r), desc['ufunc']):
            raise Violation(sig('value', 'scalar'), _diff_text(gd, r))
        strata.append('result:scalar')
        return

    # --- wrapped results --------------------------------------------------
    ecls, scls = EXPECTED_CLASS[ekind]
    if not isinstance(g, ecls) or not isinstance(
            getattr(g, 'space', None), scls):
        raise Violation(sig('type', tail),
                        'result is {} (expected a {})'.format(
                            type(g).__name__, ecls.__name__))
    gshape = tuple(g.shape)
    if gshape != r.shape:
        raise Violation(sig('shape', tail), 'result shape {} (NumPy {})'
                        ''.format(gshape, r.shape))
    if np.dtype(g.dtype) != r.dtype:
        raise Violation(sig('dtype', tail), 'result dtype {} (NumPy {})'
                        ''.format(g.dtype, r.dtype))
    ga = _cur(g)
    if not isinstance(ga, np.ndarray) or ga.shape != r.shape or \
            ga.dtype != r.dtype:
        raise Violation(sig('dtype', tail),
                        'asarray() of the result is {} {} (NumPy {} {})'
                        ''.format(getattr(ga, 'shape', None),
                                  getattr(ga, 'dtype', None), r.shape,
                                  r.dtype))
    if not _same(ga, r, desc['ufunc']):
        raise Violation(sig('value', tail), _diff_text(ga, r))
    for o in ops:
        if o.is_elem and g is o.odl:
            raise Violation(sig('identity', tail),
                            'out-of-place result is an operand')
    strata.append('result:wrapped')

    # --- result space -----------------------------------------------------
    # NumPy hands the call to the first element-typed operand: its space is
    # the one whose properties are propagated
    uf = getattr(np, desc['ufunc'])
    lead = [o for o in ops if o.is_elem][0].odl
    same_shape = r.shape == tuple(lead.shape)
    if ekind == 'tensor' and uf.nout == 1:
        sp = lead.space
        flt = r.dtype.kind in 'fc'
        if flt and g.space.exponent != sp.exponent:
            raise Violation(sig('exponent', tail),
                            'result space exponent {} (element space {})'
                            ''.format(g.space.exponent, sp.exponent))
        if flt and same_shape and method in ('__call__', 'legacy',
                                             'accumulate'):
            if not _weighting_kept(g.space.weighting, sp.weighting):
                raise Violation(sig('weighting-kept', tail),
                                'same shape, floating result: weighting {!r} '
                                'instead of {!r}'.format(g.space.weighting,
                                                         sp.weighting))
            strata.append('weighting:kept')
        if not same_shape:
            w = g.space.weighting
            if getattr(w, 'const', None) != 1.0:
                raise Violation(sig('weighting-dropped', tail),
                                'shape changed {} -> {} but result space has '
                                'weighting {!r}'.format(lead.shape, r.shape,
                                                        w))
            strata.append('weighting:dropped')
    if ekind == 'discr':
        own = _partition_axes(lead.space)
        gotp = _partition_axes(g.space)
        if method in ('__call__', 'legacy', 'accumulate'):
            exp = own
        elif method == 'reduce':
            exp = [own[a] for a in _kept_axes(kw, x.ndim, method)]
            strata.append('partition:reduced{}of{}'.format(len(exp),
                                                           x.ndim))
        elif method == 'outer':
            exp = []
            for o in ops:
                exp += _partition_axes(o.odl.space)
        else:
            exp = None
        if exp is not None and not _same_axes(gotp, exp):
            raise Violation(
                sig('partition', tail),
                'result partition {!r} does not consist of the expected axes '
                '{}'.format(g.space.partition,
                            [(e[0], e[1], len(e[2])) for e in exp]))
        if method in ('__call__', 'legacy', 'accumulate') and \
                r.dtype == np.dtype(lead.dtype) and uf.nout == 1 and \
                r.dtype.kind in 'fc' and g.space != lead.space:
            raise Violation(sig('space', tail),
                            'dtype and shape unchanged but result space '
                            '{!r} != {!r}'.format(g.space, lead.space))


# --------------------------------------------------------------------------
# legacy namespace on non-power product spaces: per-component reference

def _run_prodspace_legacy(desc, sig, uf, x, ops, kw):
    sd = desc['space']
    name = desc['ufunc']
    parts = build.space_parts(sd)
    strata = ['legacy|prodspace', 'method:legacy', 'kind:prodspace']
    other = desc.get('other')
    refs = []
    np_exc = None
    for i, p in enumerate(parts):
        a = _ref_array(p, desc['x'][i])
        args = [a]
        if other is not None:
            if other['form'] == 'elem':
                args.append(_ref_array(p, other['data'][i]))
            else:
                args.append(other['value'])
        r, e = _call_numpy(lambda: uf(*args, **kw))
        if e is not None:
            np_exc = e
            break
        refs.append(r)
    try:
        fn = getattr(x.ufuncs, name)
        got = fn(*[o.odl for o in ops[1:]], **kw)
        odl_exc = None
    except Exception as e:  # noqa
        got, odl_exc = None, e
    if np_exc is not None:
        strata.append('np-rejects:' + ('odl-rejects' if odl_exc is not None
                                       else 'odl-accepts'))
        return Outcome('rejected', strata=strata)
    in_dtype = np.dtype(_sd_dtype(sd))
    flat = [q for r in refs for q in (r if isinstance(r, tuple) else (r,))]
    sig.dt = _dtclass(in_dtype, [q.dtype for q in flat])
    strata.append('dt:' + sig.dt.rstrip('<'))
    if odl_exc is not None:
        raise Violation(sig('raises', type(odl_exc).__name__),
                        'x.ufuncs.{}() on a product space element: {}: {}'
                        ''.format(name, type(odl_exc).__name__,
                                  str(odl_exc)[:300]))
    gots = got if isinstance(got, tuple) else (got,)
    if len(gots) != uf.nout:
        raise Violation(sig('type'), 'expected {} results'.format(uf.nout))
    for k, g in enumerate(gots):
        if not isinstance(g, ProductSpaceElement) or len(g) != len(parts):
            raise Violation(sig('type'), 'result is {}'.format(
                type(g).__name__))
        for i in range(len(parts)):
            r = refs[i][k] if uf.nout == 2 else refs[i]
            ga = _cur(g[i])
            if ga.shape != r.shape:
                raise Violation(sig('shape'), 'part {} shape {} (NumPy {})'
                                ''.format(i, ga.shape, r.shape))
            if ga.dtype != r.dtype:
                raise Violation(sig('dtype'), 'part {} dtype {} (NumPy {})'
                                ''.format(i, ga.dtype, r.dtype))
            if not _same(ga, r, name):
                raise Violation(sig('value'), 'part {}: {}'.format(
                    i, _diff_text(ga, r)))
    for i, p in enumerate(parts):
        if not _same(_cur(x[i]), _ref_array(p, desc['x'][i])):
            raise Violation(sig('operand-modified'),
                            'part {} of the element changed'.format(i))
    return Outcome('ok', strata=strata)


# --------------------------------------------------------------------------
# legacy reductions x.ufuncs.sum / prod / min / max

RED_UFUNC = {'sum': np.add, 'prod': np.multiply, 'min': np.minimum,
             'max': np.maximum}


def _run_legacy_red(desc):
    ekind = desc['ekind']
    sd = desc['space']
    red = desc['ufunc']
    uf = RED_UFUNC[red]
    in_dtype = np.dtype(_sd_dtype(sd))
    shape = _sd_shape(sd)
    kw = _kw_build(desc.get('kwargs', {}))
    sig = _Sig(_ekind_label(ekind, sd), 'legacy-' + red)
    strata = ['legacy_red|' + ekind, 'method:legacy_red', 'kind:' + ekind,
              'dtype:' + str(in_dtype), 'red:' + red]
    space = build.build_space(sd)
    x = _make_elem(space, sd, desc['x'])

    if ekind == 'pspace':
        # documented as "the sum/product/min/max of self", no arguments
        leaves = [_build_array(ed, dtype=l['dtype'],
                                    shape=build.space_shape(l))
                  for l, ed in zip(build.leaf_descs(sd),
                                   build.flatten_values(desc['x']))]
        flat = np.concatenate([l.ravel() for l in leaves])
        ref, np_exc = _call_numpy(lambda: uf.reduce(flat))
        try:
            got = getattr(x.ufuncs, red)()
            odl_exc = None
        except Exception as e:  # noqa
            got, odl_exc = None, e
        if np_exc is not None:
            return Outcome('rejected', strata=strata + ['np-rejects'])
        sig.dt = _dtclass(in_dtype, [np.asarray(ref).dtype])
        if odl_exc is not None:
            raise Violation(sig('raises', type(odl_exc).__name__),
                            'x.ufuncs.{}(): {}'.format(red, odl_exc))
        if not np.isscalar(got):
            raise Violation(sig('type', 'scalar'), 'result {!r}'.format(
                type(got)))
        g = np.asarray(got)
        r = np.asarray(ref)
        if g.dtype.kind != r.dtype.kind:
            raise Violation(sig('dtype', 'scalar'), '{} vs {}'.format(
                g.dtype, r.dtype))
        assoc = 0
        with np.errstate(all='ignore'):
            gv, rv = g.astype(r.dtype)[()], r[()]
            if r.dtype.kind not in 'fc':
                ok = _same(gv, rv)
            elif not np.isfinite(rv):
                # NaN / infinities propagate whatever the association
                # (complex: component patterns may differ)
                if r.dtype.kind == 'f' or _same(gv, rv):
                    ok = _same(gv, rv)
                elif red in ('sum', 'prod'):
                    # complex: which component ends up inf and which NaN
                    # depends on the association of the complex operations
                    # ((inf+nanj) vs (nan+nanj)): any non-finite value
                    ok = not np.isfinite(gv)
                    assoc = 1
                else:
                    # complex min / max hand back one of the NaN-holding
                    # entries (which one depends on the association)
                    ok = bool(gv == rv or (np.isnan(gv) and np.isnan(rv)))
                    assoc = 1
            elif red in ('sum', 'prod'):
                n = flat.size
                eps = np.finfo(r.dtype).eps
                fin = flat[np.isfinite(flat)]
                scale = (np.sum(np.abs(fin.astype(np.complex128)))
                         if red == 'sum' else abs(complex(rv)))
                ok = bool(abs(complex(gv) - complex(rv)) <=
                          4 * n * eps * scale)
            else:
                # min / max: the same number (which of +0.0 / -0.0 wins
                # depends on the association)
                ok = bool(gv == rv)
            if not ok and red == 'prod' and r.dtype.kind in 'fc':
                # a product whose magnitude can leave the range of the dtype
                # overflows (and then meets a zero: NaN) or not depending on
                # the association - nothing to compare
                mags = np.abs(flat[np.isfinite(flat) & (flat != 0)]).astype(
                    np.longdouble)
                big = np.prod(np.maximum(mags, 1))
                small = np.prod(np.minimum(mags, 1))
                if not (big <= np.finfo(r.dtype).max and
                        small >= np.finfo(r.dtype).tiny):
                    return Outcome('ok', strata=strata, nontrivial=False,
                                   notes={'prod-out-of-range-association': 1})
        if not ok:
            raise Violation(sig('value', 'scalar'),
                            'got {!r} numpy {!r}'.format(got, ref))
        return Outcome('ok', strata=strata, notes={
            'complex-nonfinite-association': 1} if assoc else None)

    a = _ref_array(sd, desc['x'])
    x_op = _Operand(x, a, True, space)
    kwr = dict(kw)
    kwr.setdefault('axis', None)            # documented default of np.sum
    nd = len(shape)
    strata.append('axis:' + _axis_class(kw, nd))
    for k in ('dtype', 'keepdims'):
        if k in kw:
            strata.append('kw:' + k)
    ref0, np_exc = _call_numpy(lambda: uf.reduce(a, **kwr))
    od = (desc.get('out') or [None])[0]
    o_odl = o_ref = o_wrap = None
    ref = ref0
    if np_exc is None:
        sig.dt = _dtclass(in_dtype, [np.asarray(ref0).dtype])
        if od is not None:
            if 'dtype' in kw:
                od = dict(od, dtype='match')    # see ASSUMPTIONS
            o_odl, o_ref, lab, o_wrap = _make_out(od, ekind, sd, x_op,
                                                  np.asarray(ref0).shape,
                                                  np.asarray(ref0).dtype)
            sig.out = 'out=' + lab + ('' if od['dtype'] == 'match'
                                      else '-cast')
            ref, np_exc = _call_numpy(lambda: uf.reduce(a, out=o_ref, **kwr))
    strata.append(sig.out)
    try:
        k2 = dict(kw)
        if o_odl is not None:
            k2['out'] = o_odl
        got = getattr(x.ufuncs, red)(**k2)
        odl_exc = None
    except Exception as e:  # noqa
        got, odl_exc = None, e
    if np_exc is not None:
        strata.append('np-rejects:' + ('odl-rejects' if odl_exc is not None
                                       else 'odl-accepts'))
        return Outcome('rejected', strata=strata)
    strata.append('dt:' + sig.dt.rstrip('<'))
    if odl_exc is not None:
        doc = _documented_rejection(ekind, 'reduce', kw, [x_op], odl_exc,
                                    True)
        if doc:
            strata.append('rejected:' + doc)
            return Outcome('rejected', strata=strata)
        raise Violation(sig('raises', type(odl_exc).__name__),
                        'x.ufuncs.{}({}): NumPy succeeds, ODL raises {}: {}'
                        ''.format(red, _kw_text(desc),
                                  type(odl_exc).__name__,
                                  str(odl_exc)[:300]))
    fake = dict(desc, method='reduce', ufunc=uf.__name__)
    _compare_result(sig, fake, 0, got, ref, o_odl, o_ref, x, [x_op], kwr,
                    strata, o_wrap)
    if not _same(_cur(x), a):
        raise Violation(sig('operand-modified'), 'element changed')
    return Outcome('ok', strata=strata)


# --------------------------------------------------------------------------
# wrapping, asarray round trip

def _run_wrap(desc):
    ekind = desc['ekind']
    sd = desc['space']
    ad = desc['array']
    dtype = np.dtype(_sd_dtype(sd))
    shape = _sd_shape(sd)
    sig = _Sig(_ekind_label(ekind, sd), 'wrap')
    space = build.build_space(sd)
    arr = _build_array(ad)
    ref = _build_array(ad)
    order = desc.get('order_arg')
    matching = arr.dtype == dtype and arr.shape == tuple(shape)
    sig.dt = 'match' if arr.dtype == dtype else 'cast'
    layout = ad.get('order', 'C')
    sig.out = ''
    strata = ['wrap|' + ekind, 'method:wrap', 'kind:' + ekind,
              'layout:' + layout, 'wrap-dtype:' + ('match' if matching
                                                   else 'cast'),
              'order_arg:' + str(order)]
    try:
        e = space.element(arr, order=order) if order is not None else \
            space.element(arr)
    except Exception as exc:  # noqa
        raise Violation(sig('raises', type(exc).__name__),
                        'space.element(array) failed: {}'.format(exc))
    expected = ref.astype(dtype)
    ea = e.asarray()
    if not isinstance(ea, np.ndarray) or ea.shape != tuple(shape) or \
            ea.dtype != dtype:
        raise Violation(sig('asarray'), 'asarray() gives {} {}'.format(
            getattr(ea, 'shape', None), getattr(ea, 'dtype', None)))
    if not _same(ea, expected):
        raise Violation(sig('value'), 'asarray() of the wrapped array: ' +
                        _diff_text(ea, expected))
    if not _same(arr, ref):
        raise Violation(sig('operand-modified'), 'wrapped array changed')
    if not _same(np.asarray(e), expected):
        raise Violation(sig('value', 'np.asarray'), _diff_text(
            np.asarray(e), expected))

    contiguous_ok = (order is None or
                     arr.flags['{}_CONTIGUOUS'.format(order)])
    if order is not None and not ea.flags['{}_CONTIGUOUS'.format(order)]:
        raise Violation(sig('order'), 'element(arr, order={!r}) is not '
                        'contiguous in that order'.format(order))
    if ekind != 'pspace':
        if matching and contiguous_ok:
            if not np.shares_memory(arr, ea):
                raise Violation(sig('shares-memory'),
                                'element(arr) copied an array of matching '
                                'dtype and shape (layout {})'.format(layout))
            strata.append('shares-memory')
            # mutations are visible both ways
            idx = np.unravel_index(desc['poke'], shape)
            val = np.asarray(3).astype(dtype)[()]
            e[idx] = val
            ref[idx] = val
            if not _same(arr, ref):
                raise Violation(sig('shares-memory', 'write-through'),
                                'writing to the element did not change the '
                                'wrapped array')
            arr[idx] = np.asarray(1).astype(dtype)[()]
            ref[idx] = np.asarray(1).astype(dtype)[()]
            if not _same(e.asarray(), ref):
                raise Violation(sig('shares-memory', 'read-through'),
                                'writing to the array did not change the '
                                'element')
            # in-place ufuncs on the element reach the wrapped array
            np.add(e, e, out=e)
            np.add(ref, ref, out=ref)
            np.add.at(e, tuple([int(i)] * 2 for i in idx), val)
            np.add.at(ref, tuple([int(i)] * 2 for i in idx), val)
            if not _same(arr, ref) or not _same(e.asarray(), ref):
                raise Violation(sig('shares-memory', 'ufunc-in-place'),
                                'np.add(x, x, out=x) / np.add.at(x, ..) did '
                                'not update the wrapped array like NumPy')
            expected = ref.astype(dtype)
        # round trip: wrapping asarray() again shares the same memory
        e2 = space.element(e.asarray())
        if not np.shares_memory(e2.asarray(), e.asarray()):
            raise Violation(sig('roundtrip'),
                            'space.element(x.asarray()) copied')
        if not np.shares_memory(np.asarray(e), e.asarray()):
            raise Violation(sig('roundtrip', 'np.asarray'),
                            'np.asarray(x) copied')
        ad2 = desc.get('as_dtype')
        if ad2 is not None and np.can_cast(dtype, ad2, 'same_kind'):
            conv = np.asarray(e, dtype=ad2)
            if conv.dtype != np.dtype(ad2) or not _same(
                    conv, expected.astype(ad2)):
                raise Violation(sig('value', '__array__dtype'),
                                'np.asarray(x, dtype={})'.format(ad2))
    else:
        e2 = space.element(e.asarray())
        if not _same(e2.asarray(), expected):
            raise Violation(sig('roundtrip'), 'element(asarray()) differs')

    # asarray(out=)
    out = _sentinel(shape, dtype, desc.get('out_order', 'C'))
    res = e.asarray(out=out)
    if res is not out:
        raise Violation(sig('asarray-out', 'identity'),
                        'asarray(out=) returned another object')
    if not _same(out, expected):
        raise Violation(sig('asarray-out', 'value'), _diff_text(out,
                                                                expected))
    size = int(np.prod(shape, dtype=int))
    return Outcome('ok', strata=strata, nontrivial=size >= 2)


REQUIRED_STRATA = [
    'kind:tensor', 'kind:discr', 'kind:pspace', 'kind:prodspace',
    'method:__call__', 'method:reduce', 'method:accumulate', 'method:outer',
    'method:at', 'method:reduceat', 'method:legacy', 'method:legacy_red',
    'method:wrap', 'nin1nout2', 'nin2nout1', 'nin2nout2', 'extra-ufunc',
    'weight:none', 'weight:const', 'weight:array',
    'axis:absent', 'axis:int', 'axis:neg', 'axis:tuple', 'axis:tuple-neg',
    'axis:none', 'axis:empty', 'kw:dtype', 'kw:keepdims',
    'out=none', 'out=elem', 'out=ndarray', 'out=tensor', 'out=x',
    'dt:same', 'dt:chg:b', 'dt:chg:f', 'dt:chg:c',
    'operand:elem@1', 'operand:elem@0', 'operand:ndarray@1',
    'operand:ndarray@0', 'operand:scalar@1', 'operand:scalar@0',
    'operand:elem2@1', 'operand:list@1',
    'result:scalar', 'result:wrapped', 'weighting:kept',
    'weighting:dropped', 'partition:reduced1of2', 'partition:reduced1of3',
    'partition:reduced2of3', 'np-rejects:odl-rejects',
    'rejected:discr-reduce-keepdims', 'rejected:discr-reduceat',
    'rejected:discr-outer-nonelement', 'shares-memory', 'layout:F',
    'layout=unaligned', 'layout:unaligned', 'values=special|tensor',
    'values=special|discr', 'values=special|pspace',
    'layout:strided', 'layout:rev', 'at:first', 'at:full',
]
