"""C18 - Fourier and wavelet transforms invert exactly and agree across
back-ends.

Five case kinds (``desc['kind']``):

``dft``    plain DFT, enumerated exhaustively (`enumerate_cases`): shape x
           ordered axes subset (non-negative / negative encoding) x halfcomplex
           x sign x dtype x impl x call style.  Oracle: ``numpy.fft`` on the
           same axes and a dense long-double DFT matrix (`vlib.ref.fft`),
           inverse through ``op.inverse`` and through a directly constructed
           ``DiscreteFourierTransformInverse`` of the same back-end, public
           inputs bit-identical after every call, second call on the same
           operator (plan reuse) with different data.
``ft``     continuous FT approximation, generated: per-axis shift, explicit
           temporaries, domains not centred at 0, axes subsets, exponents.
           Oracle: the dense matrix of the documented quadrature (exact
           transform of the nearest-neighbour interpolant on the documented
           reciprocal grid), round trip, adjoint == inverse for exponent 2.
``gauss``  convergence to the analytic transform of a Gaussian under grid
           refinement (ratio per 2x refinement and an absolute bound).
``grid``   ``reciprocal_grid`` against the documented formula and
           ``realspace_grid(reciprocal_grid(g)) == g``.
``hist``   call histories on one DFT / FT operator (forward and inverse
           classes, both signs): init_fftw_plan, clear_fftw_plan, calls
           out-of-place / with out=, inputs and outputs in C, Fortran and
           strided layout, create / clear temporaries; the value clause is
           evaluated after every call.
``wav``    wavelet transforms: differential against direct PyWavelets calls,
           inverse on arbitrary coefficient vectors, round trip relative to
           PyWavelets' own round-trip error, Gram adjoint identity and norm
           preservation in the configuration where the adjoint is exact.
"""
import fnmatch
import itertools
import math
import os
import traceback
import zlib

import numpy as np
from hypothesis import strategies as st

from vlib import build, flat, strategies as vs
from vlib.core import (Violation, Outcome, HarnessError, import_odl,
                       odl_root, VERIF_DIR)
from vlib.ref import fft as R

odl = import_odl()
import pywt  # noqa: E402
try:
    import pyfftw  # noqa: E402
except ImportError:  # pragma: no cover
    pyfftw = None
from odl.trafos import (  # noqa: E402
    DiscreteFourierTransform, DiscreteFourierTransformInverse,
    FourierTransform, FourierTransformInverse, WaveletTransform,
    WaveletTransformInverse)
from odl.trafos.util import reciprocal_grid, realspace_grid  # noqa: E402
from odl.operator import OpNotImplementedError  # noqa: E402

PROPERTY = 'C18'
TECHNIQUE = ('exhaustive enumeration of the small DFT configuration space '
             'plus Hypothesis-generated FT / wavelet / grid cases against '
             'independent references (numpy.fft, dense long-double DFT and '
             'quadrature matrices, analytic Gaussian, direct PyWavelets '
             'calls); Gram-matrix adjoint identity; descriptor replay')
LEVEL_TEXT = ('The plain DFT is decided exhaustively on a bounded '
              'configuration space (every shape with sides in {1,2,3,4,5,8} '
              'up to a product bound, every ordered axes subset, both '
              'encodings of the axes, halfcomplex, sign, four dtypes, both '
              'back-ends, three call styles) against numpy.fft and a dense '
              'DFT matrix; the continuous transform, the reciprocal grids '
              'and the wavelet transforms are explored by generated cases '
              'against dense references written from the documentation. '
              'Exhaustive for the listed finite DFT sub-space (for the '
              'seeded input of each configuration), exploration elsewhere.')
LEVEL_NOTE = ('Trusted: NumPy (incl. numpy.fft as one of two DFT oracles), '
              'long-double arithmetic, PyWavelets as the differential '
              'reference of the wavelet mechanism ODL adds (flattening, '
              'slicing, cropping, adjoint scaling), Hypothesis, vlib.flat '
              '(Gram matrices through the library inner product, pinned by '
              'C02). FFTW wisdom is cleared before every pyfftw case so that '
              'a case does not depend on the process history; pyfftw results '
              'are never bit-compared.')
DESIGN_REF = 'DESIGN.md section 5, C18'
BUDGET = {'quick': 3000, 'thorough': 30000}

TOLERANCES = {
    'dft': '|got-ref|_inf <= 32*eps(dtype)*max(1,log2 N)*||x||_2, N = product '
           'of the transformed sizes (forward, both references); inverse and '
           'round trip 2x that; back-end difference 2x that',
    'ft': '|got-ref|_inf <= 64*eps*(2+log2 N+sum_i max|x_i|*max|xi_i|)*K*'
          'sqrt(N)*||f||_2 with K = prod s_i/sqrt(2 pi) (FFT error bound '
          'plus rounding of the phase arguments); round trip: the same '
          'relative factor times 2*(pi/2)^naxes*||x||_2 (division by the '
          'sinc kernel >= 2/pi)',
    'ft_range_grid': '64*eps64*max|xi| per coordinate',
    'gauss': 'err(2n) <= 0.35*err(n) + 1e3*eps(dtype) on three levels; '
             'err(n) <= 1.05*s^2/(12 e a^2) + 1e-4 + 1e3*eps from the '
             'second level on (analytic bound of the sinc-kernel error); '
             'err = max|ft(g)-analytic|/a^d',
    'grid': '64*eps64*scale per coordinate (scale = max |coordinate|, '
            'stride)',
    'wavelet_value': '16*eps(dtype)*max|reference| against direct PyWavelets',
    'wavelet_roundtrip': 'err_odl <= 4*err_pywt + 64*eps(dtype)*max|x| '
                         '(err_pywt = PyWavelets own round-trip error on the '
                         'same data)',
    'wavelet_adjoint': 'Gram defect and norm defect <= 64*eps*dim + 4*delta, '
                       'delta = max|M^T M - I| of the PyWavelets matrix M of '
                       'the same configuration',
    'history': 'the dft / ft tolerances, after every call of the history',
    'inputs': 'bit-identical to pre-call copies',
    'floor': 'every value tolerance has the absolute floor 1e3*tiny(dtype) '
             '(subnormal range, FFTW may flush to zero)',
}
ASSUMPTIONS = [
    'element data is finite, seeded or explicit in the descriptor, |x| ~ 1',
    'DFT enumeration: one seeded input (and one derived second input) per '
    'configuration',
    'regions of recorded findings (real domains with an unshifted '
    'transformed axis, inverse of the real full DFT, length-1 axes with the '
    'default DFT range) are evaluated, not skipped; their failures carry '
    'region-specific signatures',
    'Gaussian cases: coarsest stride <= 1.3 a, half width >= 6 a + offset of '
    'the Gaussian centre, real domains only with shift=True',
    'call histories: real domains only with shift=True (FT) and not for the '
    'inverse of the real full DFT (recorded findings); init_fftw_plan / '
    'clear_fftw_plan on a NumPy-backed operator must raise ValueError '
    '(documented)',
    'wavelet adjoint identity only for orthogonal wavelets (dmey through the '
    'PyWavelets defect), pad_mode pywt_periodic, sizes divisible by '
    '2**nlevels',
    'FT adjoint: only "adjoint is the inverse for exponent 2" is asserted '
    '(the adjoint identity itself belongs to C05, F09)',
]
RULE = ('DFT: itertools enumeration of the finite configuration space, input '
        'data from a seed derived from the configuration; FT / gauss / grid '
        '/ wavelet / call-history: Hypothesis composite strategies that '
        'construct only admissible inputs (a history is a sequence of 2-6 '
        'operations from init_fftw_plan, clear_fftw_plan, call out-of-place '
        '/ with out= in C, Fortran or strided layout, create / clear '
        'temporaries on one operator of the four transform classes, value '
        'clause after every call). Non-trivial = any call history, or odd '
        'size in a transformed axis, or '
        'proper / permuted axes subset, or halfcomplex, or mixed per-axis '
        'shift, or pyfftw with out= / aliased out, or (wavelets) nlevels >= '
        '2 / odd size / axes subset / adjoint configuration; distinct by '
        'sha1 of the case descriptor')
EXHAUSTIVE = {
    'quick': ['plain DFT, every configuration as a forward case (values, '
              'two calls plus a third after init_fftw_plan() for pyfftw, '
              'input preservation, back-end difference) and as an inverse '
              'case (op.inverse, directly built inverse of the same back-end '
              'without and with init_fftw_plan(), round trip): 1-D sizes '
              '{1,2,3,4,5,8}; 2-D shapes '
              'over {1,2,3,4,5,8} with product <= 25; x all ordered non-empty '
              'axes subsets x halfcomplex x sign x {float32,float64,'
              'complex64,complex128} x {numpy,pyfftw} x {out-of-place, out=} '
              '(+ aliased out=x for complex domains)',
              'plain DFT 3-D: shapes over {2,3,4} with product <= 24 plus '
              '(1,3,4),(3,1,2),(2,5,2),(5,2,3): all ordered axes subsets x '
              'halfcomplex x sign x {float64,complex128} x impl, out=',
              'negative axes encodings: every (shape, ordered axes) above '
              'with all-negative axes x halfcomplex x sign x '
              '{float64,complex128}, back-end and forward/inverse part '
              'alternating',
              'reciprocal grids: 1-D sizes 2..9 and 2-D shapes over {2,3,4,5} '
              'x axes (None and every ordered subset) x shift patterns '
              '(scalar and mixed lists) x halfcomplex'],
    'thorough': ['plain DFT (forward and inverse case per configuration): '
                 'all shapes of 1-2 axes over {1,2,3,4,5,8} x all ordered '
                 'non-empty axes subsets x halfcomplex x sign x four dtypes x '
                 '{numpy,pyfftw} x {out-of-place, out=} (+ aliased out=x for '
                 'complex domains)',
                 'plain DFT 3-D: all shapes over {1,2,3,4,5,8} with product '
                 '<= 40 x all 15 ordered axes subsets x halfcomplex x sign x '
                 'four dtypes (float64/complex128 only for shapes with a '
                 'length-1 axis) x impl with out= (all call styles for the '
                 'shapes without a length-1 axis and product <= 16)',
                 'negative axes encodings: every (shape, ordered axes) with '
                 'all-negative axes x halfcomplex x sign x '
                 '{float64,complex128} (x impl x forward/inverse for 1-D, 2-D '
                 'and the small 3-D shapes, alternating otherwise)',
                 'reciprocal grids: 1-D sizes 2..9, 2-D shapes over '
                 '{1,2,3,4,5,8}, 3-D over {2,3} x axes x shift patterns x '
                 'halfcomplex'],
}


# --------------------------------------------------------------------------
# helpers

_KNOWN = None


def _known_patterns():
    """Signature patterns of recorded findings (only used to decide which of
    several failing clauses of one case is reported first, so that a fresh
    failure is never hidden behind a recorded one)."""
    global _KNOWN
    if _KNOWN is None:
        try:
            from vlib import runner
            _KNOWN = [p for e in runner.load_known(PROPERTY)
                      if e.get('status') == 'known'
                      for p in e.get('signatures', [])]
        except Exception:  # noqa
            _KNOWN = []
    return _KNOWN


class Fails(list):
    """Failed clauses of one case.  `finish` raises the first one that is
    not a recorded finding (so a fresh failure is never hidden behind a
    recorded one), else the first."""
    info = ''

    def add(self, sig, detail=''):
        self.append((sig, str(detail)[:600]))

    def finish(self):
        if not self:
            return
        pats = _known_patterns()
        for sig, det in self:
            if not any(fnmatch.fnmatchcase(sig, p) for p in pats):
                raise Violation(sig, det + self.info)
        raise Violation(self[0][0], self[0][1] + self.info)


def _where(exc):
    """'odl' if the innermost odl-or-harness frame of the traceback lies in
    the odl tree.  Frames with relative file names (Cython modules such as
    ``pyfftw/pyfftw.pyx``) are skipped: they are callees of odl code."""
    root = os.path.join(odl_root(), 'odl') + os.sep
    where = 'harness'
    for fr in traceback.extract_tb(exc.__traceback__):
        if not os.path.isabs(fr.filename):
            continue
        fn = os.path.abspath(fr.filename)
        if fn.startswith(root):
            where = 'odl'
        elif fn.startswith(VERIF_DIR + os.sep):
            where = 'harness'
    return where


def _try(fn, *args, **kwargs):
    """Call into ODL; ``(True, result)`` or ``(False, exception)``.
    Exceptions whose innermost frame is harness code propagate."""
    try:
        return True, fn(*args, **kwargs)
    except (KeyboardInterrupt, SystemExit, Violation, HarnessError):
        raise
    except Exception as e:  # noqa
        if _where(e) != 'odl':
            raise
        return False, e


def _exc(e):
    return '{}: {}'.format(type(e).__name__, str(e)[:200])


def _bits_equal(a, b):
    a = np.ascontiguousarray(a)
    b = np.ascontiguousarray(b)
    return a.shape == b.shape and a.dtype == b.dtype and \
        a.tobytes() == b.tobytes()


def _cdtype(dtype):
    return np.dtype({'float32': 'complex64', 'float64': 'complex128',
                     'complex64': 'complex64',
                     'complex128': 'complex128'}[np.dtype(dtype).name])


def _eps(dtype):
    return float(np.finfo(np.dtype(dtype)).eps)


def _floor(dtype):
    """Absolute floor of every tolerance: below ~1e3 * tiny(dtype) values
    are subnormal (or flushed to zero by FFTW) and carry no relative
    accuracy."""
    return 1e3 * float(np.finfo(np.dtype(dtype)).tiny)


def _maxerr(got, ref):
    got = np.asarray(got)
    d = np.abs(got.astype(np.clongdouble) - np.asarray(ref))
    if d.size == 0:
        return 0.0
    m = float(d.max())
    return m if m == m else float('inf')


def _forget_wisdom():
    if pyfftw is not None:
        pyfftw.forget_wisdom()


def _crc(*parts):
    return zlib.crc32('|'.join(str(p) for p in parts).encode()) & 0x7fffffff


def _data_desc(seed, shape, dtype):
    """Array descriptor: explicit values for <= 24 entries, else seeded."""
    shape = [int(s) for s in shape]
    size = int(np.prod(shape, dtype=int))
    dt = np.dtype(dtype)
    ad = {'dtype': dt.name, 'shape': shape, 'order': 'C'}
    if size <= vs.EXPLICIT_LIMIT:
        rng = np.random.RandomState(seed)
        re = np.round(rng.uniform(-2, 2, size), 2)
        if dt.kind == 'c':
            im = np.round(rng.uniform(-2, 2, size), 2)
            vals = [complex(a, b) for a, b in zip(re, im)]
        else:
            vals = [float(a) for a in re]
        ad['data'] = np.array(vals, dtype=object).reshape(shape).tolist() \
            if size else np.zeros(shape).tolist()
    else:
        ad['gen'] = {'seed': int(seed), 'scale': 1.0, 'kind': 'normal'}
    return ad


def _second_input(x):
    """A different input for the second call on the same operator."""
    return (np.roll(x.ravel(), 1).reshape(x.shape) * -0.5 + 0.25).astype(
        x.dtype)


def _axes_tuple(axes_arg, ndim):
    return R.norm_axes(axes_arg, ndim)


def _axes_kw(axes_arg):
    if axes_arg is None or isinstance(axes_arg, int):
        return axes_arg
    return tuple(int(a) for a in axes_arg)


# --------------------------------------------------------------------------
# plain DFT

DFT_MIN = [-1.0, 0.5, 2.0]
DFT_CELL = [0.5, 1.0, 0.25]


def _dft_region(real, hc, sign, impl, naxes, *extra):
    """Root-cause region of a plain-DFT failure (the sign, the dtype width
    and the shape go into the detail text, not into the signature)."""
    toks = ['dom=' + ('real' if real else 'complex'), 'hc=%d' % bool(hc),
            'impl=' + impl, 'naxes=' + ('1' if naxes == 1 else 'n')]
    return ','.join(toks + [e for e in extra if e])


def _dft_call(op, space_in, vals, style, nanfill=True):
    """One public call; returns (ok, result-or-exc, input element, pristine
    copy of the input values)."""
    xe = space_in.element(vals.copy())
    if style == 'oop':
        ok, y = _try(op, xe)
    elif style == 'out':
        out = op.range.element()
        if nanfill:
            out.asarray()[...] = np.nan
        ok, y = _try(op, xe, out=out)
        if ok and y is not out:
            return False, HarnessError('result is not out'), xe
    elif style == 'alias':
        ok, y = _try(op, xe, out=xe)
    else:
        raise HarnessError('style ' + style)
    return ok, y, xe


def _check_result(y, space, shape, dtype):
    if y not in space:
        return 'result not in range: {!r}'.format(type(y))
    arr = y.asarray()
    if arr.shape != tuple(shape) or arr.dtype != np.dtype(dtype):
        return 'result has {} {}, expected {} {}'.format(
            arr.shape, arr.dtype, tuple(shape), dtype)
    return None


def _run_dft(desc):
    shape = tuple(int(s) for s in desc['shape'])
    nd = len(shape)
    axes_arg = [int(a) for a in desc['axes']]
    axes = _axes_tuple(axes_arg, nd)
    dtype = np.dtype(desc['dtype'])
    cdt = _cdtype(dtype)
    real = dtype.kind == 'f'
    hc, sign, impl, style = (bool(desc['halfcomplex']), desc['sign'],
                             desc['impl'], desc['style'])
    part = desc.get('part', 'fwd')
    if part not in ('fwd', 'inv'):
        raise HarnessError('part ' + str(part))
    eff_hc = hc and real
    naxes = len(axes)
    eps = _eps(dtype)
    fails = Fails()
    fails.info = (' [{} shape={} axes={} sign={} halfcomplex={} style={}]'
                  ''.format(dtype.name, shape, axes_arg, sign, hc, style))
    if style == 'alias' and (real or hc):
        raise HarnessError('alias style needs a complex full transform')

    tsizes = [shape[a] for a in axes]
    len1_t = any(n == 1 for n in tsizes)
    len1_u = any(shape[i] == 1 for i in range(nd) if i not in axes)
    odd = any(n % 2 for n in tsizes if n > 1)
    permuted = list(axes) != sorted(axes)
    negative = any(a < 0 for a in axes_arg)
    region = _dft_region(real, hc, sign, impl, naxes)
    strata = ['dft:' + part, 'dft', 'dft:dtype=' + dtype.name,
              'dft:impl=' + impl, 'dft:style=' + style, 'dft:hc=%d' % hc,
              'dft:sign=' + sign,
              'dft:ndim=%d' % nd, 'dft:naxes=%d' % naxes]
    if odd:
        strata.append('dft:odd')
    if permuted:
        strata.append('dft:permuted-axes')
    if negative:
        strata.append('dft:negative-axes')
    if naxes < nd:
        strata.append('dft:axes-subset')

    dom = odl.uniform_discr(DFT_MIN[:nd],
                            [m + c * n for m, c, n in
                             zip(DFT_MIN, DFT_CELL, shape)],
                            shape, dtype=dtype)
    exp_shape = list(shape)
    if eff_hc:
        exp_shape[axes[-1]] = shape[axes[-1]] // 2 + 1
    exp_shape = tuple(exp_shape)

    if impl == 'pyfftw':
        _forget_wisdom()
    kwargs = dict(axes=_axes_kw(axes_arg), sign=sign, halfcomplex=hc,
                  impl=impl)
    if style == 'alias':
        kwargs['range'] = dom
    expect_reject = (eff_hc and sign == '+') or len1_t
    ok, op = _try(DiscreteFourierTransform, dom, **kwargs)
    if not ok:
        if isinstance(op, ValueError) and expect_reject:
            return Outcome('rejected', strata=[
                'dft:rejected:' + ('len1-transformed' if len1_t
                                   else 'sign+halfcomplex')])
        if isinstance(op, ValueError) and len1_u and style != 'alias':
            fails.add('C18|dft-ctor-raises|DiscreteFourierTransform|' +
                      region + ',len1-untransformed,default-range', _exc(op))
            # the transform itself can still be evaluated with an explicit
            # range
            rspace = odl.uniform_discr([0.0] * nd, [float(n) for n in
                                                    exp_shape],
                                       exp_shape, dtype=cdt)
            kwargs['range'] = rspace
            ok, op = _try(DiscreteFourierTransform, dom, **kwargs)
            if not ok:
                if isinstance(op, ValueError) and not real and hc:
                    fails.add('C18|dft-range|DiscreteFourierTransform|' +
                              region + ',explicit-range', _exc(op))
                else:
                    fails.add('C18|dft-ctor-raises|DiscreteFourierTransform|'
                              + region + ',explicit-range', _exc(op))
                fails.finish()
            strata.append('dft:len1-untransformed')
        else:
            raise Violation('C18|dft-ctor-raises|DiscreteFourierTransform|'
                            + region, _exc(op))
    elif eff_hc and sign == '+':
        raise Violation('C18|dft-missing-rejection|DiscreteFourierTransform|'
                        + region, 'sign + with halfcomplex was accepted')

    if op.range.shape != exp_shape or op.range.dtype != cdt:
        fails.add('C18|dft-range|DiscreteFourierTransform|' + region,
                  'range {} {} expected {} {} (domain {} {})'.format(
                      op.range.shape, op.range.dtype, exp_shape, cdt, shape,
                      dtype))
        fails.finish()

    x1 = build.array_values(desc['x'], dtype, shape)
    x2 = _second_input(x1)
    N = int(np.prod([n for n in tsizes], dtype=int))
    logn = max(1.0, math.log2(max(N, 1)))

    # ---- forward, two calls on the same operator --------------------------
    fwd_ok = True
    y_first = None
    if part == 'inv':
        # only needed for the round trip inverse(dft(x)); judged by the
        # 'fwd' twin of this configuration
        ok, y = _try(op, dom.element(x1.copy()))
        tol = 32 * eps * logn * float(np.linalg.norm(x1.ravel())) + \
            _floor(dtype)
        fwd_ok = bool(ok and _check_result(y, op.range, exp_shape, cdt)
                      is None and _maxerr(y.asarray(), R.numpy_dft(
                          x1, axes, sign, eff_hc)) <= tol)
        if fwd_ok:
            y_first = y.asarray().copy()
    calls = [(1, x1), (2, x2)] if part == 'fwd' else []
    if calls and impl == 'pyfftw':
        calls.append((3, x1))         # after init_fftw_plan()
    for call, x in calls:
        if call == 3:
            okp, e = _try(op.init_fftw_plan)
            if not okp:
                fails.add('C18|dft-call-crash|{}|{}'.format(
                    type(e).__name__, region + ',at=init_fftw_plan'), _exc(e))
                break
        ref_np = R.numpy_dft(x, axes, sign, eff_hc)
        ref_d = R.dense_dft(x, axes, sign, eff_hc)
        tol = 32 * eps * logn * float(np.linalg.norm(x.ravel())) + \
            _floor(dtype)
        if _maxerr(ref_np, ref_d) > 32 * _eps('float64') * logn * max(
                1.0, float(np.linalg.norm(x.ravel()))):
            raise HarnessError('numpy.fft and dense DFT disagree')
        reg = region + ',style={},call={}'.format(
            'alias' if style == 'alias' else 'plain',
            {1: 'first', 2: 'later', 3: 'planned'}[call])
        ok, y, xe = _dft_call(op, dom, x, style)
        if not ok:
            if isinstance(y, HarnessError):
                fails.add('C18|dft-out-identity|DiscreteFourierTransform|'
                          + reg, 'result is not the out element')
            else:
                fails.add('C18|dft-call-crash|{}|{}'.format(
                    type(y).__name__, reg), _exc(y))
            fwd_ok = False
            continue
        msg = _check_result(y, op.range, exp_shape, cdt)
        if msg:
            fails.add('C18|dft-result-type|DiscreteFourierTransform|' + reg,
                      msg)
            fwd_ok = False
            continue
        got = y.asarray()
        err = max(_maxerr(got, ref_d), _maxerr(got, ref_np))
        if not err <= tol:
            fails.add('C18|dft-value|DiscreteFourierTransform|' + reg,
                      'shape {} axes {}: max error {:.3g} > tol {:.3g} '
                      '(vs numpy.fft {:.3g}, vs dense {:.3g})'.format(
                          shape, axes_arg, err, tol, _maxerr(got, ref_np),
                          _maxerr(got, ref_d)))
            fwd_ok = False
        if style != 'alias' and not _bits_equal(xe.asarray(), x):
            fails.add('C18|input-modified|DiscreteFourierTransform|' + reg,
                      'input changed by {:.3g}'.format(
                          _maxerr(xe.asarray(), x)))
        if call == 1:
            y_first = got.copy()
        # back-end difference, asserted directly
        if impl == 'pyfftw' and call == 1:
            kw2 = dict(kwargs)
            kw2['impl'] = 'numpy'
            ok2, op_np = _try(DiscreteFourierTransform, dom, **kw2)
            y_np = None
            if ok2:
                ok2, y_np = _try(op_np, dom.element(x.copy()))
            if ok2:
                diff = _maxerr(got, y_np.asarray())
                if not diff <= 2 * tol:
                    fails.add('C18|dft-backend-diff|DiscreteFourierTransform|'
                              + reg, 'numpy vs pyfftw differ by {:.3g} > '
                              '{:.3g}'.format(diff, 2 * tol))
            # a failing numpy twin is reported by its own enumerated case

    # ---- inverse -----------------------------------------------------------
    inv_sign = '+' if sign == '-' else '-'
    yref = np.asarray(R.dense_dft(x1, axes, sign, eff_hc)).astype(cdt)
    tol_i = 64 * eps * logn * float(np.linalg.norm(x1.ravel())) + \
        _floor(dtype)
    lastpar = 'lastodd' if shape[axes[-1]] % 2 else 'lasteven'

    def check_inverse(inv, via, inv_impl, inv_style, planned=False):
        reg = region + ',via={},invimpl={},{}'.format(via, inv_impl, lastpar)
        if planned:
            reg += ',planned'
            okp, e = _try(inv.init_fftw_plan)
            if not okp:
                fails.add('C18|dft-inverse-raises|{}|{}'.format(
                    via, reg + ',at=init_fftw_plan'), _exc(e))
                return
        if inv.domain != op.range or inv.range != op.domain:
            fails.add('C18|dft-inverse-spaces|DiscreteFourierTransformInverse|'
                      + reg, 'inverse maps {!r} -> {!r}'.format(
                          inv.domain, inv.range))
            return
        for call, (xx, yy) in enumerate(((x1, yref),), 1):
            ye = inv.domain.element(yy.copy())
            if inv_style == 'out':
                out = inv.range.element()
                out.asarray()[...] = np.nan
                ok, r = _try(inv, ye, out=out)
                if ok and r is not out:
                    fails.add('C18|dft-out-identity|'
                              'DiscreteFourierTransformInverse|' + reg, '')
                    return
            else:
                ok, r = _try(inv, ye)
            if not ok:
                fails.add('C18|dft-inverse-raises|{}|{}'.format(via, reg),
                          _exc(r))
                return
            msg = _check_result(r, inv.range, shape, dtype)
            if msg:
                fails.add('C18|dft-result-type|'
                          'DiscreteFourierTransformInverse|' + reg, msg)
                return
            err = _maxerr(r.asarray(), xx)
            if not err <= tol_i:
                fails.add('C18|dft-inverse-value|'
                          'DiscreteFourierTransformInverse|' + reg,
                          'shape {} axes {}: inverse(spectrum) differs from '
                          'x by {:.3g} > {:.3g}'.format(shape, axes_arg, err,
                                                        tol_i))
            if not _bits_equal(ye.asarray(), yy):
                fails.add('C18|input-modified|DiscreteFourierTransformInverse|'
                          + reg, 'input of the inverse changed by {:.3g}'
                          ''.format(_maxerr(ye.asarray(), yy)))

    if part == 'inv':
        _forget_wisdom()      # op.inverse always uses the default back-end
        ok, inv = _try(lambda: op.inverse)
        if not ok:
            fails.add('C18|dft-inverse-raises|property|' + region +
                      ',at=construction', _exc(inv))
        else:
            check_inverse(inv, 'property', getattr(inv, 'impl', '?'),
                          'oop')
            # the round trip named by the property: inverse(dft(x)) == x
            if fwd_ok and y_first is not None:
                ok, r = _try(inv, op.range.element(y_first.copy()))
                if ok:
                    err = _maxerr(r.asarray(), x1)
                    if not err <= 2 * tol_i:
                        fails.add('C18|dft-roundtrip|DiscreteFourierTransform|'
                                  + region,
                                  'inverse(dft(x)) differs from x by {:.3g} > '
                                  '{:.3g}'.format(err, 2 * tol_i))
        ikw = dict(domain=op.range, axes=_axes_kw(axes_arg), sign=inv_sign,
                   halfcomplex=hc, impl=impl)
        ok, inv = _try(DiscreteFourierTransformInverse, dom, **ikw)
        if not ok:
            fails.add('C18|dft-inverse-raises|direct|' + region +
                      ',at=construction', _exc(inv))
        else:
            check_inverse(inv, 'direct', impl,
                          'out' if style in ('out', 'alias') else 'oop')
            if impl == 'pyfftw':
                check_inverse(inv, 'direct', impl,
                              'out' if style in ('out', 'alias') else 'oop',
                              planned=True)

    fails.finish()
    nontriv = bool(odd or naxes < nd or permuted or eff_hc or
                   (impl == 'pyfftw' and style != 'oop'))
    return Outcome('ok', strata=strata, nontrivial=nontriv)


# --------------------------------------------------------------------------
# continuous Fourier transform

def _grid_of(desc):
    """First node and stride per axis of ``uniform_discr(min, max, shape)``
    (cell-centred nodes), computed without ODL."""
    mn = np.asarray(desc['min'], dtype=float)
    mx = np.asarray(desc['max'], dtype=float)
    shape = np.asarray(desc['shape'], dtype=int)
    stride = (mx - mn) / shape
    return mn + stride / 2, stride


def _shift_list(shift_arg, naxes):
    if isinstance(shift_arg, (bool, np.bool_)):
        return [bool(shift_arg)] * naxes
    return [bool(s) for s in shift_arg]


def _ft_region(real, eff_hc, sign, impl, shifts, *extra):
    sh = 'shift=all' if all(shifts) else 'unshifted'
    toks = ['dom=' + ('real' if real else 'complex'), 'hc=%d' % bool(eff_hc),
            'impl=' + impl, sh]
    return ','.join(toks + [e for e in extra if e])


def _ft_tol(eps, shape, axes, x0, stride, coords, fnorm):
    """Absolute tolerance of the forward transform and the relative factor
    (see TOLERANCES['ft'])."""
    N = int(np.prod([shape[a] for a in axes], dtype=int))
    K = 1.0
    phase = 0.0
    for a in axes:
        K *= float(stride[a]) / math.sqrt(2 * math.pi)
        xmax = max(abs(float(x0[a])),
                   abs(float(x0[a] + (shape[a] - 1) * stride[a])))
        phase += xmax * float(np.max(np.abs(coords[a])))
    rel = 64 * eps * (2 + math.log2(max(N, 2)) + phase)
    return rel * K * math.sqrt(N) * fnorm, rel


def _run_ft(desc):
    shape = tuple(int(s) for s in desc['shape'])
    nd = len(shape)
    dtype = np.dtype(desc['dtype'])
    cdt = _cdtype(dtype)
    real = dtype.kind == 'f'
    eps = _eps(dtype)
    axes_arg = desc['axes']
    axes = _axes_tuple(axes_arg, nd)
    naxes = len(axes)
    shifts = _shift_list(desc['shift'], naxes)
    hc_arg = desc['halfcomplex']            # None = default (True)
    eff_hc = real and (hc_arg is None or bool(hc_arg))
    sign, impl, style, tmp = (desc['sign'], desc['impl'], desc['style'],
                              desc['tmp'])
    exponent = float(desc.get('exponent', 2.0))
    fails = Fails()
    fails.info = (' [{} shape={} axes={} shift={} sign={} halfcomplex={} '
                  'style={} tmp={} domain={}..{}]'.format(
                      dtype.name, shape, axes_arg, desc['shift'], sign,
                      hc_arg, style, tmp, desc['min'], desc['max']))
    region = _ft_region(real, eff_hc, sign, impl, shifts)
    tsizes = [shape[a] for a in axes]
    len1_t = any(n == 1 for n in tsizes)
    odd = any(n % 2 for n in tsizes)
    permuted = list(axes) != sorted(axes)
    strata = ['ft', 'ft:dtype=' + dtype.name, 'ft:impl=' + impl,
              'ft:style=' + style, 'ft:hc=%d' % eff_hc, 'ft:sign=' + sign,
              'ft:ndim=%d' % nd, 'ft:tmp=' + tmp,
              'ft:shift=' + ('all' if all(shifts) else
                             'none' if not any(shifts) else 'mixed')]
    if odd:
        strata.append('ft:odd')
    if permuted:
        strata.append('ft:permuted-axes')
    if naxes < nd:
        strata.append('ft:axes-subset')
    if exponent != 2.0:
        strata.append('ft:exponent!=2')
    if any(abs(a + b) > 1e-9 for a, b in zip(desc['min'], desc['max'])):
        strata.append('ft:off-centre-domain')

    skw = {} if exponent == 2.0 else {'exponent': exponent}
    dom = odl.uniform_discr(desc['min'], desc['max'], shape, dtype=dtype,
                            **skw)
    x0, stride = _grid_of(desc)
    exp_shape = list(shape)
    if eff_hc:
        exp_shape[axes[-1]] = shape[axes[-1]] // 2 + 1
    exp_shape = tuple(exp_shape)

    kwargs = dict(impl=impl, sign=sign)
    if axes_arg is not None:
        kwargs['axes'] = _axes_kw(axes_arg)
    if hc_arg is not None:
        kwargs['halfcomplex'] = bool(hc_arg)
    if desc['shift'] is not True or desc.get('shift_explicit'):
        kwargs['shift'] = desc['shift'] if isinstance(
            desc['shift'], bool) else [bool(s) for s in desc['shift']]
    tmp_r = tmp_f = None
    if tmp in ('r', 'rf'):
        tmp_r = np.full(shape, np.nan, dtype=dtype)
        kwargs['tmp_r'] = tmp_r
    if tmp in ('f', 'rf'):
        tmp_f = np.full(exp_shape, np.nan, dtype=cdt)
        kwargs['tmp_f'] = tmp_f

    if impl == 'pyfftw':
        _forget_wisdom()
    expect_reject = None
    if eff_hc and sign == '+':
        expect_reject = 'sign+halfcomplex'
    elif eff_hc and not shifts[-1]:
        expect_reject = 'halfcomplex-unshifted-last'
    elif len1_t:
        expect_reject = 'len1-transformed'
    ok, op = _try(FourierTransform, dom, **kwargs)
    if not ok:
        if isinstance(op, ValueError) and expect_reject:
            return Outcome('rejected',
                           strata=['ft:rejected:' + expect_reject])
        raise Violation('C18|ft-ctor-raises|FourierTransform|' + region,
                        _exc(op))
    if expect_reject in ('sign+halfcomplex', 'halfcomplex-unshifted-last'):
        raise Violation('C18|ft-missing-rejection|FourierTransform|' + region
                        + ',' + expect_reject, 'documented rejection missing')
    if tmp == 'create':
        op.create_temporaries()

    # ---- range: shape, dtype, exponent, reciprocal grid -------------------
    if op.range.shape != exp_shape or op.range.dtype != cdt:
        raise Violation('C18|ft-range|FourierTransform|' + region,
                        'range {} {} expected {} {}'.format(
                            op.range.shape, op.range.dtype, exp_shape, cdt))
    x1 = build.array_values(desc['x'], dtype, shape)
    ref, coords = R.dense_ft(x1, x0, stride, axes, shifts, sign, eff_hc)
    par = 'odd' if shape[axes[-1]] % 2 else 'even'
    for i, a in enumerate(axes):
        got = np.asarray(op.range.grid.coord_vectors[a])
        want = np.asarray(coords[a], dtype=float)
        scale = float(np.max(np.abs(want))) + float(
            2 * np.pi / (stride[a] * shape[a]))
        if got.shape != want.shape or not np.all(
                np.abs(got - want) <= 64 * _eps('float64') * scale):
            fails.add('C18|ft-range-grid|reciprocal_space|shift={},n={},'
                      'hc={}'.format(int(shifts[i]),
                                     'odd' if shape[a] % 2 else 'even',
                                     int(eff_hc and i == naxes - 1)),
                      'axis {}: reciprocal coordinates {} expected {}'.format(
                          a, got, want))
    for a in range(nd):
        if a not in axes:
            got = np.asarray(op.range.grid.coord_vectors[a])
            want = x0[a] + stride[a] * np.arange(shape[a])
            if got.shape != want.shape or not np.allclose(
                    got, want, rtol=1e-12, atol=1e-12):
                fails.add('C18|ft-range-grid|reciprocal_space|untransformed',
                          'axis {} changed'.format(a))

    # ---- forward (two calls, stale temporaries) ---------------------------
    x2 = _second_input(x1)
    y_first = None
    fwd_ok = True
    rel = None
    for call, x in ((1, x1), (2, x2)):
        if call == 2:
            ref, _ = R.dense_ft(x, x0, stride, axes, shifts, sign, eff_hc)
            for t in (tmp_r, tmp_f):
                if t is not None:
                    t[...] = np.nan
        tol, rel = _ft_tol(eps, shape, axes, x0, stride, coords,
                           float(np.linalg.norm(x.ravel())))
        tol += _floor(dtype)
        reg = region
        ok, y, xe = _dft_call(op, dom, x, style)
        if not ok:
            if isinstance(y, HarnessError):
                fails.add('C18|ft-out-identity|FourierTransform|' + reg, '')
            else:
                fails.add('C18|ft-call-crash|{}|{}'.format(
                    type(y).__name__, reg), _exc(y))
            fwd_ok = False
            continue
        msg = _check_result(y, op.range, exp_shape, cdt)
        if msg:
            fails.add('C18|ft-result-type|FourierTransform|' + reg, msg)
            fwd_ok = False
            continue
        got = y.asarray()
        err = _maxerr(got, ref)
        if not err <= tol:
            fails.add('C18|ft-value|FourierTransform|' + reg,
                      'shape {} axes {} shift {}: max error {:.3g} > tol '
                      '{:.3g}'.format(shape, axes_arg, shifts, err, tol))
            fwd_ok = False
        if not _bits_equal(xe.asarray(), x):
            fails.add('C18|input-modified|FourierTransform|' + reg,
                      'input changed by {:.3g}'.format(
                          _maxerr(xe.asarray(), x)))
        if call == 1:
            y_first = got.copy()
            if impl == 'pyfftw':
                kw2 = {k: v for k, v in kwargs.items()
                       if k not in ('tmp_r', 'tmp_f')}
                kw2['impl'] = 'numpy'
                ok2, op_np = _try(FourierTransform, dom, **kw2)
                if ok2:
                    ok2, y_np = _try(op_np, dom.element(x.copy()))
                if ok2:
                    diff = _maxerr(got, y_np.asarray())
                    if not diff <= 2 * tol:
                        fails.add('C18|ft-backend-diff|FourierTransform|'
                                  + reg, 'numpy vs pyfftw differ by {:.3g}'
                                  ''.format(diff))

    # ---- inverse: round trip and inverse of the reference spectrum --------
    ref1, _ = R.dense_ft(x1, x0, stride, axes, shifts, sign, eff_hc)
    yref = np.asarray(ref1).astype(cdt)
    tol_rt = max(rel or 0.0, 64 * eps) * 2 * (math.pi / 2) ** naxes * float(
        np.linalg.norm(x1.ravel())) + _floor(dtype)
    ok, inv = _try(lambda: op.inverse)
    adj_y = None
    if not ok:
        fails.add('C18|ft-inverse-crash|{}|{}'.format(
            type(inv).__name__, region + ',at=construction'), _exc(inv))
    else:
        if not isinstance(inv, FourierTransformInverse) or \
                inv.domain != op.range or inv.range != op.domain:
            fails.add('C18|ft-inverse-spaces|FourierTransformInverse|'
                      + region, repr(inv))
        else:
            for name, yy in (('roundtrip', y_first if fwd_ok else None),
                             ('refspectrum', yref)):
                if yy is None:
                    continue
                for t in (tmp_r, tmp_f):
                    if t is not None:
                        t[...] = np.nan
                ye = inv.domain.element(yy.copy())
                if style == 'out':
                    out = inv.range.element()
                    out.asarray()[...] = np.nan
                    ok, r = _try(inv, ye, out=out)
                else:
                    ok, r = _try(inv, ye)
                reg = region
                if not ok:
                    fails.add('C18|ft-inverse-crash|{}|{}'.format(
                        type(r).__name__, reg), _exc(r))
                    continue
                msg = _check_result(r, inv.range, shape, dtype)
                if msg:
                    fails.add('C18|ft-result-type|FourierTransformInverse|'
                              + reg, msg)
                    continue
                err = _maxerr(r.asarray(), x1)
                if not err <= tol_rt:
                    fails.add('C18|ft-{}|FourierTransformInverse|{}'.format(
                        'roundtrip' if name == 'roundtrip' else
                        'inverse-value', reg),
                        'shape {} axes {} shift {}: inverse differs from x '
                        'by {:.3g} > {:.3g}'.format(shape, axes_arg, shifts,
                                                    err, tol_rt))
                if not _bits_equal(ye.asarray(), yy):
                    fails.add('C18|input-modified|FourierTransformInverse|'
                              + reg, 'input of the inverse changed by {:.3g}'
                              ''.format(_maxerr(ye.asarray(), yy)))
                if name == 'refspectrum':
                    adj_y = r.asarray().copy()

    # ---- adjoint is the inverse for exponent 2 ----------------------------
    ok, adj = _try(lambda: op.adjoint)
    if exponent == 2.0:
        if not ok:
            fails.add('C18|ft-adjoint-raises|FourierTransform|' + region,
                      _exc(adj))
        elif not isinstance(adj, FourierTransformInverse) or \
                adj.domain != op.range or adj.range != op.domain:
            fails.add('C18|ft-adjoint-spaces|FourierTransform|' + region,
                      repr(adj))
        elif adj_y is not None:
            ok, r = _try(adj, adj.domain.element(yref.copy()))
            if not ok:
                fails.add('C18|ft-adjoint-raises|FourierTransform|' + region
                          + ',at=call', _exc(r))
            elif not _maxerr(r.asarray(), adj_y) <= tol_rt:
                fails.add('C18|ft-adjoint-vs-inverse|FourierTransform|'
                          + region, 'adjoint(y) differs from inverse(y) by '
                          '{:.3g}'.format(_maxerr(r.asarray(), adj_y)))
        strata.append('ft:adjoint-is-inverse')
    else:
        if not ok and isinstance(adj, NotImplementedError):
            strata.append('ft:adjoint-unavailable(exponent)')
        elif not ok:
            fails.add('C18|ft-adjoint-raises|FourierTransform|' + region +
                      ',exponent!=2', _exc(adj))

    fails.finish()
    mixed = any(shifts) and not all(shifts)
    nontriv = bool(odd or naxes < nd or permuted or eff_hc or mixed or
                   (impl == 'pyfftw' and style == 'out') or tmp != 'none')
    return Outcome('ok', strata=strata, nontrivial=nontriv)


# --------------------------------------------------------------------------
# call histories on one operator

def _layout(vals, layout):
    """Array with the given values in C / Fortran / strided memory layout."""
    if layout == 'C' or vals.ndim == 0:
        return np.ascontiguousarray(vals)
    if layout == 'F':
        return np.asfortranarray(vals)
    if layout == 'strided':
        big = np.zeros(tuple(2 * n for n in vals.shape), dtype=vals.dtype)
        view = big[tuple(slice(None, None, 2) for _ in vals.shape)]
        view[...] = vals
        return view
    raise HarnessError('layout ' + str(layout))


def _run_hist(desc):
    cls = desc['cls']                       # dft | idft | ft | ift
    shape = tuple(int(n) for n in desc['shape'])
    nd = len(shape)
    dtype = np.dtype(desc['dtype'])
    cdt = _cdtype(dtype)
    real = dtype.kind == 'f'
    eps = _eps(dtype)
    axes_arg = desc['axes']
    axes = _axes_tuple(axes_arg, nd)
    naxes = len(axes)
    hc = bool(desc['halfcomplex'])
    eff_hc = hc and real
    sign, impl = desc['sign'], desc['impl']
    inverse = cls in ('idft', 'ift')
    is_ft = cls in ('ft', 'ift')
    fwd_sign = ('-' if sign == '+' else '+') if inverse else sign
    nondefault = sign != ('+' if inverse else '-')
    shifts = _shift_list(desc.get('shift', True), naxes)
    klass = {'dft': 'DiscreteFourierTransform',
             'idft': 'DiscreteFourierTransformInverse',
             'ft': 'FourierTransform', 'ift': 'FourierTransformInverse'}[cls]
    fails = Fails()
    fails.info = (' [{} {} shape={} axes={} sign={} halfcomplex={} shift={} '
                  'ops={}]'.format(klass, dtype.name, shape, axes_arg, sign,
                                   hc, desc.get('shift'),
                                   [o['op'] + (':' + o.get('xlayout', '') +
                                               '/' + o.get('style', '')
                                               if o['op'] == 'call' else '')
                                    for o in desc['ops']]))
    base = 'dom={},hc={},impl={}'.format('real' if real else 'complex',
                                         int(eff_hc), impl)
    if is_ft and not all(shifts):
        base += ',unshifted'

    if is_ft:
        dom = odl.uniform_discr(desc['min'], desc['max'], shape, dtype=dtype)
        x0, stride = _grid_of(desc)
        kw = dict(impl=impl, axes=_axes_kw(axes_arg), sign=sign,
                  halfcomplex=hc, shift=[bool(b) for b in shifts])
        ctor = FourierTransformInverse if inverse else FourierTransform
    else:
        dom = odl.uniform_discr(DFT_MIN[:nd],
                                [m + c * n for m, c, n in
                                 zip(DFT_MIN, DFT_CELL, shape)],
                                shape, dtype=dtype)
        kw = dict(impl=impl, axes=_axes_kw(axes_arg), sign=sign,
                  halfcomplex=hc)
        ctor = DiscreteFourierTransformInverse if inverse else \
            DiscreteFourierTransform
    if impl == 'pyfftw':
        _forget_wisdom()
    ok, op = _try(ctor, dom, **kw)
    if not ok:
        raise Violation('C18|hist-ctor-raises|{}|{}'.format(klass, base),
                        _exc(op) + fails.info)
    fspace = op.domain if inverse else op.range     # frequency side
    exp_fshape = list(shape)
    if eff_hc:
        exp_fshape[axes[-1]] = shape[axes[-1]] // 2 + 1
    if fspace.shape != tuple(exp_fshape) or fspace.dtype != cdt:
        raise Violation('C18|hist-range|{}|{}'.format(klass, base),
                        'frequency space {!r}'.format(fspace) + fails.info)

    def reference(x):
        if is_ft:
            ref, coords = R.dense_ft(x, x0, stride, axes, shifts, fwd_sign,
                                     eff_hc)
            tol, rel = _ft_tol(eps, shape, axes, x0, stride, coords,
                               float(np.linalg.norm(x.ravel())))
            tol_inv = max(rel, 64 * eps) * 2 * (math.pi / 2) ** naxes * \
                float(np.linalg.norm(x.ravel()))
        else:
            ref = R.dense_dft(x, axes, fwd_sign, eff_hc)
            N = int(np.prod([shape[a] for a in axes], dtype=int))
            tol = 32 * eps * max(1.0, math.log2(max(N, 1))) * float(
                np.linalg.norm(x.ravel()))
            tol_inv = 2 * tol
        return np.asarray(ref), tol + _floor(dtype), tol_inv + _floor(dtype)

    strata = ['hist', 'hist:cls=' + cls, 'hist:impl=' + impl,
              'hist:dtype=' + dtype.name, 'hist:hc=%d' % eff_hc]
    if nondefault:
        strata.append('hist:sign=nondefault')
    planned = False
    ncalls = 0
    for i, o in enumerate(desc['ops']):
        kind = o['op']
        if kind in ('init', 'clear'):
            if kind == 'init':
                okp, e = _try(op.init_fftw_plan, o.get('effort', 'measure'))
            else:
                okp, e = _try(op.clear_fftw_plan)
            if impl != 'pyfftw':
                # documented: ValueError without the pyfftw back-end
                if okp or not isinstance(e, ValueError):
                    fails.add('C18|hist-plan-numpy|{}|{}'.format(klass, base),
                              '{}_fftw_plan on a NumPy-backed operator: {}'
                              ''.format(kind, 'no error' if okp else _exc(e)))
                strata.append('history:plan-refused(numpy)')
                continue
            if not okp:
                fails.add('C18|hist-plan-crash|{}|{},op={}'.format(
                    type(e).__name__, base, kind), klass + ': ' + _exc(e))
                break
            planned = kind == 'init'
            strata.append('history:init-plan' if kind == 'init'
                          else 'history:clear-plan')
            continue
        if kind in ('mktmp', 'rmtmp'):
            if kind == 'mktmp':
                okp, e = _try(op.create_temporaries, bool(o.get('r', True)),
                              bool(o.get('f', True)))
            else:
                okp, e = _try(op.clear_temporaries)
            if not okp:
                fails.add('C18|hist-tmp-crash|{}|{}'.format(
                    type(e).__name__, base), klass + ': ' + _exc(e))
                break
            strata.append('history:' + ('create-temporaries'
                                        if kind == 'mktmp'
                                        else 'clear-temporaries'))
            continue
        if kind != 'call':
            raise HarnessError('op ' + str(kind))
        # ---- one evaluation ------------------------------------------------
        ncalls += 1
        rng = np.random.RandomState((int(desc['seed']) + 7919 * i) %
                                    (2 ** 32))
        x = rng.standard_normal(shape)
        if not real:
            x = x + 1j * rng.standard_normal(shape)
        x = x.astype(dtype)
        ref, tol, tol_inv = reference(x)
        if inverse:
            inp, want, tl = ref.astype(cdt), x, tol_inv
        else:
            inp, want, tl = x, ref, tol
        xl, ol = o.get('xlayout', 'C'), o.get('olayout', 'C')
        arr_in = _layout(inp, xl)
        xe = op.domain.element(arr_in)
        if o.get('style', 'oop') == 'out':
            oarr = _layout(np.full(op.range.shape, np.nan,
                                   dtype=op.range.dtype), ol)
            out = op.range.element(oarr)
            okc, y = _try(op, xe, out=out)
            if okc and y is not out:
                fails.add('C18|hist-out-identity|{}|{}'.format(klass, base),
                          '')
                break
        else:
            ol = 'C'
            okc, y = _try(op, xe)
        changed = xl != 'C' or ol != 'C'
        if changed:
            strata.append('history:layout-change')
        state = 'planned' if planned else ('layout' if changed else 'plain')
        reg = '{},state={}'.format(base, state)
        where = 'op {} ({}, in={}, out={})'.format(
            i, o.get('style', 'oop'), xl, ol)
        if not okc:
            fails.add('C18|hist-call-crash|{}|{}'.format(
                type(y).__name__, reg), '{} {}: {}'.format(klass, where,
                                                           _exc(y)))
            break
        msg = _check_result(y, op.range, op.range.shape, op.range.dtype)
        if msg:
            fails.add('C18|hist-result-type|{}|{}'.format(klass, reg), msg)
            break
        err = _maxerr(y.asarray(), want)
        if not err <= tl:
            fails.add('C18|hist-value|{}|{}'.format(klass, reg),
                      '{}: max error {:.3g} > tol {:.3g}'.format(where, err,
                                                                 tl))
        if not _bits_equal(xe.asarray(), inp):
            fails.add('C18|input-modified|{}|{}'.format(klass, reg),
                      '{}: input changed by {:.3g}'.format(
                          where, _maxerr(xe.asarray(), inp)))
    fails.finish()
    if ncalls == 0:
        return Outcome('trivial', strata=strata)
    return Outcome('ok', strata=strata, nontrivial=True)


# --------------------------------------------------------------------------
# Gaussian convergence

def _run_gauss(desc):
    d = int(desc['ndim'])
    dtype = np.dtype(desc['dtype'])
    real = dtype.kind == 'f'
    a = float(desc['width'])
    sign, impl = desc['sign'], desc['impl']
    shifts = _shift_list(desc['shift'], d)
    hc_arg = desc['halfcomplex']
    eff_hc = real and bool(hc_arg)
    levels = int(desc.get('levels', 3))
    eps = _eps(dtype)
    region = _ft_region(real, eff_hc, sign, impl, shifts)
    errs, strides = [], []
    for lev in range(levels):
        shape = [int(n) * 2 ** lev for n in desc['n0']]
        sub = {'min': [c - L for c, L in zip(desc['dom_center'],
                                             desc['half_width'])],
               'max': [c + L for c, L in zip(desc['dom_center'],
                                             desc['half_width'])],
               'shape': shape}
        x0, stride = _grid_of(sub)
        dom = odl.uniform_discr(sub['min'], sub['max'], shape, dtype=dtype)
        if impl == 'pyfftw':
            _forget_wisdom()
        ok, op = _try(FourierTransform, dom, impl=impl, sign=sign,
                      halfcomplex=bool(hc_arg), shift=shifts)
        if not ok:
            raise Violation('C18|ft-ctor-raises|FourierTransform|' + region,
                            _exc(op))
        xc = [x0[i] + stride[i] * np.arange(shape[i]) for i in range(d)]
        f = R.gaussian(xc, desc['g_center'], a).astype(dtype)
        ok, y = _try(op, dom.element(f))
        if not ok:
            raise Violation('C18|ft-call-crash|{}|{}'.format(
                type(y).__name__, region + ',gauss'), _exc(y))
        rc = [np.asarray(R.recip_coords(shape[i], stride[i], shifts[i],
                                        eff_hc and i == d - 1), dtype=float)
              for i in range(d)]
        want = R.gaussian_ft(rc, desc['g_center'], a, sign)
        got = y.asarray()
        if got.shape != want.shape:
            raise Violation('C18|ft-range|FourierTransform|' + region,
                            'shape {} expected {}'.format(got.shape,
                                                          want.shape))
        errs.append(float(np.max(np.abs(got - want))) / a ** d)
        strides.append(float(np.max(stride)))
    floor = 1e3 * eps
    detail = 'errors {} strides {} (a={}, n0={}, shift={})'.format(
        ['%.3g' % e for e in errs], ['%.3g' % s for s in strides], a,
        desc['n0'], shifts)
    for lev in range(1, levels):
        if not errs[lev] <= 0.35 * errs[lev - 1] + floor:
            raise Violation('C18|gauss-convergence|FourierTransform|'
                            + region, detail)
        bound = 1.05 * strides[lev] ** 2 / (12 * math.e * a * a) + 1e-4 + \
            floor
        if not errs[lev] <= bound:
            raise Violation('C18|gauss-accuracy|FourierTransform|' + region,
                            detail + ' bound {:.3g}'.format(bound))
    strata = ['gauss', 'gauss:ndim=%d' % d, 'gauss:dtype=' + dtype.name,
              'gauss:impl=' + impl, 'gauss:sign=' + sign,
              'gauss:hc=%d' % eff_hc,
              'gauss:shift=' + ('all' if all(shifts) else
                                'none' if not any(shifts) else 'mixed')]
    return Outcome('ok', strata=strata, nontrivial=True)


# --------------------------------------------------------------------------
# reciprocal grids

def _run_grid(desc):
    shape = tuple(int(s) for s in desc['shape'])
    nd = len(shape)
    x0 = np.asarray(desc['x0'], dtype=float)
    stride = np.asarray(desc['stride'], dtype=float)
    axes_arg = desc['axes']
    axes = _axes_tuple(axes_arg, nd)
    shifts = _shift_list(desc['shift'], len(axes))
    hc = bool(desc['halfcomplex'])
    xmax = x0 + (np.asarray(shape) - 1) * stride
    grid = odl.uniform_grid(x0, xmax, shape)
    kw = dict(shift=desc['shift'] if isinstance(desc['shift'], bool)
              else [bool(s) for s in desc['shift']], halfcomplex=hc)
    if axes_arg is not None:
        kw['axes'] = _axes_kw(axes_arg)
    ok, rg = _try(reciprocal_grid, grid, **kw)
    last = axes[-1]
    reg = 'hc={},lastn={},lastshift={}'.format(
        int(hc), 'odd' if shape[last] % 2 else 'even', int(shifts[-1]))
    if not ok:
        raise Violation('C18|grid-crash|reciprocal_grid|' + reg, _exc(rg))
    fails = Fails()
    for i, a in enumerate(axes):
        want = np.asarray(R.recip_coords(shape[a], stride[a], shifts[i],
                                         hc and i == len(axes) - 1),
                          dtype=float)
        got = np.asarray(rg.coord_vectors[a])
        scale = float(np.max(np.abs(want))) + float(
            2 * np.pi / (stride[a] * shape[a]))
        if got.shape != want.shape or not np.all(
                np.abs(got - want) <= 64 * _eps('float64') * scale):
            fails.add('C18|grid-coords|reciprocal_grid|shift={},n={},hc={}'
                      ''.format(int(shifts[i]),
                                'odd' if shape[a] % 2 else 'even',
                                int(hc and i == len(axes) - 1)),
                      'axis {} (n={}, s={}): {} expected {}'.format(
                          a, shape[a], stride[a], got, want))
    for a in range(nd):
        if a not in axes:
            got = np.asarray(rg.coord_vectors[a])
            want = np.asarray(grid.coord_vectors[a])
            if got.shape != want.shape or not np.array_equal(got, want):
                fails.add('C18|grid-coords|reciprocal_grid|untransformed',
                          'axis {} changed'.format(a))
    fails.finish()
    kw2 = dict(halfcomplex=hc,
               halfcx_parity='odd' if shape[last] % 2 else 'even')
    if axes_arg is not None:
        kw2['axes'] = _axes_kw(axes_arg)
    ok, back = _try(realspace_grid, rg, x0, **kw2)
    if not ok:
        raise Violation('C18|grid-crash|realspace_grid|' + reg, _exc(back))
    if back.shape != shape:
        raise Violation('C18|grid-roundtrip|realspace_grid|' + reg,
                        'shape {} expected {}'.format(back.shape, shape))
    for a in range(nd):
        got = np.asarray(back.coord_vectors[a])
        want = np.asarray(grid.coord_vectors[a])
        scale = float(np.max(np.abs(want))) + float(stride[a])
        if not np.all(np.abs(got - want) <= 64 * _eps('float64') * scale *
                      max(1, shape[a])):
            raise Violation('C18|grid-roundtrip|realspace_grid|' + reg,
                            'axis {}: {} expected {}'.format(a, got, want))
    strata = ['grid', 'grid:' + reg, 'grid:ndim=%d' % nd,
              'grid:shift=' + ('all' if all(shifts) else
                               'none' if not any(shifts) else 'mixed')]
    return Outcome('ok', strata=strata, nontrivial=True)


# --------------------------------------------------------------------------
# wavelets

# the table of the WaveletTransform docstring (ODL name -> PyWavelets name);
# the docstring's 'pywt_per' is a typo for the accepted 'pywt_periodic'
PAD_MODES = {'symmetric': 'symmetric', 'reflect': 'reflect',
             'order1': 'smooth', 'order0': 'constant', 'constant': 'zero',
             'periodic': 'periodic', 'pywt_periodic': 'periodization',
             'antisymmetric': 'antisymmetric', 'antireflect': 'antireflect'}
WAVELET_FAMILIES = ['haar', 'db', 'sym', 'coif', 'bior', 'rbio', 'dmey']
FAMILY_REPRESENTATIVES = {'haar': ['haar'], 'db': ['db2', 'db4'],
                          'sym': ['sym3', 'sym5'], 'coif': ['coif1', 'coif2'],
                          'bior': ['bior2.2', 'bior1.3', 'bior3.1'],
                          'rbio': ['rbio2.4', 'rbio3.1'], 'dmey': ['dmey']}
PYWT_PRECONDITIONS = ('Input data length must be greater than 1',
                      'must be greater than', 'Length of data must be')


def _crop(arr, shape):
    """Documented cropping: reconstruction may be one sample longer per
    transformed axis (odd sizes); drop the last sample."""
    if arr.shape == tuple(shape):
        return arr
    if any(n not in (m, m + 1) for n, m in zip(arr.shape, shape)):
        raise HarnessError('PyWavelets reconstruction {} vs {}'.format(
            arr.shape, shape))
    return arr[tuple(slice(0, m) for m in shape)]


def _wav_matrix(fn, n_in, shape_in, dtype):
    """Real matrix of a linear array->flat-array function (real dtypes)."""
    cols = []
    for k in range(n_in):
        e = np.zeros(n_in, dtype=dtype)
        e[k] = 1
        cols.append(np.asarray(fn(e.reshape(shape_in))).ravel())
    return np.array(cols).T


def _run_wav(desc):
    shape = tuple(int(s) for s in desc['shape'])
    nd = len(shape)
    dtype = np.dtype(desc['dtype'])
    eps = _eps(dtype)
    wname = desc['wavelet']
    nlev_arg = desc['nlevels']
    mode = desc['pad_mode']
    axes_arg = desc['axes']
    axes = _axes_tuple(axes_arg, nd)
    pw_mode = PAD_MODES[mode]
    wav = pywt.Wavelet(wname)
    level = int(nlev_arg) if nlev_arg is not None else \
        pywt.dwtn_max_level(shape, wav, axes)
    tsizes = [shape[a] for a in axes]
    family = wav.short_family_name
    region = '{},{},{}'.format(
        'orthogonal' if wav.orthogonal else 'biorthogonal',
        'odd' if any(n % 2 for n in tsizes) else 'even',
        'axes-subset' if len(axes) < nd else 'all-axes')
    info = ' [{} {} nlevels={} shape={} axes={}]'.format(
        wname, mode, nlev_arg, shape, axes_arg)
    fails = Fails()
    fails.info = info
    strata = ['wav', 'wav:family=' + family, 'wav:mode=' + mode,
              'wav:dtype=' + dtype.name, 'wav:ndim=%d' % nd,
              'wav:naxes=%d' % len(axes),
              'wav:levels=' + ('default' if nlev_arg is None else
                               str(min(level, 3)) + ('+' if level >= 3
                                                     else ''))]
    if any(n % 2 for n in tsizes):
        strata.append('wav:odd')
    if len(axes) < nd:
        strata.append('wav:axes-subset')
    if level == 0:
        strata.append('wav:level0')

    space = odl.uniform_discr(desc['min'], desc['max'], shape, dtype=dtype)
    kw = dict(pad_mode=mode)
    if nlev_arg is not None:
        kw['nlevels'] = int(nlev_arg)
    if axes_arg is not None:
        kw['axes'] = _axes_kw(axes_arg)
    x = build.array_values(desc['x'], dtype, shape)

    # direct PyWavelets reference (raises for PyWavelets' own preconditions)
    try:
        coeffs = pywt.wavedecn(x, wav, mode=pw_mode, level=level, axes=axes)
        cref, slices, cshapes = pywt.ravel_coeffs(coeffs, axes=axes)
        rec_pw = pywt.waverecn(coeffs, wav, mode=pw_mode, axes=axes)
    except ValueError as e:
        if any(m in str(e) for m in PYWT_PRECONDITIONS):
            ok, W = _try(WaveletTransform, space, wname, **kw)
            if ok:
                ok, _ = _try(W, space.element(x.copy()))
            if ok:
                raise Violation('C18|wav-missing-rejection|WaveletTransform|'
                                + region, 'PyWavelets rejects the input: '
                                + str(e))
            return Outcome('rejected', strata=['wav:rejected:pywt'])
        raise
    rec_pw = _crop(rec_pw, shape)
    err_pw = _maxerr(rec_pw, x)

    ok, W = _try(WaveletTransform, space, wname, **kw)
    if not ok:
        raise Violation('C18|wav-ctor-raises|WaveletTransform|' + region,
                        _exc(W))
    if W.range.size != cref.size or W.range.dtype != dtype:
        raise Violation('C18|wav-range|WaveletTransform|' + region,
                        'range {!r}, PyWavelets gives {} coefficients'.format(
                            W.range, cref.size))
    # (1) forward values
    xe = space.element(x.copy())
    ok, c = _try(W, xe)
    if not ok:
        raise Violation('C18|wav-call-crash|{}|{}'.format(
            type(c).__name__, region), _exc(c))
    scale_c = float(np.max(np.abs(cref))) if cref.size else 0.0
    if c not in W.range or not _maxerr(c.asarray(), cref) <= \
            16 * eps * scale_c + _floor(dtype):
        fails.add('C18|wav-value|WaveletTransform|' + region,
                  'coefficients differ from pywt.wavedecn+ravel_coeffs by '
                  '{:.3g}'.format(_maxerr(c.asarray(), cref)))
    if not _bits_equal(xe.asarray(), x):
        fails.add('C18|input-modified|WaveletTransform|' + region, '')

    # (2) inverse on an arbitrary coefficient vector
    ok, Winv = _try(lambda: W.inverse)
    if not ok or not isinstance(Winv, WaveletTransformInverse) or \
            Winv.domain != W.range or Winv.range != W.domain:
        fails.add('C18|wav-inverse-spaces|WaveletTransform|' + region,
                  _exc(Winv) if not ok else repr(Winv))
        fails.finish()
    rng = np.random.RandomState(int(desc['c_seed']))
    cv = rng.uniform(-1, 1, cref.size)
    if dtype.kind == 'c':
        cv = cv + 1j * rng.uniform(-1, 1, cref.size)
    cv = cv.astype(dtype)
    want = _crop(pywt.waverecn(
        pywt.unravel_coeffs(cv, slices, cshapes, output_format='wavedecn'),
        wav, mode=pw_mode, axes=axes), shape)
    ce = Winv.domain.element(cv.copy())
    ok, r = _try(Winv, ce)
    if not ok:
        fails.add('C18|wav-inverse-crash|{}|{}'.format(
            type(r).__name__, region), _exc(r))
    else:
        if r not in space or not _maxerr(r.asarray(), want) <= \
                16 * eps * (float(np.max(np.abs(want))) + 1.0):
            fails.add('C18|wav-inverse-value|WaveletTransformInverse|'
                      + region, 'differs from unravel+waverecn+crop by '
                      '{:.3g}'.format(_maxerr(r.asarray(), want)))
        if not _bits_equal(ce.asarray(), cv):
            fails.add('C18|input-modified|WaveletTransformInverse|' + region,
                      '')
    # (3) round trip relative to PyWavelets' own
    ok, r = _try(Winv, c)
    if not ok:
        fails.add('C18|wav-inverse-crash|{}|{}'.format(
            type(r).__name__, region + ',roundtrip'), _exc(r))
    else:
        err = _maxerr(r.asarray(), x)
        tol = 4 * err_pw + 64 * eps * float(np.max(np.abs(x))) + \
            _floor(dtype)
        if not err <= tol:
            fails.add('C18|wav-roundtrip|WaveletTransform|' + region,
                      'W.inverse(W(x)) differs from x by {:.3g}; PyWavelets '
                      'own round trip {:.3g}'.format(err, err_pw))

    # (4) adjoint
    exact = (wav.orthogonal and mode == 'pywt_periodic' and level >= 1 and
             all(n % (2 ** level) == 0 for n in tsizes))
    for op_, cls in ((W, 'WaveletTransform'),
                     (Winv, 'WaveletTransformInverse')):
        if bool(op_.is_orthogonal) != bool(wav.orthogonal) or \
                bool(op_.is_biorthogonal) != bool(wav.biorthogonal):
            fails.add('C18|wav-orthogonality-flag|{}|{}'.format(cls, region),
                      'is_orthogonal={} is_biorthogonal={} but pywt.Wavelet '
                      'says {} / {}'.format(op_.is_orthogonal,
                                            op_.is_biorthogonal,
                                            wav.orthogonal, wav.biorthogonal))
    ok, adj = _try(lambda: W.adjoint)
    if not wav.orthogonal:
        # documented: OpNotImplementedError if not orthogonal
        for op_, cls in ((W, 'WaveletTransform'),
                         (Winv, 'WaveletTransformInverse')):
            oka, a = (ok, adj) if op_ is W else _try(lambda: Winv.adjoint)
            if not oka and isinstance(a, (OpNotImplementedError,
                                          NotImplementedError)):
                continue
            if not oka:
                fails.add('C18|wav-adjoint-raises|{}|{}'.format(cls, region),
                          _exc(a))
                continue
            msg = 'an adjoint is offered for a non-orthogonal wavelet'
            if space.size <= 64 and dtype.kind == 'f':
                okd, res = _try(flat.adjoint_defect, op_, a)
                msg += '; its Gram defect is {}'.format(
                    '{:.3g}'.format(res[0]) if okd else _exc(res))
            fails.add('C18|wav-adjoint-offered|{}|{}'.format(cls, region),
                      msg)
        if not fails:
            strata.append('wav:adjoint-unavailable(biorthogonal)')
    elif not ok:
        fails.add('C18|wav-adjoint-raises|WaveletTransform|' + region,
                  _exc(adj))
    elif exact and desc.get('adjoint') and dtype.kind == 'f' and \
            space.size <= 64:
        n = space.size
        M = _wav_matrix(lambda arr: pywt.ravel_coeffs(pywt.wavedecn(
            arr, wav, mode=pw_mode, level=level, axes=axes), axes=axes)[0],
            n, shape, 'float64')
        delta = float(np.max(np.abs(M.T @ M - np.eye(n))))
        tol = 64 * eps * n + 4 * delta
        areg = region + ',exact-config'
        okd, res = _try(flat.adjoint_defect, W, adj)
        if not okd:
            fails.add('C18|wav-adjoint-crash|{}|{}'.format(
                type(res).__name__, areg), _exc(res))
        elif not res[0] <= tol:
            fails.add('C18|wav-adjoint|WaveletTransform|' + areg,
                      'Gram defect {:.3g} > {:.3g} (cell volume {:.4g})'
                      ''.format(res[0], tol, float(space.cell_volume)))
        ok2, adj2 = _try(lambda: Winv.adjoint)
        if not ok2:
            fails.add('C18|wav-adjoint-raises|WaveletTransformInverse|'
                      + areg, _exc(adj2))
        else:
            okd, res = _try(flat.adjoint_defect, Winv, adj2)
            if not okd:
                fails.add('C18|wav-adjoint-crash|{}|{}'.format(
                    type(res).__name__, areg + ',inverse'), _exc(res))
            elif not res[0] <= tol:
                fails.add('C18|wav-adjoint|WaveletTransformInverse|' + areg,
                          'Gram defect {:.3g} > {:.3g} (cell volume {:.4g})'
                          ''.format(res[0], tol, float(space.cell_volume)))
        nx = float(np.linalg.norm(x.ravel()))
        nc = float(np.linalg.norm(np.asarray(c.asarray()).ravel()))
        if not abs(nc - nx) <= tol * nx + _floor(dtype):
            fails.add('C18|wav-norm|WaveletTransform|' + areg,
                      '||Wx||_2 = {!r} but ||x||_2 = {!r}'.format(nc, nx))
        strata.append('wav:adjoint-gram')
    elif exact:
        strata.append('wav:exact-config')

    fails.finish()
    nontriv = bool(level >= 2 or any(n % 2 for n in tsizes) or
                   len(axes) < nd or 'wav:adjoint-gram' in strata or
                   mode != 'constant')
    return Outcome('ok', strata=strata, nontrivial=nontriv)


# --------------------------------------------------------------------------
# dispatcher

def run_case(desc):
    kind = desc['kind']
    if kind == 'dft':
        return _run_dft(desc)
    if kind == 'ft':
        return _run_ft(desc)
    if kind == 'gauss':
        return _run_gauss(desc)
    if kind == 'grid':
        return _run_grid(desc)
    if kind == 'wav':
        return _run_wav(desc)
    if kind == 'hist':
        return _run_hist(desc)
    raise HarnessError('unknown kind {!r}'.format(kind))


# --------------------------------------------------------------------------
# exhaustive sub-spaces

SIZES = (1, 2, 3, 4, 5, 8)
QUICK_3D_EXTRA = [(1, 3, 4), (3, 1, 2), (2, 5, 2), (5, 2, 3)]


def _ordered_subsets(nd):
    out = []
    for r in range(1, nd + 1):
        out.extend(itertools.permutations(range(nd), r))
    return out


def _dft_shapes(tier):
    """[(shape, full)] - ``full``: all dtypes and call styles."""
    shapes = [((n,), True) for n in SIZES]
    lim2 = 25 if tier == 'quick' else 64
    shapes += [(s, True) for s in itertools.product(SIZES, repeat=2)
               if s[0] * s[1] <= lim2]
    if tier == 'quick':
        s3 = [s for s in itertools.product((2, 3, 4), repeat=3)
              if s[0] * s[1] * s[2] <= 24] + QUICK_3D_EXTRA
        shapes += [(s, False) for s in s3]
    else:
        for s in itertools.product(SIZES, repeat=3):
            p = s[0] * s[1] * s[2]
            if p <= 40:
                shapes.append((s, p <= 16 and 1 not in s))
    return shapes


def _dft_desc(shape, axes, hc, sign, dtype, impl, style, part='fwd'):
    seed = _crc('dft', shape, axes, hc, sign, dtype)
    if len(shape) == 3:
        x = {'dtype': dtype, 'shape': list(shape), 'order': 'C',
             'gen': {'seed': seed, 'scale': 1.0, 'kind': 'normal'}}
    else:
        x = _data_desc(seed, shape, dtype)
    return {'kind': 'dft', 'part': part, 'shape': list(shape),
            'axes': list(axes), 'halfcomplex': hc, 'sign': sign,
            'dtype': dtype, 'impl': impl, 'style': style, 'x': x}


def _enumerate_dft(tier):
    all_dtypes = ['float32', 'float64', 'complex64', 'complex128']
    for shape, full in _dft_shapes(tier):
        nd = len(shape)
        for axes in _ordered_subsets(nd):
            dtypes = all_dtypes if (full or (tier == 'thorough' and
                                            1 not in shape)) else \
                ['float64', 'complex128']
            for hc, sign, dtype, impl in itertools.product(
                    (False, True), '-+', dtypes, ('numpy', 'pyfftw')):
                styles = ['oop', 'out'] if full else ['out']
                for style in styles:
                    yield _dft_desc(shape, axes, hc, sign, dtype, impl,
                                    style, 'fwd')
                    yield _dft_desc(shape, axes, hc, sign, dtype, impl,
                                    style, 'inv')
                if full and dtype.startswith('c') and not hc:
                    yield _dft_desc(shape, axes, hc, sign, dtype, impl,
                                    'alias', 'fwd')
            # the same axes written with negative indices
            neg = tuple(a - nd for a in axes)
            for hc, sign, dtype, impl in itertools.product(
                    (False, True), '-+', ('float64', 'complex128'),
                    ('numpy', 'pyfftw')):
                h = _crc('neg', shape, axes, hc, sign, dtype)
                if tier == 'quick' or not full:
                    if h % 2 != (impl == 'pyfftw'):
                        continue
                    yield _dft_desc(shape, neg, hc, sign, dtype, impl, 'oop',
                                    'fwd' if (h // 2) % 2 else 'inv')
                else:
                    yield _dft_desc(shape, neg, hc, sign, dtype, impl, 'oop',
                                    'fwd')
                    yield _dft_desc(shape, neg, hc, sign, dtype, impl, 'oop',
                                    'inv')


def _enumerate_grid(tier):
    shapes = [(n,) for n in range(2, 10)]
    if tier == 'quick':
        shapes += list(itertools.product((2, 3, 4, 5), repeat=2))
    else:
        shapes += list(itertools.product(SIZES, repeat=2))
        shapes += list(itertools.product((2, 3), repeat=3))
    for shape in shapes:
        nd = len(shape)
        for axes in [None] + _ordered_subsets(nd):
            ax = tuple(range(nd)) if axes is None else axes
            if any(shape[a] == 1 for a in ax):
                continue
            shift_opts = [True, False] + [
                list(p) for p in itertools.product((True, False),
                                                   repeat=len(ax))
                if len(ax) > 1 and 0 < sum(p) < len(ax)]
            for shift in shift_opts:
                for hc in (False, True):
                    seed = _crc('grid', shape, axes, shift, hc)
                    rng = np.random.RandomState(seed)
                    yield {'kind': 'grid', 'shape': list(shape),
                           'x0': [float(v) for v in
                                  np.round(rng.uniform(-3, 3, nd), 2)],
                           'stride': [float(v) for v in
                                      np.round(rng.uniform(0.2, 2, nd), 2)],
                           'axes': None if axes is None else list(axes),
                           'shift': shift, 'halfcomplex': hc}


def enumerate_cases(tier):
    return list(_enumerate_dft(tier)) + list(_enumerate_grid(tier))


# --------------------------------------------------------------------------
# generated cases

@st.composite
def _axes_descs(draw, nd, allow_none=True, allow_int=True, shape=None,
                min_size=1):
    """Axes argument: None, int, or a list (ordered subset, possibly with
    negative entries).  Axes whose size is < ``min_size`` are only drawn
    with small probability (documented rejection)."""
    if allow_none and draw(st.integers(0, 3)) == 0:
        return None
    cand = list(range(nd))
    if shape is not None and draw(st.integers(0, 15)) != 0:
        ok = [a for a in cand if shape[a] >= min_size]
        cand = ok or cand
    r = draw(st.integers(1, len(cand)))
    axes = list(draw(st.permutations(cand)))[:r]
    if draw(st.integers(0, 2)) == 0:
        axes = [a - nd if draw(st.booleans()) else a for a in axes]
    if allow_int and len(axes) == 1 and draw(st.booleans()):
        return int(axes[0])
    return [int(a) for a in axes]


@st.composite
def _domain(draw, shape):
    mins, maxs = [], []
    for n in shape:
        centred = draw(st.integers(0, 3)) == 0
        half = draw(st.sampled_from([1.0, 0.5, 2.0, 3.0, 10.0, 0.75]) |
                    st.floats(0.3, 12.0).map(vs._round))
        if centred:
            lo = -half
        else:
            lo = draw(st.sampled_from([0.0, -1.0, 1.0, 2.5, -7.0, 20.0]) |
                      st.floats(-20, 20).map(vs._round))
        mins.append(float(lo))
        maxs.append(float(lo + 2 * half))
    return mins, maxs


@st.composite
def _ft_case(draw):
    nd = draw(st.sampled_from([1, 1, 2, 2, 2, 3]))
    shape = []
    for _ in range(nd):
        shape.append(draw(st.sampled_from([2, 3, 4, 5, 6, 7, 8, 1, 9, 16])))
    while int(np.prod(shape)) > 200:
        shape[int(np.argmax(shape))] = 3
    dtype = draw(st.sampled_from(['float64', 'complex128', 'float64',
                                  'complex128', 'float32', 'complex64']))
    real = dtype.startswith('f')
    axes = draw(_axes_descs(nd, shape=shape, min_size=2))
    ax = R.norm_axes(axes, nd)
    sk = draw(st.sampled_from(['true', 'false', 'list', 'list', 'list',
                               'default']))
    if sk in ('true', 'default'):
        shift = True
    elif sk == 'false':
        shift = False
    else:
        shift = [draw(st.booleans()) for _ in ax]
    hc = draw(st.sampled_from([None, True, False, False]))
    if real and (hc is None or hc) and draw(st.integers(0, 7)) != 0:
        # mostly keep the halved axis shifted (otherwise documented
        # rejection)
        if isinstance(shift, list):
            shift[-1] = True
        elif shift is False:
            shift = True
    sign = draw(st.sampled_from(['-', '-', '+']))
    if real and (hc is None or hc) and draw(st.integers(0, 7)) != 0:
        sign = '-'
    mins, maxs = draw(_domain(shape))
    desc = {'kind': 'ft', 'shape': shape, 'min': mins, 'max': maxs,
            'dtype': dtype, 'axes': axes, 'shift': shift,
            'shift_explicit': sk != 'default', 'halfcomplex': hc,
            'sign': sign,
            'impl': draw(st.sampled_from(['numpy', 'pyfftw'])),
            'style': draw(st.sampled_from(['oop', 'out'])),
            'tmp': draw(st.sampled_from(['none', 'none', 'r', 'f', 'rf',
                                         'create'])),
            'exponent': draw(st.sampled_from([2.0] * 8 + [1.5, 1.0])),
            'x': draw(vs.array_descs(shape, dtype, orders=('C',), lo=-4,
                                     hi=4, scale=1.0))}
    return desc


@st.composite
def _gauss_case(draw, tier):
    d = draw(st.sampled_from([1, 1, 2, 2, 3]))
    a = draw(st.sampled_from([1.0, 0.5, 2.0, 1.3, 0.8]))
    dtype = draw(st.sampled_from(['float64', 'complex128', 'complex128',
                                  'float32', 'complex64']))
    real = dtype.startswith('f')
    n0, half, cdom, cg = [], [], [], []
    for _ in range(d):
        off = draw(st.sampled_from([0.0, 0.5, -1.0, 0.3])) * a
        L = (6.0 + draw(st.sampled_from([0.0, 1.0, 2.5, 4.0]))) * a + abs(off)
        ratio = draw(st.sampled_from([1.25, 1.0, 0.8, 1.1, 0.65]))  # s0/a
        n = int(math.ceil(2 * L / (ratio * a)))
        n += draw(st.integers(0, 1))
        if d == 3:
            n = min(n, 18)
            L = min(L, n * 1.3 * a / 2)
        c = draw(st.sampled_from([0.0, 0.0, 3.0, -12.5, 40.0]))
        n0.append(n)
        half.append(float(L))
        cdom.append(float(c))
        cg.append(float(c + off))
    if real:
        shift = True
        hc = draw(st.booleans())
        sign = '-' if hc else draw(st.sampled_from('-+'))
    else:
        shift = draw(st.sampled_from([True, False, 'mixed']))
        if shift == 'mixed':
            first = draw(st.booleans())
            shift = [bool((i % 2) ^ first) for i in range(d)] if d > 1 \
                else first
        hc = False
        sign = draw(st.sampled_from('-+'))
    return {'kind': 'gauss', 'ndim': d, 'width': a, 'dtype': dtype,
            'n0': n0, 'half_width': half, 'dom_center': cdom,
            'g_center': cg, 'shift': shift, 'halfcomplex': hc, 'sign': sign,
            'impl': draw(st.sampled_from(['numpy', 'pyfftw'])), 'levels': 3}


@st.composite
def _grid_case(draw):
    nd = draw(st.integers(1, 3))
    shape = [draw(st.integers(1, 12)) for _ in range(nd)]
    axes = draw(_axes_descs(nd, shape=shape, min_size=2))
    ax = R.norm_axes(axes, nd)
    for a in ax:
        if shape[a] < 2:
            shape[a] = 2 + draw(st.integers(0, 7))
    shift = draw(st.booleans() | st.lists(st.booleans(), min_size=len(ax),
                                          max_size=len(ax)))
    return {'kind': 'grid', 'shape': shape,
            'x0': [draw(st.sampled_from([0.0, -1.0, 0.5, 3.25]) |
                        st.floats(-50, 50).map(vs._round))
                   for _ in range(nd)],
            'stride': [draw(st.sampled_from([1.0, 0.5, 0.1, 2.0]) |
                            st.floats(0.01, 10).map(vs._round))
                       for _ in range(nd)],
            'axes': axes, 'shift': shift,
            'halfcomplex': draw(st.booleans())}


def _wavelets(tier):
    out = {}
    for fam in WAVELET_FAMILIES:
        if tier == 'quick':
            out[fam] = FAMILY_REPRESENTATIVES[fam]
        else:
            out[fam] = pywt.wavelist(fam, kind='discrete')
    return out


@st.composite
def _wav_case(draw, tier):
    fams = _wavelets(tier)
    stratum = draw(st.sampled_from(['any', 'any', 'any', 'exact']))
    if stratum == 'exact':
        fam = draw(st.sampled_from(['haar', 'db', 'sym', 'coif', 'dmey']))
    else:
        fam = draw(st.sampled_from(WAVELET_FAMILIES))
    wname = draw(st.sampled_from(fams[fam]))
    nd = draw(st.sampled_from([1, 1, 2, 2, 3]))
    axes = draw(_axes_descs(nd, allow_int=True))
    ax = R.norm_axes(axes, nd)
    dtype = draw(st.sampled_from(['float64', 'float64', 'float32',
                                  'complex128']))
    if stratum == 'exact':
        level = draw(st.sampled_from([1, 1, 2, 3]))
        budget = 64
        shape = [1] * nd
        for a in ax:
            mult = draw(st.sampled_from([1, 1, 2, 3]))
            shape[a] = 2 ** level * mult
        while int(np.prod(shape)) > budget and level > 1:
            level -= 1
            for a in ax:
                shape[a] = max(2 ** level, shape[a] // 2)
        for a in range(nd):
            if a not in ax:
                shape[a] = draw(st.sampled_from([1, 2, 3]))
        while int(np.prod(shape)) > budget:
            free = [a for a in range(nd) if a not in ax and shape[a] > 1]
            big = [a for a in ax if shape[a] > 2 ** level]
            if free:
                shape[max(free, key=lambda a: shape[a])] = 1
            elif big:
                shape[max(big, key=lambda a: shape[a])] = 2 ** level
            else:
                break
        mode = 'pywt_periodic'
        nlevels = level
        dtype = draw(st.sampled_from(['float64', 'float64', 'float32']))
    else:
        shape = [draw(st.sampled_from([2, 3, 4, 5, 6, 7, 8, 9, 12, 16, 17,
                                       1, 33])) for _ in range(nd)]
        while int(np.prod(shape)) > 600:
            shape[int(np.argmax(shape))] = 5
        mode = draw(st.sampled_from(sorted(PAD_MODES)))
        maxlev = pywt.dwtn_max_level(shape, pywt.Wavelet(wname), ax)
        nlevels = draw(st.sampled_from(
            [None, 1, 2] + list(range(1, max(1, maxlev) + 1))))
    # domain with a cell volume different from 1
    mins = [draw(st.sampled_from([0.0, -1.0, 2.0])) for _ in range(nd)]
    cell = [draw(st.sampled_from([0.5, 0.25, 2.0, 1.5, 0.1]))
            for _ in range(nd)]
    maxs = [m + c * n for m, c, n in zip(mins, cell, shape)]
    return {'kind': 'wav', 'shape': shape, 'min': mins, 'max': maxs,
            'dtype': dtype, 'wavelet': wname, 'nlevels': nlevels,
            'pad_mode': mode, 'axes': axes,
            'adjoint': stratum == 'exact',
            'c_seed': draw(st.integers(0, 2 ** 31 - 1)),
            'x': draw(vs.array_descs(shape, dtype, orders=('C',), lo=-4,
                                     hi=4, scale=1.0))}


@st.composite
def _hist_case(draw):
    cls = draw(st.sampled_from(['dft', 'idft', 'ft', 'ift']))
    is_ft = cls in ('ft', 'ift')
    inverse = cls in ('idft', 'ift')
    nd = draw(st.sampled_from([1, 2, 2, 3]))
    shape = [draw(st.sampled_from([2, 3, 4, 5, 6, 8])) for _ in range(nd)]
    while int(np.prod(shape)) > 130:
        shape[int(np.argmax(shape))] = 3
    axes = draw(_axes_descs(nd, allow_none=False, allow_int=False))
    mode = draw(st.sampled_from(['c2c', 'c2c', 'r2hc', 'r2c']))
    if mode == 'r2c' and cls == 'idft':
        mode = 'c2c'          # inverse of the real full DFT: recorded finding
    real = mode != 'c2c'
    dtype = draw(st.sampled_from(['float64', 'float32'] if real else
                                 ['complex128', 'complex64']))
    hc = mode == 'r2hc'
    default = '+' if inverse else '-'
    if hc:
        sign = default
    else:
        sign = draw(st.sampled_from([default, '+' if default == '-'
                                     else '-']))
    impl = draw(st.sampled_from(['pyfftw', 'pyfftw', 'pyfftw', 'numpy']))
    desc = {'kind': 'hist', 'cls': cls, 'shape': shape, 'dtype': dtype,
            'axes': axes, 'halfcomplex': hc, 'sign': sign, 'impl': impl,
            'seed': draw(st.integers(0, 2 ** 31 - 1))}
    if is_ft:
        mins, maxs = draw(_domain(shape))
        desc['min'], desc['max'] = mins, maxs
        if real:
            desc['shift'] = True
        else:
            desc['shift'] = draw(st.sampled_from([True, True, False]) |
                                 st.lists(st.booleans(), min_size=len(axes),
                                          max_size=len(axes)))
    ops = []
    kinds = ['call', 'call', 'call', 'init', 'init', 'clear']
    if is_ft:
        kinds += ['mktmp', 'rmtmp']
    for _ in range(draw(st.integers(2, 6))):
        k = draw(st.sampled_from(kinds))
        if k == 'call':
            o = {'op': 'call',
                 'style': draw(st.sampled_from(['oop', 'out'])),
                 'xlayout': draw(st.sampled_from(['C', 'C', 'F',
                                                  'strided']))}
            if o['style'] == 'out':
                o['olayout'] = draw(st.sampled_from(['C', 'C', 'F',
                                                     'strided']))
        elif k == 'init':
            o = {'op': 'init',
                 'effort': draw(st.sampled_from(['measure', 'estimate']))}
        elif k == 'mktmp':
            o = {'op': 'mktmp', 'r': draw(st.booleans()),
                 'f': draw(st.booleans())}
        else:
            o = {'op': k}
        ops.append(o)
    if not any(o['op'] == 'call' for o in ops):
        ops.append({'op': 'call', 'style': 'oop', 'xlayout': 'C'})
    desc['ops'] = ops
    return desc


def strategy(tier):
    return st.sampled_from(['ft'] * 9 + ['wav'] * 8 + ['gauss'] +
                           ['grid'] * 2 + ['hist'] * 6).flatmap(
        lambda k: {'ft': _ft_case(), 'wav': _wav_case(tier),
                   'gauss': _gauss_case(tier), 'grid': _grid_case(),
                   'hist': _hist_case()}[k])


REQUIRED_STRATA = [
    'dft', 'dft:fwd', 'dft:inv', 'ft', 'gauss', 'grid', 'wav', 'hist',
    'history:init-plan', 'history:clear-plan', 'history:layout-change',
    'hist:sign=nondefault', 'hist:cls=dft', 'hist:cls=idft', 'hist:cls=ft',
    'hist:cls=ift',
    'dft:impl=pyfftw',
    'dft:style=alias', 'dft:permuted-axes', 'dft:negative-axes', 'dft:odd',
    'ft:shift=mixed', 'ft:tmp=rf', 'ft:tmp=create', 'ft:impl=pyfftw',
    'ft:off-centre-domain', 'ft:hc=1', 'ft:adjoint-is-inverse',
    'gauss:ndim=3', 'wav:adjoint-gram', 'wav:odd', 'wav:axes-subset',
    'wav:adjoint-unavailable(biorthogonal)',
] + ['wav:family=' + f for f in WAVELET_FAMILIES] + \
    ['wav:mode=' + m for m in sorted(PAD_MODES)]
