"""C07 - a proximal operator returns the minimiser of f(z) + |z-x|^2/(2 sigma).

Generator: catalogue entry (every proximal factory of proximal_operators.py
called directly with its documented objective, every Functional class with a
proximal, `simple_functional` with user-supplied proximal factories) x
parameters x space (rn, const-/array-weighted rn, uniform_discr with/without
boundary nodes, weighted power / product spaces, matrix-valued power spaces;
for the objectives that are defined through the modulus |x_i| - norms, norm
balls, Huber, constants, IndicatorZero - also cn, weighted cn, complex
discretizations and product spaces of them, complex128 and complex64) x step
(scalar, element-valued, array-like, per-component list) x
derived-functional grammar (translation, argument scaling by a scalar / a
space element / a plain sequence, left scaling, quadratic perturbation,
+ constant, convex conjugate through Moreau, separable sums, Bregman
distances, composition with a scaled unitary operator), both through the
Functional API (operator syntax / methods and the class constructors) and
through the calculus rules of the factory module.
Oracle: strong-convexity optimality certificate evaluated on the independent
value reference ``vlib/ref/funcvalues.py``; feasibility on reference
constraint residuals; firm non-expansiveness; idempotence and step
independence of projections; documented rejections.
"""
import os

import numpy as np
from hypothesis import strategies as st

from vlib import build, flat, zoo_prox as zoo
from vlib.core import Violation, Outcome, HarnessError, crash_signature
from vlib.ref import funcvalues as R

PROPERTY = 'C07'
TECHNIQUE = ('Hypothesis property-based testing over a functional/proximal '
             'catalogue and a derived-functional grammar; strong-convexity '
             'optimality certificate against an independent NumPy value '
             'reference, scipy.optimize in dimension <= 4, firm '
             'non-expansiveness, projection idempotence; descriptor replay')
LEVEL_TEXT = ('Generated-input search: every proximal factory and every '
              'Functional class with a proximal is built on rn, weighted rn, '
              'uniform discretizations and product spaces (modulus-type '
              'objectives also on their complex counterparts) with scalar / '
              'element / list steps and wrapped by the calculus rules; the '
              'returned point p is certified by F(z) - F(p) >= |z-p|^2/(2 '
              'sigma) on ~100 probes z per case (perturbations at six scales, '
              'segments to x and to independent feasible points, retracted '
              'perturbations, a numerical minimiser in dimension <= 4) with '
              'f evaluated by a reference that never imports odl. '
              'Exploration, not proof: the certificate is necessary and '
              'sufficient for optimality only in the limit of all probes.')
LEVEL_NOTE = ('Trusted: NumPy/long double, scipy.optimize (probes only; any '
              'point it returns is just another probe), Hypothesis, '
              'vlib/build.py, vlib/flat.py, the value formulas in '
              'vlib/ref/funcvalues.py (cross-checked against the library '
              'values as a by-product, disagreements are counted in notes), '
              'the weighted norm of the reference (compared with space.norm '
              'in every case). Conjugates without closed form are certified '
              'through the exact Moreau reduction onto the primal.')
DESIGN_REF = 'DESIGN.md section 5, C07'
BUDGET = {'quick': 4600, 'thorough': 80000}
K_TOL = 1e3
EPS = float(np.finfo(float).eps)
TOLERANCES = {
    'certificate': 'gap = f(z) - f(p) + <z-p, p-x>_M  (M = W/sigma, equal to '
                   'F(z) - F(p) - |z-p|_M^2/2 without cancellation) >= '
                   '-1e3*eps*(1 + mag f(z) + mag f(p) + sum|terms of the '
                   'inner product| + (|z-p|_M + |p-x|_M)(|p|_M + |x|_M)); a '
                   'point p displaced by c*eps*|p| from the exact minimiser '
                   'changes the gap by at most that last product times '
                   'c*eps, plus osc = max|f(p+d) - f(p)| over displacements '
                   '|d|_inf <= 64 eps amb (covers kinks, where the slope of '
                   'f is not bounded by |x-p|/sigma) (|p|_M + |x|_M is '
                   'increased by amb*|1|_M when the '
                   'rule chain passes through points of magnitude amb > '
                   '|p|, |x|); mag = sum of '
                   'absolute values of the summed terms; the 1e3 absorbs the '
                   'deliberate 10*resolution(dtype) threshold shrink of '
                   'conj-L1, L2 and nuclear-norm proximals',
    'feasibility': 'reference constraint residual <= (16*n + 180)*eps*scale '
                   '(scale = largest magnitude met while the statement is '
                   'rewritten down to the leaves; 180 = four stacked '
                   'applications of the deliberate 10*resolution = 45 eps '
                   'shrink); IndicatorSimplex / '
                   'IndicatorSumConstraint additionally accept their '
                   'documented sum_rtol; probes count as feasible only '
                   'within 16*n*eps*(own magnitude)',
    'firm': '<px-py, x-y>_M - |px-py|_M^2 >= -1e3*eps*(1 + (|x|_M + |y|_M + '
            '|px|_M + |py|_M)^2)',
    'idempotence/step independence': 'max|a-b| <= 1e3*eps*max(1, sigma_eff)*'
                                     '(scale + |a|), sigma_eff = largest '
                                     'effective step along the rule chain '
                                     '(projections obtained through Moreau '
                                     'carry the absolute 10*resolution '
                                     'shrink times sigma)',
    'reference norm': '| |x|_ref - space.norm(x) | <= 64*eps*n*|x| (n = '
                      'real dimension; complex spaces: real-ified weights)',
}
ASSUMPTIONS = [
    'float64 / float32 / complex128 / complex64 spaces with exponent 2 (the '
    'proximal needs a Hilbert space), one dtype per product space; every '
    'tolerance is stated in eps(dtype) of the space under test',
    'complex spaces are real-ified ((re, im) pairs, each weight twice): '
    '|z - x|^2 is the squared norm of the complex space, |x_i| the modulus; '
    'generated there: objectives defined through the modulus only (1-, 2-, '
    'inf-norms and their balls, squared 2-norm, group norms / balls, Huber '
    'on scalar fields, constants, IndicatorZero, simple_functional), not '
    'the order-based ones (boxes, non-negativity, simplex, sum constraint, '
    'KL family) nor nuclear norms; rules: translation, real scalings, '
    'a |.|^2 (no linear term <., u>, whose documented value is not real '
    'there), + c, conjugation (Moreau in the real-ified space, i.e. the '
    'pairing Re <.,.>, the one under which the library\'s own explicit '
    'conjugates L1 <-> inf-ball, L2 <-> 2-ball hold), composition with a '
    'real multiple of the identity, separable sums; complex scalings only '
    'as the documented rejection; per-point steps are real positive '
    'elements (zero imaginary part)',
    'parameters inside the documented convex range (lam > 0, sigma > 0, '
    'gamma >= 0, a >= 0, positive priors); values outside are generated only '
    'as expected rejections',
    'x entries bounded by 210 (7*30); for exponential-type functionals '
    '(KL cross entropy and its conjugate) |x| <= 7, sigma >= 0.25, scalings '
    'in [0.5, 4], at most one calculus rule on top, so that '
    'exp(x/(sigma*lam)) does not overflow; the same narrow range for the '
    'KL family on float32 spaces, where the closed form (x - s + sqrt((x - '
    's)^2 + 4 s g))/2 cancels completely once |x|^2 eps32 > s g and '
    'returns the boundary point 0 (f = inf); exponential-type functionals '
    'on float32: |x| <= 5.25, sigma <= 7, scalings <= 2 (exp overflows at '
    '88)',
    'data entries are 0 or of magnitude >= 1e-30 (no subnormal-scale data: '
    'NuclearNorm.proximal takes 1/s of the singular values and returns NaN '
    'when that overflows)',
    'SeparableSum lives on the unweighted product of the summands domains; '
    'NuclearNorm on unweighted (base^m)^n with weighted base',
    'the value of a default convex conjugate is never needed: its proximal '
    'is certified through the Moreau identity on the primal functional; a '
    'linear/quadratic perturbation on top of a constraint set is certified '
    'after completing the square (exact identity), all other derived '
    'functionals on their own documented value',
    'firm non-expansiveness, idempotence and step independence are checked '
    'in the metric M = W/sigma of the step actually passed',
    'uniform_discr axes have >= 2 points (cell_sizes of one-point axes are '
    'documented as 0.0)',
]
RULE = ('Hypothesis draws (entry, parameters, space, rule chain, step, x, y, '
        'probe seed) from the catalogue in vlib/zoo_prox.py (complex leaves '
        'for about one case in five of the modulus-type entries); a fixed '
        'derandomised sweep adds >= 2 cases per (entry x space kind x '
        'weighting kind), per (modulus-type entry x space kind x complex '
        'leaf kind), per (entry x space kind x parameter class) cell, per '
        '(base x doubled rule) and per (factory with per-point steps x '
        'sequence scaling) cell; non-trivial = certificate evaluated on >= '
        '10 finite probes and p != x and p != 0 and dimension >= 2; '
        'distinct by sha1 of the case descriptor')
_SWEEP = ('derandomised sweep: {} cases for every cell (catalogue entry x '
          'admissible space kind x leaf kind in {{rn, const, array, discr, '
          'rn float32, discr float32}}), (modulus-type entry x space kind x '
          'leaf kind in {{cn, array-weighted cn, complex discr, cn '
          'complex64}}), (catalogue entry x space kind x parameter class), '
          '(7 bases x 5 doubled rules) and (4 factories x sequence scaling)')
EXHAUSTIVE = {'quick': [_SWEEP.format(2)], 'thorough': [_SWEEP.format(6)]}
STRICT = os.environ.get('C07_STRICT') == '1'

# --------------------------------------------------------------------------
# strategy

FUNC_RULES = ['translated', 'argscale', 'leftscale', 'quadpert', 'addconst',
              'conj', 'bregman']
FAC_RULES = ['translated', 'argscale', 'quadpert', 'conj', 'compose',
             'argscale_el']
BREGMAN_OK = ('L2NormSquared', 'L1Norm', 'L2Norm', 'Huber',
              'KullbackLeibler', 'LpNorm')
ZERO_SCALE_OK = ('f_l1', 'f_l2', 'f_l2sq', 'f_l1l2', 'f_linf', 'f_huber',
                 'f_cc_l2sq', 'f_const', 'L1Norm', 'L2Norm', 'L2NormSquared',
                 'GroupL1Norm', 'LpNorm', 'ConstantFunctional')
EXP_TYPE = ('f_cc_kl_ce', 'KullbackLeiblerCrossEntropy',
            'KullbackLeiblerCrossEntropyConvexConj')
KL_FAMILY = ('f_cc_kl', 'KullbackLeibler', 'KullbackLeiblerConvexConj')
LEAF_WKINDS = zoo.LEAF_KINDS


def _entry_strategy():
    pool = []
    for e in zoo.ENTRIES:
        pool.extend([e.name] * max(1, int(round(e.weight * 3))))
    return st.sampled_from(pool)


@st.composite
def _leaf_tree(draw, e, rsp, force=None):
    return {'t': 'leaf', 'name': e.name,
            'params': e.draw_params(draw, rsp, force)}


CHAIN_RULES = ('argscale', 'leftscale', 'translated', 'quadpert', 'conj')


@st.composite
def _wrap(draw, fd, e, rsp, mode, exp_type, el_ok, chain=None):
    """One rule applied to the tree ``fd`` (construct, never filter).
    ``chain``: apply this rule, with generic (non-unit, non-zero)
    parameters - used to build consecutive identical rules such as
    ``(f * a) * b`` literally."""
    n = rsp.size
    rules = FUNC_RULES if mode == 'functional' else FAC_RULES
    rule = chain or draw(st.sampled_from(rules))
    direct = fd['t'] == 'leaf'
    scal = (st.sampled_from([0.5, 2.0, -1.0, -2.0, -0.5, 1.0])
            if exp_type == 2 else
            st.sampled_from([0.5, 2.0, -1.0, -2.0, 4.0, -0.5, 1.0])
            if exp_type else zoo.SCALINGS)
    if rule == 'bregman':
        ok = (direct and e.name in BREGMAN_OK and
              not (e.name == 'LpNorm' and
                   fd['params']['p'] not in (1.0, 2.0)) and
              not (e.name == 'Huber' and (fd['params']['gamma'] <= 0 or
                                          rsp.parts is not None)))
        if not ok or exp_type:
            rule = 'translated'
    if rule == 'argscale_el' and not (direct and el_ok):
        rule = 'argscale'
    if rule == 'compose' and exp_type:
        rule = 'translated'
    # complex spaces: rules whose documented objective involves <x, u> (not
    # real-valued there) or a real matrix / element-wise scaling are not
    # generated; translation, real scalings, a |.|^2, + c, conjugation and
    # composition with a real multiple of the identity are
    cplx = rsp.cplx
    if cplx and rule == 'bregman':
        rule = 'translated'
    if cplx and rule == 'argscale_el':
        rule = 'argscale'
    # functional mode: operator syntax / method, or the class constructor
    via = ('class' if mode == 'functional' and
           draw(st.integers(0, 3)) == 0 else None)
    if rule == 'translated':
        node = {'t': 'translated', 'f': fd,
                'y': draw(zoo.vecs(n, scale=1.0))}
        if via:
            node['via'] = via
        return node
    if rule == 'argscale' and cplx and not chain and \
            not zoo.is_linear_tree(fd) and draw(st.integers(0, 5)) == 0:
        # complex scaling: documented as not supported (ValueError)
        return {'t': 'argscale', 'f': fd,
                's': {'re': draw(st.sampled_from([1.0, 0.0, -2.0])),
                      'im': draw(st.sampled_from([1.0, -0.5]))}}
    if rule == 'argscale':
        if chain:
            s = draw(st.sampled_from([0.5, 2.0, -2.0, -0.5] if exp_type
                                     else [0.5, 2.0, -2.0, 3.0, -0.5, 0.25,
                                           -1.5]))
        else:
            s = draw(scal)
            if (direct and e.name in ZERO_SCALE_OK and
                    not _has_rejection(fd) and draw(st.booleans())):
                s = 0.0
        node = {'t': 'argscale', 'f': fd, 's': s}
        if via and s != 0.0:
            node['via'] = via
        return node
    if rule == 'argscale_el':
        v = zoo.vec(draw(zoo.vecs(n, positive=True)), n)
        sign = zoo.vec(draw(zoo.vecs(n)), n)
        v = np.where(sign < 0, -v, v)
        node = {'t': 'argscale', 'f': fd,
                's': {'data': [float(t) for t in v]}}
        if rsp.parts is None and (chain or draw(st.booleans())):
            # a plain sequence of floats instead of a space element
            node['as'] = draw(st.sampled_from(['list', 'array']))
        return node
    if rule == 'leftscale':
        s = draw(st.sampled_from([0.5, 2.0, 3.0, 0.25, 1.0]) if exp_type
                 else zoo.pos_scalars())
        k = 5 if chain else draw(st.integers(0, 11))
        if chain and s == 1.0:
            s = 2.0
        if k == 0 and not zoo.contains_conj(fd):
            # (a negative factor is admissible for linear functionals, see
            # zoo.expected_rejection; behind a conjugate the linearity flag
            # of the library is not modelled)
            s = -s
        elif k == 1:
            s = 0.0
        node = {'t': 'leftscale', 'f': fd, 's': s}
        if via and s != 0.0:
            node['via'] = via
        return node
    if rule == 'quadpert':
        a = draw(st.sampled_from([0.5, 1.0, 3.0, 0.1] if chain else
                                 [0.0, 0.5, 1.0, 3.0, 0.1, 0.0]))
        if not chain and draw(st.integers(0, 11)) == 0:
            a = -1.0
        u = (draw(zoo.vecs(n, scale=0.2 if exp_type else 1.0))
             if draw(st.booleans()) else None)
        if cplx:
            u = None
        node = {'t': 'quadpert', 'f': fd, 'a': a, 'u': u}
        if mode == 'functional':
            node['c'] = draw(zoo.CONSTS)
        return node
    if rule == 'addconst':
        node = {'t': 'addconst', 'f': fd, 'c': draw(zoo.CONSTS)}
        if via:
            node['via'] = via
        return node
    if rule == 'conj':
        return {'t': 'conj', 'f': fd}
    if rule == 'bregman':
        return {'t': 'bregman', 'f': fd, 'point': draw(zoo.vecs(n)),
                'via': draw(st.sampled_from(['method', 'class']))}
    if rule == 'compose':
        plain = (rsp.parts is None and len(rsp.shape) == 1 and
                 rsp.leaf_kind() == 'unit' and rsp.sd['kind'] == 'tensor'
                 and not cplx)
        if plain and draw(st.booleans()):
            op = {'kind': 'orth', 'seed': draw(st.integers(0, 10 ** 6)),
                  'c': draw(st.sampled_from([1.0, 2.0, 0.5, -1.0, 3.0]))}
        else:
            op = {'kind': 'scaling',
                  's': draw(st.sampled_from([2.0, -1.0, 0.5, 3.0, -2.0]))}
        return {'t': 'compose', 'f': fd, 'op': op}
    raise HarnessError(rule)


def _has_rejection(fd):
    return zoo.expected_rejection(fd) is not None


@st.composite
def _sigma(draw, kinds, rsp, exp_type, nparts=None):
    kind = draw(st.sampled_from(list(kinds)))
    sig = (st.one_of(st.sampled_from([1.0, 0.5, 2.0, 0.25, 7.0]),
                     st.floats(0.25, 7.0 if exp_type == 2 else 50.0).map(
                         zoo._r32))
           if exp_type else zoo.SIGMAS)
    if kind == 'scalar':
        return {'kind': 'scalar', 'value': draw(sig)}
    if kind == 'list':
        return {'kind': 'list',
                'values': [draw(sig) for _ in range(nparts)]}
    # one positive step per point (entry) of the space
    return {'kind': kind, 'vec': draw(zoo.vecs(rsp.npoints, positive=True))}


def depth_ok_for_chain(fd, e, rsp, site):
    return not (_has_rejection(fd) or e.callable_only or
                zoo.known_region(site, rsp))


@st.composite
def _tree_on(draw, e, kind, sizes, wkinds=None, max_depth=3,
             force_depth=None, force=None, dtype=None, chain_rule=None):
    """(space descriptor, tree, mode, admissible sigma kinds).  ``wkinds``
    None = random leaf kind, else the forced kinds of the (first) leaf."""
    lk = wkinds or zoo.leaf_kinds_random(e)
    if kind == 'T':
        sd = draw(zoo.leaf_spaces(sizes=sizes, kinds=lk, dtype=dtype))
    elif kind == 'P':
        base = draw(zoo.leaf_spaces(
            sizes=tuple(s for s in sizes if s != 'medium') or ('tiny',),
            kinds=lk, dtype=dtype))
        bsz = int(np.prod(base['shape'], dtype=int))
        n = draw(st.sampled_from([1, 2, 2, 3] if bsz <= 12 else [1, 2]))
        sd = {'kind': 'pspace', 'base': base, 'power': n,
              'weighting': draw(zoo._pweight(n)), 'exponent': 2.0}
    elif kind == 'G':
        sd = draw(zoo.general_spaces(dtype=dtype, first_kinds=lk))
    else:
        sd = draw(zoo.matrix_spaces(dtype=dtype, kinds=lk))
    rsp = R.RSpace(sd)
    fd = draw(_leaf_tree(e, rsp, force))
    mode = e.mode
    # narrow numerical range: exponential-type functionals (overflow of
    # exp) and, on float32 spaces, the KL family (the closed form
    # (x - s + sqrt((x - s)^2 + 4 s g))/2 cancels completely once
    # |x|^2 eps(dtype) > s g and returns the boundary point)
    # level 2: exponential type on float32 (exp overflows at 88)
    f32 = zoo.dtype_of(sd) == 'float32'
    exp_type = (2 if (e.name in EXP_TYPE and f32) else
                1 if (e.name in EXP_TYPE or (e.name in KL_FAMILY and f32))
                else 0)
    site = e.site(fd['params'])
    depth = (force_depth if force_depth is not None else
             draw(st.sampled_from([0, 0, 0, 1, 1, 2, 3])))
    depth = min(depth, max_depth, 1 if exp_type else 3)
    if (_has_rejection(fd) or e.callable_only or
            zoo.known_region(site, rsp)):
        depth = 0
    el_ok = 'element' in e.sigma_kinds
    kinds = list(e.sigma_kinds)
    if (e.name == 'Huber' and zoo.known_region(site, rsp) and
            chain_rule is None and draw(st.booleans())):
        # Huber.convex_conj is explicit: its proximal does not use the
        # (known-finding) proximal of the Huber leaf
        return sd, {'t': 'conj', 'f': fd}, mode, ['scalar'], exp_type
    # consecutive identical rules on purpose ((f * a) * b, a * (b * f),
    # f.translated(y).translated(z), ...): the library merges some of these
    if chain_rule is not None and not exp_type and depth_ok_for_chain(
            fd, e, rsp, site):
        depth = max(depth, 2)
    elif (chain_rule is None and depth >= 2 and mode == 'functional' and
          draw(st.integers(0, 3)) == 0):
        chain_rule = draw(st.sampled_from(CHAIN_RULES))
    else:
        chain_rule = None
    for i in range(depth):
        forced = chain_rule if (chain_rule and i < 2) else None
        fd = draw(_wrap(fd, e, rsp, mode, exp_type, el_ok, chain=forced))
        # element-valued steps survive only the Moreau rule of the factory
        # module (documented there)
        if not (fd['t'] == 'conj' and mode == 'factory' and i == 0):
            kinds = ['scalar']
        if _has_rejection(fd):
            break
    if fd['t'] != 'leaf':
        # derived trees stay outside the step-dependent known regions
        kinds = [k for k in kinds
                 if not zoo.known_step_region(site, rsp, k)] or ['scalar']
    return sd, fd, mode, kinds, exp_type


@st.composite
def _case(draw, tier, cell=None):
    sizes = ('tiny', 'tiny', 'small', 'small', 'medium')
    force = None
    if cell is not None:
        e = zoo.BY_NAME[cell[0]]
        kind = cell[1]
        wk = None if cell[2] is None else (cell[2],)
        force = None if cell[3] is None else e.classes[cell[3]]
        sizes = ('tiny', 'small')
        force_depth = 0 if draw(st.integers(0, 2)) else None
        chain_rule = cell[4] if len(cell) > 4 else None
        if chain_rule:
            force_depth = draw(st.sampled_from([2, 2, 3]))
    else:
        e = zoo.BY_NAME[draw(_entry_strategy())]
        kind = draw(st.sampled_from(list(e.kinds)))
        wk = None
        force_depth = None
        chain_rule = None
    sep = (cell is None and kind in ('T', 'P') and not e.callable_only and
           draw(st.integers(0, 7)) == 0)
    if not sep:
        sd, fd, mode, kinds, exp_type = draw(
            _tree_on(e, kind, sizes, wk, force_depth=force_depth,
                     force=force, chain_rule=chain_rule))
        nparts = None
    else:
        # separable sum of 2-3 (possibly derived) functionals of one mode
        mode = e.mode
        pool = [x for x in zoo.ENTRIES
                if x.mode == mode and not x.callable_only and
                x.kinds[0] in ('T', 'P') and x.name not in
                ('f_box_bad', 'QuadraticForm')]
        nparts = draw(st.sampled_from([2, 2, 3]))
        power = draw(st.integers(0, 3)) == 0
        parts, sds, exp_type = [], [], 0
        dt = draw(st.sampled_from(['float64'] * 5 + ['float32']))
        if e.complex_ok and draw(st.integers(0, 4)) == 0:
            # all summands on complex spaces
            dt = 'complex128'
            pool = [x for x in pool if x.complex_ok]
        for i in range(nparts):
            ei = e if i == 0 else draw(st.sampled_from(pool))
            ki = kind if i == 0 else draw(st.sampled_from(
                [k for k in ei.kinds if k in ('T', 'P')]))
            sdi, fdi, _, _, ex = draw(_tree_on(ei, ki, ('tiny', 'small'),
                                               max_depth=1, dtype=dt))
            if zoo.expected_rejection(fdi):
                sdi, fdi, _, _, ex = draw(_tree_on(
                    zoo.BY_NAME['f_l2' if mode == 'factory' else 'L2Norm'],
                    'T', ('tiny',), max_depth=0, dtype=dt))
            if zoo.known_region(zoo.site_of(fdi), R.RSpace(sdi)):
                sdi = dict(sdi)
                # move the summand out of the known-finding region
                sdi, fdi, _, _, ex = draw(_tree_on(
                    zoo.BY_NAME['f_l1' if mode == 'factory' else 'L1Norm'],
                    'T', ('tiny',), max_depth=0, dtype=dt))
            parts.append(fdi)
            sds.append(sdi)
            exp_type = max(exp_type, ex)
        if power:
            parts = [parts[0]] * nparts
            sds = [sds[0]] * nparts
        if power:
            sd = {'kind': 'pspace', 'base': sds[0], 'power': nparts,
                  'weighting': None, 'exponent': 2.0}
        else:
            sd = {'kind': 'pspace', 'parts': sds, 'power': None,
                  'weighting': None, 'exponent': 2.0}
        fd = {'t': 'sepsum', 'parts': parts, 'power': power}
        kinds = ['scalar', 'list']
        if draw(st.integers(0, 3)) == 0 and not exp_type:
            rsp0 = R.RSpace(sd)
            fd = draw(_wrap(fd, zoo.BY_NAME['f_const'], rsp0, mode,
                            exp_type, False))
            if fd['t'] == 'compose' and fd['op']['kind'] != 'scaling':
                fd['op'] = {'kind': 'scaling', 's': 2.0}
            kinds = ['scalar']
    rsp = R.RSpace(sd)
    n = rsp.size
    cap = 0.25 if exp_type == 2 else 1.0 if exp_type else 30.0
    scale = min(draw(st.sampled_from([1.0, 1.0, 0.1, 10.0, 30.0])), cap)
    desc = {
        'space': sd, 'func': fd, 'mode': mode,
        'sigma': draw(_sigma(kinds, rsp, exp_type, nparts)),
        'x': draw(_point(n, scale, cell is not None)),
        'y': draw(_point(n, scale, cell is not None)),
        'xmode': draw(st.sampled_from(['generic', 'generic', 'generic',
                                       'inside', 'on', 'sparse', 'near'])),
        'seed': draw(st.integers(0, 2 ** 31 - 1)),
    }
    if tier == 'quick':
        # part of the case: fewer numerical-minimiser probes (see
        # `scipy_probes`); absent = full effort
        desc['effort'] = 'quick'
    return desc


@st.composite
def _point(draw, n, scale, seeded):
    """x / y data: explicit entries (shrinkable, palette values hit kinks
    and thresholds exactly) in the random part, a seeded generic vector in
    the fixed sweep (one draw instead of n: the sweep is generated serially
    in the parent process)."""
    if not seeded:
        return draw(zoo.vecs(n, scale=scale))
    return {'gen': {'seed': draw(st.integers(0, 2 ** 31 - 1)),
                    'scale': float(scale), 'kind': 'normal'}}


def strategy(tier):
    return _case(tier)


CHAIN_BASES = ('L1Norm', 'L2Norm', 'L2NormSquared', 'IndicatorBox', 'Huber',
               'KullbackLeibler', 'IndicatorLpUnitBall')


def _cells():
    """(entry, space kind, leaf weighting | None, parameter class | None)"""
    cells = []
    for e in zoo.ENTRIES:
        for kind in e.kinds:
            for wk in LEAF_WKINDS:
                cells.append((e.name, kind, wk, None))
            if e.complex_ok:
                # modulus-type objectives on complex spaces
                for wk in zoo.CPLX_LEAF_KINDS:
                    cells.append((e.name, kind, wk, None))
            if len(e.classes) > 1:
                for ci in range(len(e.classes)):
                    cells.append((e.name, kind, None, ci))
    for name in CHAIN_BASES:
        for rule in CHAIN_RULES:
            cells.append((name, 'T', None, None, rule))
    # scaling by a plain sequence of floats (factories that document
    # per-point steps), followed by a scalar scaling
    for e in zoo.ENTRIES:
        if e.mode == 'factory' and 'element' in e.sigma_kinds:
            cells.append((e.name, 'T', None, None, 'argscale_el'))
    return cells


def enumerate_cases(tier):
    """Fixed (derandomised) sweep: every catalogue entry on every admissible
    space kind x leaf weighting, and with every parameter class, by
    construction (several cells are drawn per Hypothesis example only to
    amortise the per-test overhead)."""
    from hypothesis import given, settings, HealthCheck, Phase
    k = 2 if tier == 'quick' else 6
    out = []
    cells = _cells()
    chunk = 4
    for i in range(0, len(cells), chunk):
        group = cells[i:i + chunk]
        got = []

        @settings(max_examples=k, derandomize=True, database=None,
                  deadline=None, phases=[Phase.generate],
                  suppress_health_check=list(HealthCheck))
        @given(st.tuples(*[_case(tier, c) for c in group]))
        def collect(ds):
            got.append(ds)

        collect()
        for ds in got[:k]:
            out.extend(ds)
    return out


# --------------------------------------------------------------------------
# numerics

def _mnorm(M, a):
    return float(np.sqrt(np.sum(M.astype(R.LD) * np.asarray(a, R.LD) ** 2)))


class Problem(object):
    """p claimed to minimise node(z) + sum_k M_k (z_k - x_k)^2 / 2."""

    def __init__(self, node, p, x, sigma, amb=0.0):
        self.node = node
        self.p = np.asarray(p, dtype=float)
        self.x = np.asarray(x, dtype=float)
        sg = np.asarray(sigma, dtype=float)
        self.M = node.sp.W / (sg if sg.ndim else float(sg))
        self.amb = max(float(np.abs(self.p).max(initial=0)),
                       float(np.abs(self.x).max(initial=0)), amb)
        self.fp, self.magp = None, None
        self.osc = 0.0
        self.g = self.p - self.x           # gradient of the quadratic / M
        self.pn = _mnorm(self.M, self.p) + _mnorm(self.M, self.x)
        own = max(float(np.abs(self.p).max(initial=0)),
                  float(np.abs(self.x).max(initial=0)))
        if amb > own:
            # intermediate points of the rule chain are larger than p and x:
            # they set the absolute rounding error of p
            self.pn += amb * _mnorm(self.M, np.ones(self.p.size))
        self.gn = _mnorm(self.M, self.g)

    def gap(self, z):
        """(gap, tol, finite): gap >= -tol is the certificate at z."""
        with R.strict_membership():
            fz, magz = self.node.ev(z, 0.0)
        if not np.isfinite(fz):
            return 0.0, 0.0, False
        d = z - self.p
        terms = self.M.astype(R.LD) * d * self.g
        lin = float(np.sum(terms))
        gap = (fz - self.fp) + lin
        tol = K_TOL * R.eps() * (1.0 + magz + self.magp +
                             float(np.sum(np.abs(terms))) +
                             (_mnorm(self.M, d) + self.gn) * self.pn) + \
            self.osc
        return gap, tol, True

    def objective(self, z):
        with R.strict_membership():
            fz = self.node.value(z, 0.0)
        if not np.isfinite(fz):
            return 1e300
        return fz + 0.5 * float(np.sum(self.M * (z - self.x) ** 2))


def _directions(rng, n, k):
    """random / coordinate / sign-pattern directions"""
    out = []
    for i in range(k):
        kind = i % 3
        if kind == 0:
            d = rng.standard_normal(n)
        elif kind == 1:
            d = np.zeros(n)
            d[rng.randint(n)] = rng.choice([-1.0, 1.0])
        else:
            d = rng.choice([-1.0, 1.0], size=n)
            if rng.randint(2):
                d[rng.randint(n)] = 0.0
        out.append(d)
    return out


def probes(pb, rng, tier_k=1):
    """Deterministic list of probe points for a problem."""
    node, p, x = pb.node, pb.p, pb.x
    n = p.size
    scale = max(float(np.abs(p).max(initial=0)),
                float(np.abs(x).max(initial=0)), node.typ(), 1e-3)
    zs = []
    # (a) perturbations at six scales (tangent to equality constraints)
    for t in (1e-1, 1e-2, 1e-3, 1e-4, 1e-5, 1e-6):
        for d in _directions(rng, n, 6 * tier_k):
            zs.append(p + t * scale * node.tangent(d))
    # (b) retracted perturbations: feasible points next to p
    for t in (3e-1, 1e-1, 1e-2, 1e-3):
        for d in _directions(rng, n, 3 * tier_k):
            zs.append(node.retract(p + t * scale * d))
    # (c) segment towards x (and x itself, retracted into the domain)
    for tau in (1.0, 0.5, 0.1, 1e-2, 1e-3, 1e-5):
        zs.append(p + tau * (x - p))
    zs.append(node.retract(x))
    # (d) segments towards independent feasible points
    typ = node.typ()
    for j in range(6 * tier_k):
        q = node.retract(rng.standard_normal(n) *
                         rng.choice([0.3, 1.0, 3.0]) * max(typ, 1e-3) +
                         (p if j % 2 else 0.0))
        for tau in (1.0, 0.3, 3e-2, 1e-3):
            zs.append(p + tau * (q - p))
    return zs


def scipy_probes(pb, rng, effort='full'):
    """Numerical minimiser of the reference objective (dimension <= 4);
    fixed starts, fixed iteration caps.  Every returned point is just
    another probe."""
    from scipy.optimize import minimize
    node, p, x = pb.node, pb.p, pb.x
    n = p.size
    scale = max(float(np.abs(p).max(initial=0)),
                float(np.abs(x).max(initial=0)), node.typ(), 1e-3)

    def obj(z):
        return pb.objective(node.retract(z))

    starts = [p + 0.05 * scale * np.ones(n),
              node.retract(x) + 0.01 * scale * np.arange(1, n + 1),
              node.retract(np.zeros(n)) + 0.1 * node.typ()]
    if effort == 'quick':
        # quick tier: one simplex search with a third of the iterations
        starts = starts[:1]
    out = []
    for i, z0 in enumerate(starts):
        method = 'Powell' if i == 2 else 'Nelder-Mead'
        opts = ({'maxiter': 60 * n, 'xtol': 1e-10, 'ftol': 1e-14}
                if method == 'Powell' else
                {'maxiter': (60 if effort == 'quick' else 200) * n,
                 'xatol': 1e-10, 'fatol': 1e-14})
        try:
            res = minimize(obj, z0, method=method, options=opts)
        except Exception:  # noqa  (a failed probe search is not a verdict)
            continue
        out.append(node.retract(np.asarray(res.x, dtype=float)))
    return out


# --------------------------------------------------------------------------
# the case

def _sig(clause, site, region, sk):
    return 'C07|{}|{}|{},sig={}'.format(clause, site, region, sk)


def _odl_call(fn, sig_ctx, *args, **kwargs):
    """Call into ODL; an exception whose innermost frame is in odl/ becomes
    a violation that carries the functional site and the region."""
    prefix = kwargs.pop('_prefix', '')
    try:
        return fn(*args, **kwargs)
    except (Violation, HarnessError):
        raise
    except Exception as exc:  # noqa
        where, sig = crash_signature(PROPERTY, exc)
        if where != 'odl':
            raise
        loc = sig.split('|')[-1]
        raise Violation(_sig(prefix + 'crash:' + type(exc).__name__,
                             *sig_ctx),
                        '{}: {} at {}'.format(type(exc).__name__,
                                              str(exc)[:300], loc))


def _sigma_objects(sg, space, rsp):
    """(object passed to the factory, flat reference step)."""
    n = rsp.size
    kind = sg['kind']
    if kind == 'scalar':
        return float(sg['value']), float(sg['value'])
    if kind == 'list':
        vals = [float(v) for v in sg['values']]
        if rsp.parts is None or len(vals) != len(rsp.parts):
            raise HarnessError('list step needs a product space')
        flat_s = np.concatenate([np.full(p.size, v)
                                 for p, v in zip(rsp.parts, vals)])
        return vals, flat_s
    v = zoo.vec(sg['vec'], rsp.npoints)
    if rsp.cplx:
        # a "pointwise positive space element" of a complex space: positive
        # real parts, zero imaginary parts; one step per (re, im) pair
        vflat = np.repeat(v, 2)
        vel = np.stack([v, np.zeros_like(v)], axis=-1).ravel()
    else:
        vflat = vel = v
    if kind == 'element':
        return flat.unflat(vel, space), vflat
    if kind == 'arraylike':
        if rsp.parts is None:
            return v.reshape(rsp.shape).tolist(), vflat
        return flat.unflat(vel, space), vflat
    raise HarnessError('sigma kind ' + kind)


def _make_x(desc, key, ref, rsp):
    n = rsp.size
    raw = zoo.vec(desc[key], n)
    mode = desc['xmode']
    rng = np.random.RandomState((int(desc['seed']) + (7 if key == 'y' else 3))
                                % (2 ** 32))
    if mode == 'generic' or not ref.has_value:
        return raw
    if mode == 'inside':
        other = zoo.vec(desc['y' if key == 'x' else 'x'], n)
        return 0.5 * (ref.retract(raw) + ref.retract(0.3 * other))
    if mode == 'on':
        return ref.retract(3.0 * raw)
    if mode == 'near':
        return ref.retract(raw) + 1e-3 * rng.standard_normal(n)
    if mode == 'sparse':
        mask = rng.randint(0, 2, size=n).astype(bool)
        return np.where(mask, raw, 0.0)
    raise HarnessError('xmode ' + mode)


def _norm_agrees(space, rsp, x):
    """The reference weights reproduce the norm of the space (C02 pins the
    norm itself; a disagreement means the trusted base does not hold for
    this space, e.g. on a tree where discretized norms ignore boundary
    cells, and the case is skipped and counted)."""
    v = flat.flat(x, space)
    a = float(np.sqrt(rsp.norm2(v)))
    b = float(space.norm(x))
    return abs(a - b) <= 64 * R.eps() * max(rsp.size, 1) * \
        max(a, b, 1e-300)


def run_case(desc):
    """Run the case; when a derived functional fails, find the smallest
    failing sub-tree so that the signature names the root cause (a leaf
    class, or the calculus rule whose operand passes on its own)."""
    with R.precision(zoo.dtype_of(desc['space'])):
        return _run_case(desc)


def _run_case(desc):
    try:
        return _run_tree(desc)
    except Violation as v:
        fd = desc['func']
        if fd['t'] == 'leaf' or (
                zoo.conj_bypasses_leaf(fd, desc['mode']) and
                zoo.known_region('Huber', R.RSpace(desc['space']))):
            # (the explicit conjugate of Huber does not use the proximal of
            # its operand, which is a known finding on this space: nothing
            # to localise)
            raise
        for sub in _sub_cases(desc):
            try:
                run_case(sub)
            except Violation as inner:
                raise Violation(inner.signature,
                                '[inside {}] {}'.format(zoo.site_of(fd),
                                                        inner.detail))
        parts = v.signature.split('|')
        parts[2] = 'rule:{}@{}'.format(zoo.rule_name(fd), desc['mode'])
        raise Violation('|'.join(parts),
                        '[{}; operands pass on their own] {}'.format(
                            zoo.site_of(fd), v.detail))


def _sub_cases(desc):
    """Descriptors of the operand(s) of the outermost rule, on their own
    space, with the same step and points."""
    fd, sd = desc['func'], desc['space']
    if fd['t'] != 'sepsum':
        return [dict(desc, func=fd['f'])]
    rsp = R.RSpace(sd)
    sds = build.space_parts(sd)
    xv = zoo.vec(desc['x'], rsp.size)
    yv = zoo.vec(desc['y'], rsp.size)
    out = []
    for i, (part, sl) in enumerate(zip(fd['parts'], rsp.slices)):
        sg = desc['sigma']
        if sg['kind'] == 'list':
            sg = {'kind': 'scalar', 'value': sg['values'][i]}
        out.append(dict(desc, space=sds[i], func=part, sigma=sg,
                        x={'data': [float(t) for t in xv[sl]]},
                        y={'data': [float(t) for t in yv[sl]]}))
        if fd.get('power'):
            break
    return out


def _call_out(op, arg, out, callable_only):
    if callable_only:
        return op.call_out(arg, out)
    return op(arg, out=out)


def _oscillation(pb, rng):
    """max |f(p + d) - f(p)| over a few displacements |d|_inf <= 64 eps amb:
    what a rounding-size displacement of p (amb = largest magnitude along
    the rule chain) can change in f.  At a kink the slope of f is not
    bounded by |x - p|/sigma (p = -1e-14 x returned for the exact answer 0
    by a deliberately shrunk threshold costs lam*|p|), so this enters the
    tolerance explicitly."""
    r = 64.0 * R.eps() * max(pb.amb, 1e-300)
    n = pb.p.size
    ds = [np.clip(-pb.p, -r, r)]
    for _ in range(2):
        d = r * rng.choice([-1.0, 1.0], size=n)
        ds += [d, -d]
    osc = 0.0
    for d in ds:
        fz = pb.node.value(pb.p + d, pb.amb)
        if np.isfinite(fz):
            osc = max(osc, abs(fz - pb.fp))
    return osc


def _certify(ref, pv, xv, sigma_flat, rng, ctx, notes, effort='full'):
    """Feasibility of p and the optimality certificate on all probes;
    raises Violation (clauses 'infeasible' / 'certificate')."""
    amb, sig_eff = R.ambient(ref, pv, xv, sigma_flat)
    # the nuclear-norm proximal shrinks its threshold by an *absolute*
    # 10*resolution; through Moreau / scaling rules that becomes
    # 10*resolution times the effective step, so the step counts as a
    # magnitude of the chain
    amb = max(amb, sig_eff)
    problems = [Problem(*t, amb=amb) for t in R.reduce_problem(
        ref, pv, xv, sigma_flat)]
    nprobe = 0
    nfinite = 0
    used_scipy = False
    for pb in problems:
        node = pb.node
        fp, magp = node.ev(pb.p, pb.amb)
        if not np.isfinite(fp):
            ok_doc = False
            if isinstance(node, (R.RIndSimplex, R.RIndSum)) and \
                    node.doc_excess(pb.p):
                ok_doc = True       # inside the documented sum_rtol
                fp, magp = 0.0, 0.0
                notes['doc_rtol_used'] = notes.get('doc_rtol_used', 0) + 1
            if not ok_doc:
                ex = node.excess(pb.p, pb.amb)
                raise Violation(
                    _sig('infeasible', *ctx),
                    'f(p) is not finite by the reference: constraint excess '
                    '{} (tol {}), p={}, x={}'.format(
                        None if ex is None else '{:.3g}'.format(ex[0]),
                        None if ex is None else '{:.3g}'.format(ex[1]),
                        _short(pb.p), _short(pb.x)))
        pb.fp, pb.magp = fp, magp
        pb.osc = _oscillation(pb, rng)
        zs = probes(pb, rng)
        if node.sp.size <= 4:
            zs += scipy_probes(pb, rng, effort)
            used_scipy = True
        worst = None
        for z in zs:
            nprobe += 1
            gap, tol, fin = pb.gap(z)
            if not fin:
                continue
            nfinite += 1
            if gap < -tol and (worst is None or gap / tol < worst[0]):
                worst = (gap / tol, gap, tol, z)
        if worst is not None:
            _, gap, tol, z = worst
            raise Violation(
                _sig('certificate', *ctx),
                'F(z)-F(p)-|z-p|^2/(2 sigma) = {:.6g} < -{:.3g} at a probe '
                'with |z-p|_M = {:.3g}; f(p)={:.6g} f(z)={:.6g}; p={} z={} '
                'x={} sigma={}{}'.format(
                    gap, tol, _mnorm(pb.M, z - pb.p), pb.fp,
                    node.value(z, 0.0), _short(pb.p), _short(z),
                    _short(pb.x), _short(np.atleast_1d(sigma_flat)),
                    ' (after Moreau/rule reduction)'
                    if len(problems) > 1 or pb.node is not ref else ''))
    return {'amb': amb, 'sig_eff': sig_eff, 'problems': problems,
            'nprobe': nprobe, 'nfinite': nfinite, 'scipy': used_scipy}


def _run_tree(desc):
    sd, fd, mode = desc['space'], desc['func'], desc['mode']
    rsp = R.RSpace(sd)
    n = rsp.size
    ref = zoo.build_ref(fd, rsp)
    site = zoo.site_of(fd)
    region = zoo.region_of(rsp)
    sk = desc['sigma']['kind']
    ctx = (site, region, sk)
    leaves = zoo.leaf_sites(fd, rsp)
    derived = fd['t'] != 'leaf'
    entry_names = [l['name'] for l in _leaf_nodes(fd)]
    strata = ['entry:' + entry_names[0], 'mode:' + mode,
              'leafw:' + rsp.leaf_kind(), 'prodw:' + rsp.prod_kind(),
              'sigma:' + sk, 'spacekind:' + zoo.space_label(rsp),
              'dtype:' + rsp.dtype,
              'field:' + ('complex' if rsp.cplx else 'real'),
              'dim:' + ('tiny' if n <= 4 else 'small' if n <= 24
                        else 'medium'),
              'depth:{}'.format(_depth(fd)), 'xmode:' + desc['xmode'],
              'cell:{}|{}/{}|{}'.format(entry_names[0], rsp.leaf_kind(),
                                        rsp.prod_kind(), sk)]
    for nm in entry_names[1:]:
        strata.append('entry:' + nm)
    for r in _rules(fd):
        strata.append('rule:{}:{}'.format(mode, r))
    for r in _via_class(fd):
        strata.append('via-class:' + r)
    for c in _chains(fd):
        strata.append('chain:' + c)
    if rsp.cplx:
        strata.append('complex-entry:' + entry_names[0])
        for r in _rules(fd):
            strata.append('complex-rule:{}:{}'.format(mode, r))
    if _is_discr(sd):
        strata.append('discr:' + ('bdry' if _has_bdry(sd) else 'nobdry'))

    # derived trees stay outside the known-finding regions (the leaves
    # themselves are exercised there directly)
    if zoo.conj_bypasses_leaf(fd, mode):
        strata.append('conj-bypasses-known-leaf')
    if derived and zoo.uses_known_leaf(fd, rsp, sk, mode):
        return Outcome('excluded', strata=strata + ['excluded:known-leaf'])

    space = build.build_space(sd)
    if flat.rdim(space) != n:
        raise HarnessError('dimension mismatch reference/space')
    expect = zoo.expected_rejection(fd)
    sigma_obj, sigma_flat = _sigma_objects(desc['sigma'], space, rsp)

    # ---- build; documented rejections ------------------------------------
    def build_and_call():
        factory, func = zoo.build_odl(fd, space, mode, rsp)
        return factory, func, factory(sigma_obj)

    try:
        factory, func, op = build_and_call()
    except NotImplementedError as exc:
        if expect == 'nie':
            return Outcome('rejected', strata=strata + ['rejected:nie'])
        raise Violation(_sig('not-offered', *ctx),
                        'NotImplementedError for a documented proximal: '
                        '{}'.format(str(exc)[:200]))
    except (ValueError, TypeError) as exc:
        if expect in ('value', 'type'):
            return Outcome('rejected', strata=strata + ['rejected:value'])
        where, sig = crash_signature(PROPERTY, exc)
        if where != 'odl':
            raise
        raise Violation(_sig('crash:' + type(exc).__name__, *ctx),
                        '{} while building the proximal: {} at {}'.format(
                            type(exc).__name__, str(exc)[:300],
                            sig.split('|')[-1]))
    except (Violation, HarnessError):
        raise
    except Exception as exc:  # noqa
        where, sig = crash_signature(PROPERTY, exc)
        if where != 'odl':
            raise
        raise Violation(_sig('crash:' + type(exc).__name__, *ctx),
                        '{} while building the proximal: {} at {}'.format(
                            type(exc).__name__, str(exc)[:300],
                            sig.split('|')[-1]))
    if expect is not None:
        raise Violation(_sig('no-rejection', *ctx),
                        'parameters outside the documented range were '
                        'accepted silently (expected {})'.format(expect))

    callable_only = any(zoo.BY_NAME[nm].callable_only for nm in entry_names)
    if not callable_only:
        if op.domain != space or op.range != space:
            raise Violation(_sig('domain', *ctx),
                            'proximal maps {!r} -> {!r}, expected {!r}'
                            ''.format(op.domain, op.range, space))

    xv = _make_x(desc, 'x', ref, rsp)
    yv = _make_x(desc, 'y', ref, rsp)
    x = flat.unflat(xv, space)
    xv = flat.flat(x, space)
    probe_el = flat.unflat(np.arange(1.0, n + 1.0) / n, space)
    if not (_norm_agrees(space, rsp, x) and
            _norm_agrees(space, rsp, probe_el)):
        return Outcome('excluded', strata=strata + ['excluded:ref-norm'],
                       notes={'ref_norm_mismatch': 1})
    x_before = xv.copy()

    p_el = _odl_call(op, ctx, x)
    pv = _as_flat(p_el, space, ctx, 'p')
    if not np.array_equal(flat.flat(x, space), x_before):
        raise Violation(_sig('input-modified', *ctx),
                        'the proximal changed its argument')

    notes = {}
    # ---- (1)+(2) feasibility and optimality certificate ------------------
    rng = np.random.RandomState(int(desc['seed']) % (2 ** 32))
    effort = desc.get('effort', 'full')
    cert = _certify(ref, pv, xv, sigma_flat, rng, ctx, notes, effort)
    amb, sig_eff = cert['amb'], cert['sig_eff']
    problems = cert['problems']
    nprobe, nfinite, used_scipy = (cert['nprobe'], cert['nfinite'],
                                   cert['scipy'])

    # ---- (1b) other call styles: out=fresh element, out aliased with x ----
    scale0 = max(float(np.abs(xv).max(initial=0)),
                 float(np.abs(pv).max(initial=0)), ref.typ(), amb)
    ctol = K_TOL * R.eps() * max(1.0, sig_eff) * (scale0 + np.abs(pv))
    strata.append('call:plain')
    for style in ('inplace', 'alias'):
        if style == 'inplace':
            arg = x
            out = space.element()
            for arr in build.leaf_arrays_of(out):
                arr[...] = np.nan
        else:
            arg = x.copy()
            out = arg
        res = _odl_call(_call_out, ctx, op, arg, out, callable_only,
                        _prefix=style + '-')
        rv = _as_flat(res, space, ctx,
                      'prox(x, out={})'.format('x' if style == 'alias'
                                               else 'fresh'),
                      prefix=style + '-')
        strata.append('call:' + style)
        if style == 'inplace' and not np.array_equal(flat.flat(x, space),
                                                     x_before):
            raise Violation(_sig('input-modified', *ctx),
                            'prox(x, out=y) changed its argument')
        if np.all(np.abs(rv - pv) <= ctol):
            continue
        # deviates from the out-of-place result: it has to be a minimiser
        # in its own right
        dev = float(np.abs(rv - pv).max())
        try:
            _certify(ref, rv, xv, sigma_flat,
                     np.random.RandomState(int(desc['seed']) % (2 ** 32)),
                     ctx, {}, effort)
        except Violation as v:
            raise Violation(
                _sig(style, *ctx),
                'prox(x, out={}) = {} differs from prox(x) = {} (max diff '
                '{:.3g}, tol {:.3g}) and is not the minimiser: {}'.format(
                    'x' if style == 'alias' else 'fresh element', _short(rv),
                    _short(pv), dev, float(ctol.max()), v.detail[:400]))
        notes['callstyle_deviation_certified'] = \
            notes.get('callstyle_deviation_certified', 0) + 1

    # ---- by-products: library value at p ----------------------------------
    if func is not None and ref.has_value:
        _value_byproduct(func, ref, p_el, pv, x, xv, notes, ctx)
    if func is not None and isinstance(ref, (R.RIndSimplex, R.RIndSum)) \
            and ref.doc_excess(pv, margin=0.5) and \
            n * R.eps() * float(np.abs(pv).sum()) <= 0.25 * ref.doc_rtol * \
            abs(getattr(ref, 'r', getattr(ref, 'c', 1.0))):
        # p satisfies the *documented* membership test of the class
        # (sum_rtol default: 1e-10*size on float64 spaces, 1e-6*size
        # otherwise) with a factor two to spare, and the rounding error of
        # a sum of the entries in the dtype of the space (n eps sum|p|)
        # cannot use up the rest: the library has to agree
        strata.append('lib-value-clause')
        lib = float(_odl_call(func, ctx, p_el))
        if not np.isfinite(lib):
            raise Violation(
                _sig('lib-value-infinite', *ctx),
                'f(prox(x)) = {} as evaluated by the library although p is '
                'inside the documented tolerance: |sum(p)/c - 1| <= 0.5 * '
                '{:.3g}; p={}'.format(lib, ref.doc_rtol, _short(pv)))

    # ---- (3) firm non-expansiveness ---------------------------------------
    y = flat.unflat(yv, space)
    yv = flat.flat(y, space)
    qv = _as_flat(_odl_call(op, ctx, y), space, ctx, 'prox(y)')
    sgf = np.asarray(sigma_flat, dtype=float)
    M = rsp.W / (sgf if sgf.ndim else float(sgf))
    dp, dx = pv - qv, xv - yv
    lhs = float(np.sum(M.astype(R.LD) * dp * dx))
    rhs = float(np.sum(M.astype(R.LD) * dp * dp))
    ftol = K_TOL * R.eps() * (1.0 + (_mnorm(M, xv) + _mnorm(M, yv) +
                                 _mnorm(M, pv) + _mnorm(M, qv)) ** 2)
    if lhs - rhs < -ftol:
        raise Violation(_sig('firm-nonexpansive', *ctx),
                        '<px-py, x-y> - |px-py|^2 = {:.6g} < -{:.3g}; x={} '
                        'y={} px={} py={}'.format(lhs - rhs, ftol, _short(xv),
                                                  _short(yv), _short(pv),
                                                  _short(qv)))

    # ---- (4) projections: idempotent, independent of the step -------------
    if ref.pure_indicator and ref.has_value:
        strata.append('indicator-clauses')
        again = _as_flat(_odl_call(op, ctx, p_el), space, ctx, 'prox(p)')
        scale = max(float(np.abs(xv).max(initial=0)),
                    float(np.abs(pv).max(initial=0)), ref.typ())
        # projections computed through the Moreau identity inherit the
        # library's absolute threshold shrink multiplied by the step
        smax = max(1.0, sig_eff * 3.7 + 0.01)
        itol = K_TOL * R.eps() * smax * (max(scale, amb) + np.abs(pv))
        if np.any(np.abs(again - pv) > itol):
            raise Violation(_sig('idempotence', *ctx),
                            'prox(prox(x)) != prox(x): max diff {:.3g}; '
                            'p={} again={}'.format(
                                float(np.abs(again - pv).max()), _short(pv),
                                _short(again)))
        if sk == 'scalar':
            op2 = _odl_call(factory, ctx, 3.7 * float(sigma_obj) + 0.01)
            other = _as_flat(_odl_call(op2, ctx, x), space, ctx, 'prox2(x)')
            if np.any(np.abs(other - pv) > itol):
                raise Violation(_sig('step-independence', *ctx),
                                'projection depends on sigma: max diff '
                                '{:.3g}'.format(
                                    float(np.abs(other - pv).max())))

    moved = bool(np.any(pv != xv))
    collapsed = not np.any(pv != 0)
    nontrivial = moved and not collapsed and n >= 2 and nfinite >= 10
    strata.append('moved' if moved else 'fixed-point')
    if collapsed:
        strata.append('collapsed-to-0')
    if used_scipy:
        strata.append('scipy')
    if len(problems) > 1 or problems[0].node is not ref:
        strata.append('reduced')
    notes['probes'] = nprobe
    notes['finite_probes'] = nfinite
    return Outcome('ok', strata=strata, nontrivial=nontrivial, notes=notes)


# --------------------------------------------------------------------------
# helpers

def _value_byproduct(func, ref, p_el, pv, x, xv, notes, ctx):
    """Library value vs reference value at p and x (never part of the
    verdict: values are the subject of other properties).  Counts the
    boundary-rounding cases of indicators."""
    for el, v in ((p_el, pv), (x, xv)):
        try:
            lib = func(el)
            if isinstance(lib, complex) or np.iscomplexobj(lib):
                # functionals on complex spaces return field elements
                if complex(lib).imag != 0:
                    notes['value_complex'] = notes.get('value_complex', 0) + 1
                    continue
                lib = complex(lib).real
            lib = float(lib)
        except Exception:  # noqa
            notes['value_call_failed'] = notes.get('value_call_failed', 0) + 1
            continue
        amb = max(float(np.abs(pv).max(initial=0)),
                  float(np.abs(xv).max(initial=0)))
        rv, mag = ref.ev(v, amb)
        if np.isfinite(lib) and np.isfinite(rv):
            if abs(lib - rv) > K_TOL * R.eps() * (1 + mag + abs(rv)):
                notes['value_mismatch'] = notes.get('value_mismatch', 0) + 1
                if STRICT:
                    raise HarnessError('value mismatch {} lib {!r} ref {!r}'
                                       ''.format(ctx, lib, rv))
        elif np.isfinite(lib) != np.isfinite(rv):
            ex = ref.excess(v, amb) if ref.has_value else None
            near = ex is not None and abs(ex[0]) <= 64 * max(ex[1], 1e-300)
            if el is p_el and not np.isfinite(lib) and near:
                notes['boundary_rounding'] = \
                    notes.get('boundary_rounding', 0) + 1
            elif near or ref.open_domain:
                notes['boundary_disagreement'] = \
                    notes.get('boundary_disagreement', 0) + 1
            else:
                notes['value_mismatch'] = notes.get('value_mismatch', 0) + 1
                if STRICT:
                    raise HarnessError('domain mismatch {} lib {!r} ref {!r}'
                                       ''.format(ctx, lib, rv))


def _as_flat(el, space, ctx, what, prefix=''):
    try:
        ok = el in space
    except Exception:  # noqa
        ok = False
    if not ok:
        raise Violation(_sig(prefix + 'result-space', *ctx),
                        '{} is not an element of the space: {!r}'.format(
                            what, type(el)))
    v = flat.flat(el, space)
    if not np.all(np.isfinite(v)):
        raise Violation(_sig(prefix + 'non-finite', *ctx),
                        '{} has non-finite entries: {}'.format(what,
                                                               _short(v)))
    return v


def _short(v, k=8):
    v = np.asarray(v, dtype=float).ravel()
    s = ', '.join('{:.10g}'.format(t) for t in v[:k])
    return '[' + s + (', ...' if v.size > k else '') + ']'


def _leaf_nodes(fd):
    if fd['t'] == 'leaf':
        return [fd]
    if fd['t'] == 'sepsum':
        out = []
        for p in fd['parts']:
            out.extend(_leaf_nodes(p))
        return out
    return _leaf_nodes(fd['f'])


def _rules(fd):
    if fd['t'] == 'leaf':
        return []
    if fd['t'] == 'sepsum':
        out = ['sepsum']
        for p in fd['parts']:
            out.extend(_rules(p))
        return out
    return [zoo.rule_name(fd)] + _rules(fd['f'])


def _via_class(fd):
    """rules built through the class constructor"""
    if fd['t'] == 'leaf':
        return []
    if fd['t'] == 'sepsum':
        out = []
        for p in fd['parts']:
            out.extend(_via_class(p))
        return out
    return ([fd['t']] if fd.get('via') == 'class' and fd['t'] != 'bregman'
            else []) + _via_class(fd['f'])


def _chains(fd):
    """consecutive identical rules along the spine of the tree"""
    out = []
    while fd['t'] not in ('leaf', 'sepsum'):
        inner = fd['f']
        if inner['t'] == fd['t'] and fd['t'] in CHAIN_RULES:
            out.append('{0}-{0}'.format(fd['t']))
        fd = inner
    return out


def _depth(fd):
    if fd['t'] == 'leaf':
        return 0
    if fd['t'] == 'sepsum':
        return 1 + max(_depth(p) for p in fd['parts'])
    return 1 + _depth(fd['f'])


def _is_discr(sd):
    return any(l['kind'] == 'discr' for l in build.leaf_descs(sd))


def _has_bdry(sd):
    return any(l['kind'] == 'discr' and l.get('nodes_on_bdry') not in
               (False, None) for l in build.leaf_descs(sd))


REQUIRED_STRATA = (
    ['entry:' + e.name for e in zoo.ENTRIES
     if e.name != 'ZeroFunctional*neg'] +
    ['rule:functional:' + r for r in ('translated', 'argscale', 'leftscale',
                                      'argscale_zero', 'leftscale_zero',
                                      'quadpert', 'addconst', 'conj',
                                      'bregman', 'sepsum')] +
    ['rule:factory:' + r for r in ('translated', 'argscale', 'argscale_el',
                                   'argscale_seq', 'argscale_zero',
                                   'quadpert', 'conj', 'compose',
                                   'sepsum')] +
    ['leafw:unit', 'leafw:const', 'leafw:nonuniform', 'prodw:none',
     'prodw:const', 'prodw:array', 'sigma:scalar', 'sigma:element',
     'sigma:arraylike', 'sigma:list', 'spacekind:tensor', 'spacekind:discr',
     'spacekind:power', 'spacekind:product', 'spacekind:matrix',
     'spacekind:matrix-wide',
     'discr:bdry', 'discr:nobdry', 'dim:tiny', 'dim:small', 'dim:medium',
     'scipy', 'reduced', 'indicator-clauses', 'rejected:nie',
     'rejected:value', 'call:plain', 'call:inplace', 'call:alias',
     'dtype:float32', 'dtype:float64', 'dtype:complex128',
     'dtype:complex64', 'field:real', 'field:complex', 'lib-value-clause',
     'conj-bypasses-known-leaf'] +
    ['via-class:' + r for r in ('translated', 'argscale', 'leftscale',
                                'addconst')] +
    ['complex-entry:' + e.name for e in zoo.ENTRIES if e.complex_ok] +
    ['complex-rule:functional:' + r for r in (
        'translated', 'argscale', 'leftscale', 'quadpert', 'addconst',
        'conj', 'sepsum')] +
    ['complex-rule:factory:' + r for r in (
        'translated', 'argscale', 'quadpert', 'conj', 'compose', 'sepsum')] +
    ['chain:{0}-{0}'.format(r) for r in CHAIN_RULES])
