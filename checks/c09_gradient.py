"""C09 - functional values, gradients and Lipschitz bounds agree.

Generator: functional catalogue (``vlib.zoo_funcs``: every class with a
gradient, and expressions derived by sum, ``s*f``, ``f*s``, ``f*v``, ``f+c``,
translation, composition with linear and nonlinear operators, product,
quotient, quadratic perturbation, Bregman distance, Moreau envelope,
separable sums; depth <= 2) x spaces (rn, const-/array-weighted rn, 2-d rn,
uniform_discr with cell volume != 1 and boundary nodes, power spaces,
non-power products, the real field) x interior base points x directions.
Genuinely linear functionals (<v, .>, multiples, sums, compositions with
linear operators, ScalingFunctional on the field) are a stratum of their
own, and three-step chains around an argument scaling (translation ->
scaling, scaling -> translation, (f + c) -> scaling, perturbation ->
scaling) are drawn on purpose (depth 3).  C09-specific variants are drawn
on top of the shared catalogue (``_variants``): ``f - g`` next to ``f + g``,
``f.bregman(p, s)`` next to ``BregmanDistance(f, p, s)``,
the scalar 0 in ``0 * f`` / ``f * 0`` (documented special cases), and a
caller-defined functional (``simple_functional`` wired from Python callables
or operators) in place of a squared norm -- the leaf whose gradient,
derivative and derived rules run through the ``Functional`` base class alone.

Oracle (clauses):
  grad-fd     <grad f(x), d> in the space's own inner product against a
              central-difference ladder of t -> f(x + t d) (7 halvings,
              Romberg extrapolation, second-order test on the raw ladder;
              the error estimate depends on function values only)
  grad-inplace / grad-alias
              the gradient operator evaluated as grad(x, out=fresh NaN-filled
              element) and as grad(y, out=y) (y a copy of x) leaves the same
              element as the out-of-place call g = grad(x) at every node; a
              deviating result is also confronted with the finite differences
              (f.derivative(x) is field-valued, so it has no in-place style)
  derivative  f.derivative(x)(d) equals the same number
  value       every node (leaf or derived) against the NumPy reference of
              the documented expression, and derived nodes against the
              documented formula assembled from the values of their parts
  is-linear   a functional flagged is_linear must be linear in its values
              (f(0) = 0, additivity, homogeneity): the arithmetic takes
              short-cuts for functionals flagged linear
  lipschitz   finite grad_lipschitz bounds ||grad f(p)-grad f(q)||/||p-q||
              on random, close and small-magnitude pairs and on pairs along
              the dominant curvature direction (SVD of the finite-difference
              Hessian in the space's geometry, dimension <= 8)
  numgrad     NumericalGradient(f) (methods forward / backward / central,
              given and documented default step) is the gradient in the same
              sense (tolerance: the truncation bound from second differences
              of the values) and equals, entry by entry, the documented
              difference quotient of the functional's values
  history     results depend on the functional and on the *values* of point
              and direction only.  Every node is first used as above (many
              calls at many points, all call styles); then, on the same
              functional / gradient-operator / derivative-operator / element
              objects: (a) the element returned by the first gradient(x) and
              the operator returned by the first derivative(x) still give
              what they gave (later calls at other points did not alter
              them, operands unmodified); (b) after the caller overwrites
              the returned gradient element in place, gradient(x) is
              unchanged; (c) x is updated *in place* (same element object,
              as every iterative solver does) and f(x), gradient(x),
              gradient(x, out=used buffer), f.derivative(x)(d) are compared
              with a twin -- the same expression built a second time from
              the descriptor, evaluated once, at a fresh element with the
              same values; (d) d is updated in place and D(d) on the
              retained derivative operator is compared likewise
  not-offered gradients documented as not implemented raise
"""
import numpy as np
from hypothesis import strategies as st

from vlib import build, flat, zoo_funcs as Z
from vlib.core import Violation, Outcome, HarnessError
from vlib.ref import funcs_conj as R

odl = build.odl
S = odl.solvers

PROPERTY = 'C09'
TECHNIQUE = ('Hypothesis property-based testing over a functional catalogue '
             'and derived expression trees: gradient inner products against '
             'a Romberg-extrapolated central-difference ladder of the '
             'functional values, derivative operators, documented values '
             'against an independent NumPy reference / the parts, Lipschitz '
             'bounds on adversarial point pairs; used objects with in-place '
             'updated operands against a freshly built twin; descriptor '
             'replay')
LEVEL_TEXT = ('Generated-input search over functional class x parameters x '
              'derivation rule (depth <= 2, incl. compositions with linear '
              'and nonlinear operators) x space (weighted, discretized, '
              'product) x interior base point x direction. The gradient is '
              'judged against finite differences of the functional values '
              'with an error estimate that does not involve the gradient; '
              'values against a reference that never imports odl; finite '
              'grad_lipschitz constants against gradient differences along '
              'the dominant curvature direction; call-history independence '
              '(in-place updated point / direction objects, retained and '
              'overwritten results) against a twin built afresh from the '
              'descriptor. Exploration, not proof.')
LEVEL_NOTE = ('Trusted: NumPy, Hypothesis, vlib/ref/funcs_conj.py (reference '
              'values, smoothness radii), the library inner product / norm '
              '(pinned by C02). Base points keep a margin from kinks and '
              'domain boundaries; real spaces only.')
DESIGN_REF = 'DESIGN.md section 5, C09'
BUDGET = {'quick': 6000, 'thorough': 80000}
TOLERANCES = {
    'grad_fd': '|<grad f(x),d> - D| <= 1e-7*(|g|+||grad||*||d||) + 16*err, '
               'D / err from the Romberg table of 7 central differences '
               '(h0 = min(radius/4, (1+|x|)/8)/|d|_inf, err = last diagonal '
               'difference + 4*eps*S/h, S = max|f| and the magnitude of the '
               'terms the value is assembled from); cases with err > '
               '1e-4*(|g|+||grad||*||d||) and err > 1e-6*S/(1+|x|) are '
               'counted as fd_unreliable, not judged; float32 spaces use '
               'eps32, 1e-3, 3e-2 and 1e-2',
    'grad_call_styles': 'entry-wise |grad(x, out=.) - grad(x)| <= 256*eps*n*'
                        '(max|grad| + S/(1+|x|)), S as in grad_fd',
    'derivative': '|f.derivative(x)(d) - <grad f(x),d>| <= 64*eps*n*(|g| + '
                  'sum w|grad||d|)',
    'value': '|f(x)-ref| <= 512*eps*n*(1+|ref|+sum w(|x|+x^2)) (+ the '
             'change of the reference under a 32-ulp input perturbation)',
    'is_linear': '|f(0)|, |f(x+z)-f(x)-f(z)|, |f(-1.5x)+1.5f(x)| <= 256*eps*n*'
                 '(1+|f(x)|+|f(z)|+|f(-1.5x)|+magnitude of the parts)',
    'lipschitz': '||grad f(p)-grad f(q)|| <= L*||p-q||*(1+1e-9) + 256*eps*'
                 '(||grad f(p)||+||grad f(q)||+L*(||p||+||q||))',
    'numgrad': '|<NumericalGradient(f)(x),d> - D| <= 1e-5*(|g|+||grad||*||d||'
               '+S/(1+|x|)) + 16*err + sum_i w_i|d_i|*(64*eps*F/h + 2*T_i), '
               'h = given step 1e-4*(1+|x|) or the documented default '
               'sqrt(eps), F = max|f| over the stencil, T_i = |f(x+h e_i) - '
               '2f(x) + f(x-h e_i)|/h for forward / backward (first-order '
               'truncation, from values only), 0 for central',
    'numgrad_formula': 'entry-wise |NumericalGradient(f)(x)_i - documented '
                       'quotient of the library values| <= 64*eps*F/h',
    'history': 'retained gradient element: bitwise; retained derivative '
               'operator: the derivative tolerance; used objects against the '
               'twin: value 512*eps*n*(1+|f|+S), gradient entries as '
               'grad_call_styles, derivative as derivative (the two sides '
               'run the same code on the same numbers, so they agree to '
               'rounding; a stale result differs by the step 0.5*h0*d times '
               'the curvature)',
}
ASSUMPTIONS = [
    'real floating-point spaces only',
    'base points keep a sup-norm margin (reference radius) from kinks and '
    'domain boundaries; points with radius < 0.02 are replaced or counted '
    'as trivial',
    'inner functionals of compositions / sums / products / quotients are '
    'finite on the whole space; divisors are >= a positive constant',
    'MoreauEnvelope has no _call: its value is assembled as f(p)+||p-x||^2/'
    '(2 sigma) with p the library proximal',
    'space dimension <= 12',
    'history clause: the in-place update moves x by 0.5*h0*d (inside the '
    'smoothness radius used for the finite differences); a derivative '
    'operator obtained *before* the in-place update is not required to be a '
    'snapshot (not documented) and is not evaluated afterwards',
]
RULE = ('Hypothesis draws (space, functional expression tree, base point, '
        'direction, second point) and the C09 variants (f - g, f.bregman, '
        'scalar 0, '
        'caller-defined leaf, NumericalGradient method / step); every node '
        'of the tree is judged on its own, each followed by the history '
        'clause on the used objects; non-trivial = the gradient clause was '
        'judged with a reliable finite-difference estimate and a non-zero '
        'derivative or gradient, on a derived functional or a non-default '
        'space; distinct by sha1 of the descriptor')
REQUIRED_STRATA = [
    'space:rn', 'space:discr', 'space:power', 'space:product', 'space:field',
    'w:unit', 'w:const', 'w:array',
    'clause:grad-fd', 'clause:derivative', 'clause:value-ref',
    'clause:value-parts', 'clause:lipschitz', 'clause:lipschitz-curvature',
    'clause:numgrad', 'clause:not-offered', 'clause:is-linear',
    'clause:history', 'history:grad-moved', 'history:value-moved',
    'clause:numgrad-formula', 'numgrad:forward', 'numgrad:backward',
    'numgrad:central', 'numgrad-step:default', 'numgrad-step:given',
    'variant:minus', 'variant:zero-left', 'variant:zero-right',
    'variant:simple-fn', 'variant:simple-op', 'variant:bregman-method',
    'style:out-of-place', 'style:out-fresh', 'style:out-alias',
    'chain:trans-scale', 'chain:scale-trans', 'chain:sum-scale',
    'chain:pert-scale', 'linear:flagged', 'linear:part', 'cls:LinearForm',
    'rule:leftscal', 'rule:rightscal', 'rule:rightvec', 'rule:scalarsum',
    'rule:translated', 'rule:quadperturb', 'rule:sum', 'rule:comp',
    'rule:product', 'rule:quotient', 'rule:bregman', 'rule:moreau',
    'rule:sepsum', 'rule:sepsum_power',
    'cls:L1Norm', 'cls:L2Norm', 'cls:L2NormSquared', 'cls:Huber', 'cls:KL',
    'cls:KLConj', 'cls:KLCE', 'cls:KLCEConj', 'cls:Constant', 'cls:Zero',
    'cls:QuadraticForm', 'cls:GroupL1Norm', 'cls:Scaling', 'cls:Identity',
    'op:matrix', 'op:ufunc', 'op:scaling', 'op:multiply', 'op:affine',
    'op:power', 'op:ufunc_matrix', 'op:gradient',
]
RULES = {'leftscal', 'rightscal', 'rightvec', 'scalarsum', 'translated',
         'quadperturb', 'infconv', 'bregman', 'sepsum', 'sepsum_power',
         'sum', 'comp', 'product', 'quotient', 'moreau'}
RMIN = 0.02


# --------------------------------------------------------------------------
# strategy

@st.composite
def _strategy(draw, tier):
    pick = draw(st.sampled_from(['flat'] * 14 + ['power'] * 5 +
                                ['product'] * 2 + ['field', 'matrix']))
    dtypes = ('float64',) * 7 + ('float32',)
    if pick == 'flat':
        sd = draw(Z.flat_space_descs(
            max_size=6 if tier == 'quick' else 9, dtypes=dtypes))
    elif pick == 'power':
        sd = draw(Z.power_space_descs(weightings=('none', 'none', 'const',
                                                  'array')))
    elif pick == 'matrix':
        sd = draw(Z.matrix_space_descs())
    elif pick == 'field':
        sd = {'kind': 'field'}
    else:
        sd, fd = draw(Z.product_space_with_funcs('grad'))
    if pick != 'product':
        depth = draw(st.sampled_from([0, 1, 1, 2, 2, 3]))
        fd = draw(Z.func_descs(sd, 'grad', depth))
    n = Z.space_dim(sd)
    fd = _variants(draw, fd, sd, True)
    if not any(k in fd for k in ('f', 'parts')) and \
            sd['kind'] in ('tensor', 'discr') and \
            draw(st.integers(0, 1)) == 0:
        fd = dict(fd, numgrad=True,
                  ng_method=draw(st.sampled_from(
                      ['forward', 'backward', 'central'])),
                  ng_step=draw(st.sampled_from(['default', 'given'])))
    return {'space': sd, 'func': fd,
            'probe_known': draw(st.integers(0, 3)) == 0,
            'x': draw(Z.vec(n, Z.nz_values())),
            'd': draw(Z.vec(n)),
            'z': draw(Z.vec(n, Z.nz_values())),
            'xscale': draw(st.sampled_from([1.0, 1.0, 0.3, 3.0]))}


def _variants(draw, fd, sd, top):
    """C09-specific variants of a catalogue descriptor (drawn here so that
    the catalogue strategies shared with C08 stay as they are):

    * ``f - g`` next to ``f + g`` (documented as ``f + (-1) * g``),
    * ``f.bregman(point, subgrad)`` next to ``BregmanDistance(f, ...)``,
    * the scalar 0 in ``0 * f`` and ``f * 0`` (documented special cases:
      the zero functional and the constant ``f(0)``), top level only,
    * a caller-defined functional (``simple_functional`` wired from Python
      callables for a/2 |x|^2 + <b, x> + c) in place of a squared norm: the
      only leaf whose gradient, derivative and derived rules run through
      the ``Functional`` base class alone.  Not below a Moreau envelope
      (needs a proximal) and not in a divisor (sign).
    """
    cls = fd['cls']
    out = dict(fd)
    if cls == 'L2NormSquared' and sd['kind'] != 'field':
        if draw(st.integers(0, 3)) == 0:
            m = Z.space_dim(sd)
            return {'cls': 'Simple',
                    'a': draw(st.sampled_from([2.0, 0.5, 3.0, 0.25])),
                    'b': draw(st.one_of(st.none(), Z.vec(m))),
                    'c': draw(st.sampled_from([0.0, 1.0, -2.5])),
                    'with_prox': False, 'with_grad': True,
                    'grad_op': draw(st.booleans())}
        return out
    if cls == 'moreau':
        return out
    if cls == 'sum':
        out['minus'] = draw(st.booleans())
    if cls == 'bregman':
        out['via_method'] = draw(st.booleans())
    if top and cls in ('leftscal', 'rightscal') and \
            draw(st.integers(0, 5)) == 0:
        out['s'] = 0.0
    if cls == 'comp':
        # the inner functional lives on the range of the operator
        rsd = sd
        od = fd['op']
        if od['kind'] == 'matrix' and od.get('ran') is not None:
            rsd = od['ran']
        elif od['kind'] == 'gradient':
            rsd = {'kind': 'pspace', 'base': sd,
                   'power': len(sd['shape']), 'weighting': None,
                   'exponent': 2.0}
        out['f'] = _variants(draw, fd['f'], rsd, False)
        return out
    if cls == 'sepsum':
        parts = build.space_parts(sd)
        out['parts'] = [_variants(draw, p, parts[i], False)
                        for i, p in enumerate(fd['parts'])]
        return out
    if cls == 'sepsum_power':
        out['f'] = _variants(draw, fd['f'], sd['base'], False)
        return out
    if isinstance(fd.get('f'), dict):
        out['f'] = _variants(draw, fd['f'], sd, False)
    if isinstance(fd.get('g'), dict) and cls != 'quotient':
        out['g'] = _variants(draw, fd['g'], sd, False)
    return out


def _variant_tags(fd, top=False):
    tags = set()
    cls = fd.get('cls')
    if cls == 'sum' and fd.get('minus'):
        tags.add('minus')
    if top and cls in ('leftscal', 'rightscal') and float(fd['s']) == 0:
        tags.add('zero-left' if cls == 'leftscal' else 'zero-right')
    if cls == 'Simple':
        tags.add('simple-op' if fd.get('grad_op') else 'simple-fn')
    if cls == 'bregman' and fd.get('via_method'):
        tags.add('bregman-method')
    for key in ('f', 'g'):
        if isinstance(fd.get(key), dict):
            tags |= set(_variant_tags(fd[key]))
    for p in fd.get('parts', []) or []:
        tags |= set(_variant_tags(p))
    return sorted(tags)


def strategy(tier):
    return _strategy(tier)


# --------------------------------------------------------------------------
# helpers

def _fval(v):
    return float(v)


def _moreau_radius(B, xf):
    """Sup-norm distance of x to the kinks of the Moreau envelope."""
    c = B.children[0]
    sig = B.extra['sigma']
    a = np.abs(xf)
    cls = c.cls
    if cls in ('L1Norm',) or (cls == 'LpNorm'):
        # env of the weighted l1 norm: kinks at |x_i| = sigma
        return float(np.min(np.abs(a - sig)))
    if cls == 'L2Norm':
        nrm = c.geo.norm(xf)
        wmax = float(np.sqrt(np.max(c.geo.w) * xf.size))
        return abs(nrm - sig) / wmax
    if cls == 'L2NormSquared':
        return float('inf')
    if cls == 'IndicatorBox':
        lo, hi = c.ref.lo, c.ref.hi
        return float(min(np.min(np.abs(xf - lo)), np.min(np.abs(xf - hi))))
    if cls == 'IndicatorNonnegativity':
        return float(np.min(a))
    if cls == 'GroupL1Norm':
        m, nb = c.geo.power
        X = xf.reshape(m, nb)
        if c.ref.p == 1:
            return float(np.min(np.abs(np.abs(X) - sig)))
        nrm = np.sqrt(np.sum(c.geo.comp_w[:, None] * X * X, axis=0))
        return float(np.min(np.abs(nrm - sig)) / np.sqrt(
            m * max(c.geo.comp_w.max(), 1.0)))
    return 0.0


def radius_of(B, xf, xe):
    """Distance (sup norm) of x to the set where the functional is not
    C^2, computed from reference data only."""
    if B.ref is not None and B.cls not in ('comp',):
        dr = B.ref.dom_residual(xf)
        if dr is not None and dr >= 0:
            return 0.0
        return float(B.ref.radius(xf))
    if B.cls == 'comp':
        inner = B.children[0]
        op = B.extra['op']
        ye = op(xe)
        yf = flat.flat(ye, op.range)
        r = radius_of(inner, yf, ye)
        if not np.isfinite(r):
            return r
        lip = B.extra['opinfo'].get('lipinf')
        if lip is None:
            if B.extra['opkind'] == 'gradient':
                cs = np.asarray(B.space.cell_sides, float)
                lip = float(2.0 / cs.min())
            else:
                return 0.0
        return r / max(lip, 1e-300)
    if B.cls == 'sepsum':
        off, r = 0, float('inf')
        for i, c in enumerate(B.children):
            m = c.geo.n
            r = min(r, radius_of(c, xf[off:off + m], xe[i]))
            off += m
        return r
    if B.cls == 'sepsum_power':
        c = B.children[0]
        m = c.geo.n
        return min(radius_of(c, xf[i * m:(i + 1) * m], xe[i])
                   for i in range(len(xe)))
    if B.cls in ('product', 'quotient', 'sum'):
        return min(radius_of(c, xf, xe) for c in B.children)
    if B.cls == 'moreau':
        return _moreau_radius(B, xf)
    # rules that evaluate their part at a transformed point
    if B.cls == 'translated':
        return radius_of(B.children[0], xf - B.extra['tf'],
                         xe - B.extra['t'])
    if B.cls == 'rightscal':
        sc = B.extra['s']
        return radius_of(B.children[0], sc * xf, sc * xe) / abs(sc)
    if B.cls == 'rightvec':
        return radius_of(B.children[0], B.extra['vf'] * xf,
                         B.extra['v'] * xe) / float(
                             np.max(np.abs(B.extra['vf'])))
    if B.children:
        return min(radius_of(c, xf, xe) for c in B.children)
    return 0.0


def in_domain(B, xf):
    if B.ref is not None:
        dr = B.ref.dom_residual(xf)
        return dr is None or dr < 0
    return True


# --------------------------------------------------------------------------
# the case

def run_case(desc):
    sd, fd = desc['space'], desc['func']
    space = Z.build_space(sd)
    try:
        B = Z.build_func(space, sd, fd)
    except Z.Rejected as e:
        return Outcome('rejected', strata=['rejected:' + str(e)[:30]])
    except Z.BuildCrash as bc:
        from vlib import core
        part = bc.built
        kr = known_region(part)
        field_zero = sd['kind'] == 'field' and fd['cls'] == 'rightscal' \
            and float(fd['s']) == 0
        if field_zero:
            # f * 0 evaluates f(domain.zero()); a field has no ``zero``
            kr = 'C09-K9'
        if kr is not None and not desc.get('probe_known', False):
            return Outcome('excluded', strata=['excluded:' + kr])
        where, csig = core.crash_signature(PROPERTY, bc.exc)
        region = 'w=' + Z.wcoarse(part.sd)
        if field_zero:
            region += ',field,zero=right'
        if part.region_str():
            region += ',' + part.region_str()
        raise Violation('C09|crash|{}|{}|{}'.format(
            type(part.f).__name__, region, csig.split('|', 2)[2]),
            'constructing the derived functional failed: ' + str(bc)[:300])
    xraw = np.asarray(desc['x'], float) * desc['xscale']
    draw_ = np.asarray(desc['d'], float)
    zraw = np.asarray(desc['z'], float)
    out = None
    probe = bool(desc.get('probe_known', False))
    # history-free twin: the same expression built a second time from the
    # descriptor (fresh functional, operator and parameter objects); its
    # nodes are visited in the same order and are evaluated only on fresh
    # elements (history clause)
    try:
        B2 = Z.build_func(space, sd, fd)
        twins = [t for t, _ in _post_order(B2, (xraw, draw_, zraw))]
    except Exception:  # noqa  (the first build is the judged one)
        twins = None
    for k, (node, npts) in enumerate(_post_order(B, (xraw, draw_, zraw))):
        top = node is B
        twin = None
        if twins is not None and k < len(twins) and \
                twins[k].cls == node.cls:
            twin = twins[k]
        res = _guarded(node, npts, top, fd if top else {'cls': node.cls},
                       probe, twin)
        if res.status == 'excluded' and not top:
            return Outcome('excluded', strata=res.strata)
        if top:
            out = res
    return out


def known_region(B):
    """Id of the known finding whose region contains this functional (the
    predicate mirrors the signature patterns of known_findings.d/C09.json).
    Such cases are excluded unless the descriptor asks to probe them
    (``probe_known``: one generated case in four and every regress replay).
    """
    for b in B.nodes():
        r = b.region
        if 'same=0' in r.get('matop', ''):
            return 'C09-K1'
        if b.cls == 'QuadraticForm' and (
                'matrix-warray' in r.get('qop', '') or
                'matrix-wdiscr-bdry' in r.get('qop', '')):
            return 'C09-K1'
        if r.get('gradop') == 'bdry=1':
            return 'C09-K2'
    return None


def _fit(v, m):
    v = np.asarray(v, float)
    if v.size == m:
        return v
    return np.resize(v if v.size else np.ones(1), m)


def _post_order(B, pts):
    x, d, z = pts
    if B.cls == 'sepsum':
        off = 0
        for k in B.children:
            m = k.geo.n
            for item in _post_order(k, (x[off:off + m], d[off:off + m],
                                        z[off:off + m])):
                yield item
            off += m
    elif B.cls == 'sepsum_power':
        k = B.children[0]
        m = k.geo.n
        for item in _post_order(k, (x[:m], d[:m], z[:m])):
            yield item
    elif B.cls == 'comp':
        k = B.children[0]
        op = B.extra['op']
        m = k.geo.n
        try:
            xe = flat.unflat(x, B.space)
            yx = flat.flat(op(xe), op.range)
            yz = flat.flat(op(flat.unflat(z, B.space)), op.range)
        except Exception:  # noqa
            yx, yz = _fit(x, m), _fit(z, m)
        for item in _post_order(k, (yx, _fit(d, m), yz)):
            yield item
    else:
        for k in B.children:
            for item in _post_order(k, pts):
                yield item
    yield B, pts


def _guarded(B, pts, top, fd, probe, twin=None):
    ctx = {}
    try:
        return _check_node(B, pts, top, fd, ctx, probe, twin)
    except (Violation, HarnessError):
        raise
    except Exception as e:  # noqa
        from vlib import core
        where, csig = core.crash_signature(PROPERTY, e)
        if where != 'odl' or 'who' not in ctx:
            raise
        import traceback
        tb = ''.join(traceback.format_exception(type(e), e,
                                                e.__traceback__))
        raise Violation('C09|crash|{}|{}|{}'.format(
            ctx['who'], ctx['region'], csig.split('|', 2)[2]), tb[-1200:])


def _check_node(B, pts, top, fd, ctx, probe=True, twin=None):
    sd, space = B.sd, B.space
    xraw, draw_, zraw = pts
    f, ref, geo = B.f, B.ref, B.geo
    n = geo.n
    eps = Z.space_eps(space)
    f32 = eps > 1e-10
    sk = Z.space_kind(sd)
    wk = Z.wkind(geo.w)
    classes = Z.classes_in(fd) if top else [B.cls]
    region = 'w=' + Z.wcoarse(sd)
    rs = B.region_str()
    if rs:
        region += ',' + rs
    if f32:
        region += ',f32'
    who = type(f).__name__
    ctx['who'], ctx['region'] = who, region

    def sig(clause):
        return 'C09|{}|{}|{}'.format(clause, who, region)

    strata = ['space:' + sk, 'w:' + wk, 'depth:{}'.format(B.depth()),
              'dtype:' + ('float32' if f32 else 'float64')]
    for c in sorted(set(classes)):
        strata.append(('rule:' if c in RULES else 'cls:') + c)
    for b in B.nodes():
        for k in sorted(b.region):
            strata.append('region:{}={}'.format(k, b.region[k]))
        if b.cls == 'comp':
            strata.append('op:' + b.extra['opkind'])
    if top and fd.get('chain'):
        strata.append('chain:' + fd['chain'])
    if top:
        strata.extend('variant:' + v for v in _variant_tags(fd, True))
    if f.is_linear:
        strata.append('linear:flagged')
    if any(b.f.is_linear for b in B.nodes() if b is not B):
        strata.append('linear:part')
    notes = {}

    def note(k, v=1):
        notes[k] = notes.get(k, 0) + v

    def hit(clause):
        s = 'clause:' + clause
        if s not in strata:
            strata.append(s)

    def X(v):
        return Z.elem(space, v)

    def inner(a, b):
        return float(flat.sinner(space, a, b))

    def norm(a):
        return float(flat.snorm(space, a))

    kr = known_region(B)
    if kr is not None:
        strata.append('known-region:' + kr)
        if not probe:
            return Outcome('excluded', strata=strata + ['excluded:' + kr])

    expect_nie = (B.cls == 'LpNorm' and ref.p not in (1.0, 2.0)) or \
        (B.cls == 'GroupL1Norm' and ref.p == float('inf'))
    if expect_nie:
        # documented as not implemented: must raise (at the property or,
        # for the point-wise inf-norm, at evaluation)
        try:
            f.gradient(X(xraw)[0])
        except NotImplementedError:
            hit('not-offered')
            return Outcome('rejected', strata=strata)
        raise Violation(sig('not-offered'),
                        'gradient documented as not implemented evaluated')
    if _no_gradient_expected(B):
        try:
            f.gradient
        except NotImplementedError:
            hit('not-offered')
            return Outcome('rejected', strata=strata)

    # ---- base point ---------------------------------------------------------
    center = ref.center() if ref is not None else None
    cands = [xraw, zraw, 1.7 * xraw + 0.13, xraw + 0.31, 0.5 * zraw - 0.2]
    if ref is not None and center is not None:
        cands = [_pull(ref, center, c) for c in cands]
    xe = xf = None
    rad = 0.0
    for c in cands:
        e, v = X(c)
        if not in_domain(B, v):
            continue
        try:
            r = radius_of(B, v, e)
        except Exception:  # noqa  (operator evaluation failed)
            raise
        if r >= RMIN * (1.0 if not f32 else 4.0):
            xe, xf, rad = e, v, r
            break
    if xe is None:
        return Outcome('trivial', strata=strata + ['trivial:no-smooth-point'])
    d = draw_.copy()
    if not np.any(d):
        d = np.ones(n)
    if float(np.max(np.abs(d))) < 1e-3:
        # the clause is linear in d: avoid denormal directions
        d = d / float(np.max(np.abs(d)))
    de, df = X(d)

    no_call = any(b.cls == 'moreau' for b in B.nodes())

    def value_at(e):
        return _fval(B.value(e))

    # ---- (3) documented values ---------------------------------------------
    if not no_call:
        fx = value_at(xe)
        if np.isnan(fx):
            raise Violation(sig('value'), 'f(x) is nan at x={}'.format(
                xf.tolist()))
        # every node (leaf or derived) against the independent reference
        # of the *documented* expression
        if ref is not None and ref.value(xf) is not None:
            rv = ref.value(xf)
            big = 1e30 if f32 else 1e300
            if not np.isfinite(fx) and np.isfinite(rv) and abs(rv) > big:
                return Outcome('trivial',
                               strata=strata + ['trivial:overflow'])
            t = 512 * eps * max(n, 1) * (
                1.0 + abs(rv) + (_parts_scale(B, xe, xf) if B.children
                                 else float(np.sum(geo.w * (np.abs(xf) +
                                                            xf * xf)))))
            dx = 32 * eps * (np.abs(xf) + 1.0)
            r1, r2 = ref.value(xf + dx), ref.value(xf - dx)
            if np.isfinite(r1) and np.isfinite(r2) and np.isfinite(rv):
                t += 4 * (abs(r1 - rv) + abs(r2 - rv))
                hit('value-ref')
                if abs(fx - rv) > t:
                    raise Violation(
                        sig('value'),
                        'f(x) = {!r}, reference {!r} (diff {:.3g}, tol '
                        '{:.3g}) x={}'.format(fx, rv, fx - rv, t,
                                              xf.tolist()))
        if B.children and B.assemble is not None:
            av = _fval(B.assemble(xe))
            t = 512 * eps * max(n, 1) * (1.0 + abs(av) + _parts_scale(
                B, xe, xf))
            hit('value-parts')
            if not abs(fx - av) <= t:
                raise Violation(
                    sig('value'),
                    'f(x) = {!r} but the documented formula assembled from '
                    'the parts gives {!r} (diff {:.3g}, tol {:.3g}) x={}'
                    ''.format(fx, av, fx - av, t, xf.tolist()))

    # ---- (3b) the linearity flag ----------------------------------------------
    if f.is_linear and not no_call:
        hit('is-linear')
        ze_, zf_ = X(zraw if in_domain(B, zraw) else 0.5 * xf)
        a_ = -1.5
        v0 = value_at(X(np.zeros(n))[0])
        vz = value_at(ze_)
        vs_ = value_at(X(xf + zf_)[0])
        va = value_at(X(a_ * xf)[0])
        t = 256 * eps * max(n, 1) * (1.0 + abs(fx) + abs(vz) + abs(va) +
                                     _parts_scale(B, xe, xf))
        bad = None
        if abs(v0) > t:
            bad = 'f(0) = {!r}'.format(v0)
        elif abs(vs_ - (fx + vz)) > t:
            bad = 'f(x+z) = {!r} but f(x)+f(z) = {!r}'.format(vs_, fx + vz)
        elif abs(va - a_ * fx) > t:
            bad = 'f({}x) = {!r} but {}f(x) = {!r}'.format(a_, va, a_,
                                                          a_ * fx)
        if bad is not None:
            raise Violation(
                sig('is-linear'),
                'functional flagged is_linear is not linear: {} (tol {:.3g})'
                ' x={} z={}'.format(bad, t, xf.tolist(), zf_.tolist()))

    # ---- the gradient operator ---------------------------------------------
    k8 = sk == 'field' and any(b.cls == 'translated' for b in B.nodes())
    if k8 and not probe:
        strata.append('excluded:C09-K8')
        return Outcome('ok', strata=strata, nontrivial=False, notes=notes)
    try:
        grad = f.gradient
    except NotImplementedError:
        hit('not-offered')
        if expect_nie or _no_gradient_expected(B):
            return Outcome('rejected', strata=strata)
        raise
    except TypeError as e:
        if k8:
            raise Violation(sig('gradient-crash') + ',field-translated',
                            'gradient of a translated functional on a field '
                            'raises TypeError: ' + str(e)[:120])
        raise

    # ---- (1) gradient against the central-difference ladder ----------------
    if expect_nie:
        try:
            grad(xe)
        except NotImplementedError:
            hit('not-offered')
            return Outcome('rejected', strata=strata)
        raise Violation(sig('not-offered'),
                        'gradient documented as not implemented evaluated')
    ge = grad(xe)
    if sk == 'field':
        gf = np.array([float(ge)])
    else:
        if ge not in space:
            raise Violation(sig('grad-space'),
                            'gradient(x) is not an element of the domain: '
                            '{!r}'.format(getattr(ge, 'space', type(ge))))
        gf = flat.flat(ge, space)
    if not np.all(np.isfinite(gf)) and not (
            abs(value_at(xe)) < 1e150):
        # overflow of the functional itself (e.g. exp of a large inner
        # point of a composition)
        return Outcome('trivial', strata=strata + ['trivial:overflow'])
    if not np.all(np.isfinite(gf)):
        raise Violation(sig('grad-fd'),
                        'gradient not finite at an interior point x={}: {}'
                        ''.format(xf.tolist(), gf.tolist()))
    g = inner(ge, de) if sk != 'field' else float(ge) * float(de)
    G = abs(g) + float(np.sqrt(np.sum(geo.w * gf * gf)) *
                       np.sqrt(np.sum(geo.w * df * df)))
    dmax = float(np.max(np.abs(df)))
    h0 = min(0.25 * rad, 0.125 * (1.0 + float(np.max(np.abs(xf))))) / dmax

    def phi(t):
        e, _ = X(xf + t * df)
        return value_at(e)

    try:
        fscale = _parts_scale(B, xe, xf)
    except Exception:  # noqa
        fscale = 0.0
    if not np.isfinite(fscale):
        fscale = 0.0
    best, err, q, order_ok = R.fd_estimate(phi, h0, eps, fscale=fscale)
    rtol_fd = 1e-7 if not f32 else 1e-3
    xs_ = 1.0 + float(np.max(np.abs(xf)))
    reliable = best is not None and (
        err <= (1e-4 if not f32 else 3e-2) * (G + abs(best) + 1e-300) or
        err <= (1e-6 if not f32 else 1e-2) * fscale / xs_)
    judged = False
    if not reliable:
        note('fd_unreliable')
        strata.append('fd:unreliable')
    else:
        hit('grad-fd')
        judged = True
        t = rtol_fd * (G + abs(best)) + 16 * err
        if abs(g - best) > t:
            raise Violation(
                sig('grad-fd'),
                '<grad f(x), d> = {!r} but the directional derivative of '
                'the values is {!r} +- {:.2g} (diff {:.3g}, tol {:.3g}); '
                'x={} d={} ladder={}'.format(g, best, err, g - best, t,
                                             xf.tolist(), df.tolist(),
                                             [float('%.9g' % v)
                                              for v in q]))
        if not order_ok:
            note('fd_order_test_failed')

    # ---- (1b) call styles of the gradient operator ---------------------------
    # g = grad(x) (judged above); grad(x, out=fresh NaN-filled element);
    # y = x.copy(); grad(y, out=y).  All three must give the same element.
    strata.append('style:out-of-place')
    if sk != 'field':
        gtol = 256 * eps * max(n, 1) * (
            float(np.max(np.abs(gf))) + fscale / xs_) + 1e-300

        def style_check(clause, got, what):
            if got not in space:
                raise Violation(sig(clause),
                                '{} does not leave an element of the domain '
                                'in out'.format(what))
            gv = flat.flat(got, space)
            dev = np.abs(gv - gf)
            if np.all(dev <= gtol):
                return
            k = int(np.argmax(np.where(np.isnan(dev), np.inf, dev)))
            g_in = inner(got, de)
            fdtxt = 'not judged (finite differences unreliable)'
            if reliable:
                bad_fd = not abs(g_in - best) <= rtol_fd * (
                    G + abs(best)) + 16 * err
                fdtxt = ('<result, d> = {!r} {} the finite-difference '
                         'derivative {!r}'.format(
                             g_in, 'contradicts' if bad_fd else 'matches',
                             best))
            raise Violation(
                sig(clause),
                '{} differs from the out-of-place gradient: entry {} is {!r} '
                'instead of {!r} (max deviation {:.3g}, tol {:.3g}); {}; x={}'
                ''.format(what, k, float(gv[k]), float(gf[k]),
                          float(np.nanmax(dev)) if not np.all(np.isnan(dev))
                          else float('nan'), gtol, fdtxt, xf.tolist()))

        fresh = flat.unflat(np.full(n, np.nan), space)
        ret = grad(xe, out=fresh)
        strata.append('style:out-fresh')
        if ret is not None and ret is not fresh:
            raise Violation(sig('grad-inplace'),
                            'gradient(x, out=g) does not return g')
        style_check('grad-inplace', fresh, 'gradient(x, out=fresh)')
        ycopy = xe.copy()
        ret = grad(ycopy, out=ycopy)
        strata.append('style:out-alias')
        if ret is not None and ret is not ycopy:
            raise Violation(sig('grad-alias'),
                            'gradient(y, out=y) does not return y')
        style_check('grad-alias', ycopy, 'gradient(y, out=y)')
        if not np.array_equal(flat.flat(xe, space), xf):
            raise Violation(sig('grad-inplace'),
                            'the evaluation point was modified')

    # ---- (2) derivative(x)(d) ----------------------------------------------
    try:
        D = f.derivative(xe)
    except Exception as e:  # noqa
        if sk == 'field':
            raise Violation(sig('derivative-crash'),
                            'derivative(x) raises {}: {}'.format(
                                type(e).__name__, str(e)[:100]))
        raise
    dv = _fval(D(de))
    hit('derivative')
    t = 64 * eps * max(n, 1) * (abs(g) + float(np.sum(geo.w * np.abs(gf) *
                                                      np.abs(df))))
    tder = t
    if not abs(dv - g) <= t:
        raise Violation(
            sig('derivative'),
            'derivative(x)(d) = {!r} but <gradient(x), d> = {!r} (tol '
            '{:.3g}) x={} d={}'.format(dv, g, t, xf.tolist(), df.tolist()))

    # ---- (4) Lipschitz bound -------------------------------------------------
    L = float(f.grad_lipschitz)
    if np.isfinite(L) and sk != 'field':
        if L < 0:
            raise Violation(sig('lipschitz'), 'negative grad_lipschitz '
                            '{!r}'.format(L))
        hit('lipschitz')
        ze, zf = X(_pull(ref, center, zraw) if ref is not None and
                   center is not None else zraw)

        def gradf(v):
            e, vf = X(v)
            return flat.flat(grad(e), space), vf

        wn = lambda a: float(np.sqrt(np.sum(geo.w * a * a)))  # noqa

        def pair(p, q_, how):
            gp, pf_ = gradf(p)
            gq, qf_ = gradf(q_)
            if not (np.all(np.isfinite(gp)) and np.all(np.isfinite(gq))):
                return
            num, den = wn(gp - gq), wn(pf_ - qf_)
            if den == 0:
                return
            t = 256 * eps * (wn(gp) + wn(gq) + L * (wn(pf_) + wn(qf_)))
            if num > L * den * (1 + 1e-9) + t:
                raise Violation(
                    sig('lipschitz'),
                    'grad_lipschitz = {!r} but ||grad f(p)-grad f(q)|| / '
                    '||p-q|| = {!r} ({} pair) p={} q={}'.format(
                        L, num / den, how, pf_.tolist(), qf_.tolist()))

        bases = [xf, 0.05 * xf, zf, np.zeros(n)]
        bases = [b for b in bases if in_domain(B, b)]
        pair(xf, zf, 'random')
        pair(xf, xf + 1e-3 * df, 'close')
        pair(0.05 * xf, 0.05 * zf, 'small')
        pair(0.05 * xf, 0.05 * xf + 1e-3 * df, 'small-close')
        pair(np.zeros(n), 1e-2 * df, 'origin')
        if n <= 8 and not f32:
            hit('lipschitz-curvature')
            sw = np.sqrt(geo.w)
            for b in bases[:3]:
                h = 1e-4 * (1.0 + float(np.max(np.abs(b))))
                H = np.empty((n, n))
                ok = True
                for k in range(n):
                    e = np.zeros(n)
                    e[k] = h
                    gp, _ = gradf(b + e)
                    gm, _ = gradf(b - e)
                    if not (np.all(np.isfinite(gp)) and
                            np.all(np.isfinite(gm))):
                        ok = False
                        break
                    H[:, k] = (gp - gm) / (2 * h)
                if not ok:
                    continue
                Sm = sw[:, None] * H / sw[None, :]
                try:
                    U, s, Vt = np.linalg.svd(Sm)
                except np.linalg.LinAlgError:
                    continue
                u = Vt[0] / sw
                u = u / max(float(np.max(np.abs(u))), 1e-300)
                for tt in (1e-3, 1e-2, 0.3):
                    pair(b, b + tt * u, 'curvature')
                    pair(b - tt * u, b + tt * u, 'curvature')

    # ---- (5) NumericalGradient ----------------------------------------------
    if top and fd.get('numgrad') and not B.children and reliable and \
            n <= 6 and not f32 and sd['kind'] in ('tensor', 'discr'):
        method = fd.get('ng_method', 'central')
        given = fd.get('ng_step', 'given') == 'given'
        # documented default step: sqrt(eps) of the space's dtype
        step = 1e-4 * (1.0 + float(np.max(np.abs(xf)))) if given \
            else float(np.sqrt(eps))
        ng_known = Z.wcoarse(sd) != 'none' or len(space.shape) > 1
        if ng_known and not probe:
            strata.append('excluded:C09-K5/K6')
        elif step < 0.25 * rad:
            NG = S.NumericalGradient(f, method=method, **(
                {'step': step} if given else {}))
            try:
                nge = NG(xe)
            except IndexError as e:
                if len(space.shape) > 1:
                    raise Violation(
                        'C09|numgrad-crash|NumericalGradient|ndim={}'.format(
                            len(space.shape)),
                        'NumericalGradient on a space of shape {} raises '
                        'IndexError: {}'.format(space.shape, str(e)[:80]))
                raise
            if nge not in space:
                raise Violation(sig('numgrad-space'),
                                'NumericalGradient(f)(x) is not an element '
                                'of the domain')
            ngf = flat.flat(nge, space)
            ngv = inner(nge, de)
            hit('numgrad')
            strata.append('numgrad:' + method)
            strata.append('numgrad-step:' + ('given' if given else 'default'))
            if len(space.shape) > 1:
                strata.append('numgrad:ndim>1')
            # values at x and at x +- h e_i (h/2 for 'central'): the
            # documented quotient and a bound for its truncation error
            hh = 0.5 * step if method == 'central' else step
            f0 = value_at(xe)
            fp, fm = np.empty(n), np.empty(n)
            for k in range(n):
                e = np.zeros(n)
                e[k] = hh
                fp[k] = value_at(X(xf + e)[0])
                fm[k] = value_at(X(xf - e)[0])
            fabs = max(abs(f0), float(np.max(np.abs(fp))),
                       float(np.max(np.abs(fm))), fscale)
            round_ = 64 * eps * fabs / step
            if method == 'central':
                quot = (fp - fm) / step
                trunc = np.zeros(n)
            elif method == 'forward':
                quot = (fp - f0) / step
                trunc = np.abs(fp - 2 * f0 + fm) / step
            else:
                quot = (f0 - fm) / step
                trunc = np.abs(fp - 2 * f0 + fm) / step
            wd = geo.w * np.abs(df)
            t = 1e-5 * (G + abs(best) + fscale / xs_) + 16 * err + \
                float(np.sum(wd * (round_ + 2 * trunc)))
            if abs(ngv - best) > t:
                raise Violation(
                    'C09|numgrad|NumericalGradient|w={},ndim={}'.format(
                        Z.wcoarse(sd), len(space.shape)),
                    '<NumericalGradient(f, method={!r})(x), d> = {!r} but the '
                    'directional derivative is {!r} (tol {:.3g}); f={} x={} '
                    'd={}'.format(method, ngv, best, t, who, xf.tolist(),
                                  df.tolist()))
            if not ng_known and np.all(np.isfinite(quot)):
                # the documented difference quotient, entry by entry, from
                # the library's own values (judged by the value clauses)
                hit('numgrad-formula')
                if not np.all(np.abs(ngf - quot) <= round_):
                    k = int(np.argmax(np.abs(ngf - quot)))
                    raise Violation(
                        'C09|numgrad-formula|NumericalGradient|method={},'
                        'step={}'.format(method,
                                         'given' if given else 'default'),
                        'NumericalGradient(f, method={!r}, step={!r})(x)[{}] '
                        '= {!r} but the documented difference quotient of '
                        'the values is {!r} (tol {:.3g}); f={} x={}'.format(
                            method, step, k, float(ngf[k]), float(quot[k]),
                            round_, who, xf.tolist()))

    # ---- (6) history: results depend on the functional and on the *values*
    # of point and direction only -- not on which calls were made before, not
    # on the identity of the element objects, not on what the caller did to
    # results handed out earlier.  Must stay the last clause: it updates x
    # and d in place.
    if twin is not None:
        _history(B, twin, sig, hit, strata, X, inner, sk, n, eps, no_call,
                 value_at, f, grad, xe, xf, de, df, ge, gf, D, dv, tder,
                 0.5 * h0, fscale, xs_,
                 fresh if sk != 'field' else None)

    nontrivial = judged and (abs(g) > 0 or abs(best) > 0) and \
        (bool(B.children) or sk != 'rn' or wk != 'unit')
    return Outcome('ok' if judged else 'trivial', strata=strata,
                   nontrivial=nontrivial, notes=notes)


def _history(B, twin, sig, hit, strata, X, inner, sk, n, eps, no_call,
             value_at, f, grad, xe, xf, de, df, ge, gf, D, dv, tder, tau,
             fscale, xs_, outbuf):
    """History clause (see the module docstring).  ``f``, ``grad``, ``D``,
    ``xe``, ``de``, ``ge``, ``outbuf`` are the *used* objects of the clauses
    before; ``twin`` is the same expression built afresh, evaluated on fresh
    elements only."""
    space, geo = B.space, B.geo
    field = sk == 'field'
    hit('history')

    def hsig(what):
        return sig('history') + ',' + what

    def gtol_of(v):
        return 256 * eps * max(n, 1) * (
            float(np.max(np.abs(v))) + fscale / xs_) + 1e-300

    def gflat(e, what, sp=space):
        if field:
            return np.array([float(e)])
        if e not in sp:
            raise Violation(hsig(what), 'gradient call does not give an '
                            'element of the domain')
        return flat.flat(e, sp)

    # the twin lives on its own space objects (spaces with array weightings
    # compare by identity)
    tspace = twin.space

    def X2(v):
        return Z.elem(tspace, v)

    # (a) results handed out earlier are values: the calls made since (other
    # points, other call styles, the Lipschitz pairs) must not have changed
    # them
    if not field and not np.array_equal(flat.flat(ge, space), gf):
        raise Violation(
            hsig('retained-gradient'),
            'the element returned by the first gradient(x) call was altered '
            'by later calls of the same gradient operator at other points: '
            'now {} instead of {}'.format(flat.flat(ge, space).tolist(),
                                          gf.tolist()))
    dv_again = _fval(D(de))
    if not abs(dv_again - dv) <= tder:
        raise Violation(
            hsig('retained-derivative'),
            'D = f.derivative(x) gives D(d) = {!r} after later calls of the '
            'functional at other points, but gave {!r} right after its '
            'construction (x and d unchanged)'.format(dv_again, dv))
    if not field and not (np.array_equal(flat.flat(xe, space), xf) and
                          np.array_equal(flat.flat(de, space), df)):
        raise Violation(hsig('operand-modified'),
                        'the evaluation point or the direction was modified '
                        'by gradient / derivative calls')

    # (b) the caller may do what it likes with a returned gradient (solvers
    # scale and add to it in place); later results must not notice
    if not field and ge is not xe and ge is not de:
        ge.lincomb(-3.0, ge, 1.0, de)
        if not np.array_equal(flat.flat(xe, space), xf):
            raise Violation(hsig('result-alias'),
                            'gradient(x) returned an element that shares '
                            'memory with x')
        gb = gflat(grad(xe), 'result-alias')
        if not np.all(np.abs(gb - gf) <= gtol_of(gf)):
            raise Violation(
                hsig('result-alias'),
                'after the caller modified the element returned by '
                'gradient(x) in place, gradient(x) gives {} instead of {} '
                '(x unchanged): the result shares state with the functional'
                ''.format(gb.tolist(), gf.tolist()))

    # (c) the same point object, updated in place (every iterative solver
    # does that), against the twin at a fresh element with the same values
    fx_old = None if no_call else value_at(xe)
    if field:
        xe = float(xe) + tau * float(de)
        x2f = np.array([xe])
    else:
        xe.lincomb(1.0, xe, tau, de)
        x2f = flat.flat(xe, space)
    x2e, _ = X2(x2f)
    d2e, _ = X2(df)
    F2 = twin.f
    exp_g = gflat(F2.gradient(x2e), 'twin', tspace)
    DT = F2.derivative(x2e)
    exp_dv = _fval(DT(d2e))
    if not (np.all(np.isfinite(exp_g)) and np.isfinite(exp_dv)):
        strata.append('history:not-finite')
        return
    gtol = gtol_of(exp_g)
    tval = None
    if np.any(np.abs(exp_g - gf) > 64 * gtol):
        strata.append('history:grad-moved')

    def stale(got, old, tol):
        return (' (that is the result for the previous content of x)'
                if np.all(np.abs(np.asarray(got) - np.asarray(old)) <= tol)
                else '')

    if not no_call:
        exp_v = _fval(twin.value(x2e))
        got_v = value_at(xe)
        tval = 512 * eps * max(n, 1) * (1.0 + abs(exp_v) + fscale)
        if np.isfinite(exp_v) and not abs(got_v - exp_v) <= tval:
            raise Violation(
                hsig('inplace-point:value'),
                'after updating x in place f(x) = {!r}, but a freshly built '
                'functional gives {!r} at a fresh element with the same '
                'values{}; x={}'.format(got_v, exp_v,
                                        stale(got_v, fx_old, tval),
                                        x2f.tolist()))
        if np.isfinite(exp_v) and abs(exp_v - fx_old) > 64 * tval:
            strata.append('history:value-moved')

    def cmp_grad(got, what, how):
        gv = gflat(got, what)
        if not np.all(np.abs(gv - exp_g) <= gtol):
            k = int(np.argmax(np.where(np.isnan(gv - exp_g), np.inf,
                                       np.abs(gv - exp_g))))
            raise Violation(
                hsig(what),
                'after updating x in place {} has entry {} = {!r}, but a '
                'freshly built functional gives {!r} at a fresh element with '
                'the same values (tol {:.3g}){}; x={}'.format(
                    how, k, float(gv[k]), float(exp_g[k]), gtol,
                    stale(gv, gf, gtol), x2f.tolist()))

    D2 = f.derivative(xe)
    got_dv = _fval(D2(de))
    t2 = 64 * eps * max(n, 1) * (abs(exp_dv) + float(np.sum(
        geo.w * np.abs(exp_g) * np.abs(df)))) + 1e-300
    if not abs(got_dv - exp_dv) <= t2:
        raise Violation(
            hsig('inplace-point:derivative'),
            'after updating x in place f.derivative(x)(d) = {!r}, but a '
            'freshly built functional gives {!r} at a fresh element with the '
            'same values (tol {:.3g}){}; x={} d={}'.format(
                got_dv, exp_dv, t2, stale(got_dv, dv, tder), x2f.tolist(),
                df.tolist()))
    cmp_grad(grad(xe), 'inplace-point:gradient', 'gradient(x)')
    if outbuf is not None:
        grad(xe, out=outbuf)
        cmp_grad(outbuf, 'inplace-point:gradient-out',
                 'gradient(x, out=g) (g used as out before)')

    # (d) the same direction object, updated in place, on the retained
    # derivative operator
    if field:
        de = -0.5 * float(de) + 0.25 * float(xe)
        d3f = np.array([de])
    else:
        de.lincomb(-0.5, de, 0.25, xe)
        d3f = flat.flat(de, space)
    d3e, _ = X2(d3f)
    exp_dv3 = _fval(DT(d3e))
    got_dv3 = _fval(D2(de))
    t3 = 64 * eps * max(n, 1) * (abs(exp_dv3) + float(np.sum(
        geo.w * np.abs(exp_g) * np.abs(d3f)))) + 1e-300
    if np.isfinite(exp_dv3) and not abs(got_dv3 - exp_dv3) <= t3:
        raise Violation(
            hsig('inplace-direction'),
            'D = f.derivative(x): after updating d in place D(d) = {!r}, '
            'but a freshly built functional gives {!r} for a fresh element '
            'with the same values (tol {:.3g}){}; x={} d={}'.format(
                got_dv3, exp_dv3, t3, stale(got_dv3, got_dv, t2),
                x2f.tolist(), d3f.tolist()))


def _pull(ref, center, v):
    """Map v into the interior of dom f along the segment from the
    reference centre (bisection on the domain residual)."""
    res = ref.dom_residual
    r = res(v)
    if r is None or r < 0:
        return v
    rc = res(center)
    if rc is None or not rc < 0:
        return v
    lo, hi = 0.0, 1.0
    for _ in range(60):
        mid = 0.5 * (lo + hi)
        if res(center + mid * (v - center)) < 0:
            lo = mid
        else:
            hi = mid
    return center + 0.8 * lo * (v - center)


def _parts_scale(B, xe, xf):
    """Magnitude of the terms of the documented formula (rounding scale)."""
    s = float(np.sum(B.geo.w * (np.abs(xf) + xf * xf)))
    for c in B.children:
        try:
            if c.space is B.space or c.space == B.space:
                v = abs(float(c.f(xe)))
                if np.isfinite(v):
                    s += v
        except Exception:  # noqa
            pass
    if B.cls == 'quadperturb':
        s *= 1.0 + abs(B.ref.a) if B.ref is not None else 1.0
    if B.cls in ('product', 'quotient'):
        s = s * s + s
    return s


def _no_gradient_expected(B):
    """Functionals whose gradient is documented as not available."""
    for b in B.nodes():
        if b.cls == 'LpNorm' and b.ref.p not in (1.0, 2.0):
            return True
        if b.cls in ('IndicatorBox', 'IndicatorNonnegativity',
                     'IndicatorLpUnitBall', 'IndicatorZero',
                     'IndicatorGroupL1UnitBall', 'NuclearNorm',
                     'IndicatorNuclearNormUnitBall'):
            return True
    return False
