"""C02 - inner, norm, dist: axioms and the documented weighting.

Generator: space (tensor / uniformly discretized with every per-side
``nodes_on_bdry`` choice / partitions with arbitrary boundary-cell fractions /
non-uniform partitions / nested product spaces incl. empty ones) x dtype
(real, complex, integer; mixed inside products) x weighting kind (none,
constant, array, the three named custom functions, cell volume) x exponent
class (2, 1, inf, generic p) x memory layout (C, F, strided, reversed) x size
regime (1..9, 99/100/101, 300, 49 999/50 000/50 001) x element classes
(generic, zero, y == x, near pair) x scalar classes.  Domain limits mix integer /
dyadic values on purpose so that "cell volume == 1.0 exactly and a node on
the boundary" (finding F02) is a populated stratum.
Oracle: ``vlib.ref.norms`` evaluates the documented formulas in long double
from the plain descriptor (never imports odl; boundary fractions recomputed
from coordinate vectors and domain limits), at the top level and recursively
in every component of a product space; on top of that the algebraic laws
(conjugate symmetry, linearity, positivity, Cauchy-Schwarz, homogeneity,
triangle, norm = sqrt(inner), dist = norm of the difference = symmetric,
``||1||_p^p`` = domain volume), documented absences (``inner`` for p != 2,
custom norm/dist) and non-mutation of the arguments.
"""
import numpy as np
from hypothesis import strategies as st

from vlib import build, spacex, strategies as vs
from vlib.core import Violation, Outcome, HarnessError
from vlib.ref import norms

PROPERTY = 'C02'
TECHNIQUE = ('Hypothesis property-based testing: generated (space, weighting, '
             'exponent, boundary-node layout, elements, scalars) cases '
             'against an independent long-double model of the documented '
             'weighted inner products / p-norms plus the norm / inner-product '
             'axioms; descriptor replay')
LEVEL_TEXT = ('Generated-input search over space class x dtype x weighting '
              'kind x exponent class x nodes_on_bdry per axis side x layout x '
              'size regime; every case compares inner / norm / dist with a '
              'reference model written from the documentation (NumPy long '
              'double, never imports odl, boundary-cell fractions recomputed '
              'from coordinates) at every level of nested product spaces, '
              'and checks the algebraic laws on the library results. '
              'Exploration, not proof: the strata (incl. "cell volume exactly '
              '1.0 with boundary nodes") are hit by construction and counted, '
              'absence of defects outside the sampled inputs is not shown.')
LEVEL_NOTE = ('Trusted: NumPy long-double arithmetic, Hypothesis, the '
              'descriptor builders (vlib/build.py, vlib/spacex.py), space '
              'arithmetic (lincomb, +, -, scalar *; pinned by C01) used to '
              'form the operands of the laws. Integer spaces only with values '
              'whose products do not overflow the dtype; array weights '
              'strictly positive; sizes >= 1.')
DESIGN_REF = 'DESIGN.md section 5, C02'
BUDGET = {'quick': 6000, 'thorough': 60000}
TOLERANCES = {
    'formula': '|got - ref| <= (4 N + 64) * eps * M with N = number of scalar '
               'entries, eps = machine epsilon of the narrowest component '
               'dtype (float64 for integers), M = sum of |terms| (inner) / '
               'the value itself (norm)',
    'dist': '|dist(x,y) - ref| <= (4 N + 64) eps ref + ||e|| + floor, ref = '
            '||x - y|| in long double from the stored values (result-'
            'relative: fl(x_i - y_i) has relative error eps). e_i = k_i eps '
            '(|x_i| + |y_i|) only on the k_i-fold scaled boundary entries of '
            'uniformly discretized spaces with a boundary fraction != 1 and '
            'p < inf (the library scales x and y by frac^(1/p) before '
            'subtracting; triangle inequality), 0 elsewhere; floor = (sum(w) '
            '* tiny(dtype))^(1/p) for p < inf (terms w |d|^p below the '
            'smallest normal number may be lost), reduced like a norm over '
            'product spaces. dist(y,x) and the library norm(x - y) within '
            'twice that bound; dist(x,y) > 0 for x != y unless ref <= 4 '
            '(||e|| + floor)',
    'laws': 'same relative factor applied to the natural magnitude of each '
            'law (|s| M_xy + |t| M_zy for linearity, ||x|| ||y|| for '
            'Cauchy-Schwarz, ...)',
    'one': "| ||1|| - vol^(1/p) | <= (4 N + 64) eps vol^(1/p)",
    'element methods': 'x.norm(), x.inner(y), x.dist(y) are bit-identical to '
                       'the space methods',
    'operands': 'bit-identical to pre-call copies',
}
ASSUMPTIONS = [
    'array weights and weighting constants are strictly positive (docs: not '
    'checked by the library)',
    'integer tensor spaces carry the default weighting only; their entries '
    'and the scalars are small enough that no product or sum overflows the '
    'dtype (int8/uint8: |entries| <= 2, <= 7 entries); no wrap-around '
    'semantics are asserted; dist is not asserted on unsigned spaces (x - y '
    'wraps)',
    'non-zero float entries have magnitude in [1e-3, 1e3] (smaller ones '
    'are flushed to zero), generic exponents <= 7.25, so that |x|^p neither '
    'overflows nor underflows in float32',
    'boundary-cell fractions are 1 (up to rounding) or differ from 1 by '
    '>= 0.25 (the library treats fractions within 1e-5 of 1 as 1)',
    'custom inner/norm/dist: three fixed named functions with closed forms; '
    'pass-through and documented absences are asserted',
    'non-uniform partitions: DiscretizedSpace(partition, tspace) uses the '
    'weighting of tspace as given (no quadrature weights are documented)',
]
RULE = ('Hypothesis draws (space descriptor, x, y, z, s, t); non-trivial = '
        '(weighted or boundary node or product space or non-C layout or size '
        '> 50 000 or exponent != 2) and x, y not both zero; distinct by sha1 '
        'of the case descriptor')
REQUIRED_STRATA = [
    'w:none', 'w:const', 'w:array', 'w:cellvol', 'w:custom_inner',
    'w:custom_norm', 'w:custom_dist', 'p:2', 'p:1', 'p:inf', 'p:gen',
    'bdry', 'cellvol==1', 'bdry&cellvol==1&p<inf', 'kind:discr',
    'kind:discr_coords', 'kind:pspace', 'kind:tensor', 'nonuniform',
    'regime:large', 'dt:cplx', 'dt:int', 'dt:f32', 'pspace:nested',
    'pspace:mixed-dtype', 'layout:noncontig',
    'one-vol-checked', 'inner-absent-checked', 'frac:generic', 'pair=near',
]

INF = float('inf')
GEN_EXPONENTS = [1.5, 3.0, 2.5, 7.25]
DTYPES = {'real': ['float64', 'float64', 'float32'],
          'cplx': ['complex128', 'complex128', 'complex64'],
          'int': ['int64', 'int32', 'int8', 'uint8']}
DYADIC_LO = [0.0, 1.0, -1.0, 2.0, -2.0, 0.5, -0.5, 4.0, -3.0]
# cell sides whose product is exactly 1.0, per number of axes
UNIT_SIDES = {1: [[1.0]],
              2: [[1.0, 1.0], [2.0, 0.5], [0.25, 4.0], [0.5, 2.0]],
              3: [[1.0, 1.0, 1.0], [2.0, 1.0, 0.5], [0.5, 0.5, 4.0],
                  [4.0, 0.25, 1.0]]}
FRACS = [0.5, 0.5, 0.75, 1.0, 1.0, 1.25, 1.5, 2.0]


# --------------------------------------------------------------------------
# strategy

@st.composite
def _exponent(draw, weights=(5, 2, 2, 2)):
    cls = draw(st.sampled_from(['2'] * weights[0] + ['1'] * weights[1] +
                               ['inf'] * weights[2] + ['gen'] * weights[3]))
    if cls == '2':
        return 2.0
    if cls == '1':
        return 1.0
    if cls == 'inf':
        return INF
    return draw(st.sampled_from(GEN_EXPONENTS))


@st.composite
def _leaf_weighting(draw, shape, kind, custom=True, p2only=False):
    if kind == 'int':
        return None
    kinds = ['none', 'none', 'const', 'const']
    if int(np.prod(shape, dtype=int)) <= 400:
        # (array weights are explicit data in the descriptor)
        kinds += ['array', 'array']
    else:
        kinds += ['array-gen', 'array-gen']
    if custom:
        kinds += ['custom']
    wk = draw(st.sampled_from(kinds))
    if wk == 'array-gen':
        # large spaces: the weights are expanded from a drawn seed
        w = {'type': 'array', 'gen': {'seed': draw(st.integers(0, 2 ** 31 - 1))}}
        if draw(st.booleans()):
            w['as64'] = True
        return w
    if wk == 'custom':
        return {'type': 'custom',
                'which': 'inner' if p2only else draw(st.sampled_from(
                    ['inner', 'norm', 'dist']))}
    w = draw(vs.weightings(shape, (wk,)))
    if wk == 'array' and draw(st.booleans()):
        # float64 weights as given, also on float32 / complex64 spaces
        w['as64'] = True
    return w


@st.composite
def _tensor_leaf(draw, kind, size=None, dtype=None, p2only=False,
                 shape=None):
    dtype = dtype or draw(st.sampled_from(DTYPES[kind]))
    narrow = dtype in ('int8', 'uint8')
    if size is None:
        size = draw(st.sampled_from([1, 2, 3, 4, 5, 7] if narrow
                                    else vs.SIZE_STRATA))
    if shape is None:
        shape = list(draw(vs.shapes_for_size(
            size, max_ndim=3 if size < 1000 else 2)))
    w = draw(_leaf_weighting(shape, kind, custom=size < 1000,
                             p2only=p2only))
    if p2only or (w is not None and w['type'] == 'custom'):
        p = 2.0
    else:
        p = draw(_exponent())
    return {'kind': 'tensor', 'shape': shape, 'dtype': dtype,
            'weighting': w, 'exponent': p}


@st.composite
def _nob(draw, shape):
    style = draw(st.sampled_from(['false', 'true', 'per_side', 'per_side']))
    if style == 'false':
        return False
    if style == 'true':
        return True
    return [[draw(st.booleans()), draw(st.booleans())] for _ in shape]


def _nob_pairs(nob, ndim):
    if isinstance(nob, bool):
        return [(nob, nob)] * ndim
    return [(bool(p[0]), bool(p[1])) for p in nob]


@st.composite
def _discr_leaf(draw, kind, dtype=None, small=False, p2only=False):
    dtype = dtype or draw(st.sampled_from(DTYPES[kind]))
    narrow = dtype in ('int8', 'uint8')
    large = (not small and kind != 'int' and
             draw(st.integers(0, 24)) == 0)
    if large:
        shape = draw(st.sampled_from([[50001], [251, 200], [50000]]))
    elif narrow:
        shape = draw(st.sampled_from([[2], [3], [5], [2, 2], [2, 3], [1, 4],
                                      [7], [1]]))
    else:
        shape = draw(vs.small_shapes(min_ndim=1, max_ndim=3, min_side=1,
                                     max_side=6, max_size=12 if small
                                     else 72))
    nd = len(shape)
    nob = draw(_nob(shape))
    pairs = _nob_pairs(nob, nd)
    mode = draw(st.sampled_from(['unitvol', 'unitvol', 'int', 'generic']))
    mins, maxs = [], []
    if mode == 'unitvol':
        sides = draw(st.sampled_from(UNIT_SIDES[nd]))
        for n, (l, r), s in zip(shape, pairs, sides):
            lo = draw(st.sampled_from(DYADIC_LO))
            ext = s * (n - (l + r) / 2.0) if n > 1 else s
            mins.append(lo)
            maxs.append(lo + ext)
    else:
        for n in shape:
            if mode == 'int':
                lo = float(draw(st.integers(-4, 4)))
                ext = float(draw(st.integers(1, 8)))
            else:
                lo = draw(st.floats(-5, 5).map(vs._round))
                ext = draw(st.floats(0.1, 8.0).map(vs._round))
            mins.append(lo)
            maxs.append(lo + ext)
    w = draw(_leaf_weighting(shape, kind, custom=False)) \
        if draw(st.integers(0, 2)) == 0 else None
    sd = {'kind': 'discr', 'min': mins, 'max': maxs, 'shape': list(shape),
          'nodes_on_bdry': nob, 'dtype': dtype,
          'exponent': 2.0 if p2only else draw(_exponent((5, 2, 1, 2))),
          'weighting': w}
    return sd


@st.composite
def _coords_leaf(draw, kind, dtype=None, p2only=False):
    """Partition given by coordinate vectors and limits: arbitrary boundary
    cell fractions (uniform) or a non-uniform grid."""
    dtype = dtype or draw(st.sampled_from(DTYPES[kind]))
    narrow = dtype in ('int8', 'uint8')
    nd = draw(st.integers(1, 2))
    nonuniform = draw(st.integers(0, 2)) == 0
    coords, mins, maxs, shape = [], [], [], []
    all_uniform = True
    for ax in range(nd):
        n = draw(st.integers(1, 3 if narrow else 5))
        if nonuniform and ax == 0:
            n = max(n, 3)
        c0 = draw(st.sampled_from(DYADIC_LO))
        if n == 1:
            a, b = draw(st.sampled_from([(0.0, 1.0), (1.0, 0.0), (0.5, 0.5),
                                         (1.0, 2.0), (0.25, 0.75)]))
            coords.append([c0])
            mins.append(c0 - a)
            maxs.append(c0 + b)
        elif nonuniform and ax == 0:
            gaps = draw(st.lists(st.sampled_from([1.0, 2.5, 0.5, 4.0]),
                                 min_size=n - 1, max_size=n - 1))
            if len(set(gaps)) == 1:
                gaps[-1] = gaps[0] * 2.0
            c = [c0]
            for g in gaps:
                c.append(c[-1] + g)
            coords.append(c)
            mins.append(c[0] - draw(st.sampled_from([0.0, 0.5, 1.0])))
            maxs.append(c[-1] + draw(st.sampled_from([0.0, 0.5, 1.0])))
            all_uniform = False
        else:
            s = draw(st.sampled_from([1.0, 0.5, 2.0, 0.25, 1.0]) |
                     st.floats(0.1, 3.0).map(vs._round))
            fl = draw(st.sampled_from(FRACS))
            fr = draw(st.sampled_from(FRACS))
            c = [c0 + s * k for k in range(n)]
            coords.append(c)
            mins.append(c[0] - (fl - 0.5) * s)
            maxs.append(c[-1] + (fr - 0.5) * s)
        shape.append(n)
    w = draw(_leaf_weighting(shape, kind, custom=False)) \
        if draw(st.integers(0, 2)) == 0 else None
    return {'kind': 'discr_coords', 'coords': coords, 'min': mins,
            'max': maxs, 'shape': shape, 'uniform': all_uniform,
            'dtype': dtype,
            'exponent': 2.0 if p2only else draw(_exponent((5, 2, 1, 2))),
            'weighting': w}


@st.composite
def _pspace(draw, kind, depth):
    """Recursive product space, length 0-4, power / non-power."""
    dtype_mode = draw(st.sampled_from(['same', 'mixed']))
    fixed_dtype = draw(st.sampled_from(DTYPES[kind]))
    # half of the product spaces are Hilbert spaces throughout (exponent 2
    # and an inner product at every level), the others mix exponents and
    # custom norms / distances freely
    p2only = draw(st.integers(0, 2)) > 0

    def leaf():
        dt = fixed_dtype
        lk = kind
        if dtype_mode == 'mixed':
            # same field: real floats of both widths and (rarely) integers
            if kind == 'real' and draw(st.integers(0, 2)) == 0:
                lk = 'int'
                dt = draw(st.sampled_from(['int64', 'int32']))
            else:
                dt = draw(st.sampled_from(DTYPES[kind]))
        which = draw(st.sampled_from(['tensor', 'tensor', 'discr',
                                      'coords']))
        if which == 'tensor':
            narrow = dt in ('int8', 'uint8')
            size = draw(st.sampled_from([1, 2, 3] if narrow else
                                        [1, 2, 3, 5, 99, 100, 101]))
            return draw(_tensor_leaf(lk, size=size, dtype=dt, p2only=p2only))
        if which == 'discr':
            return draw(_discr_leaf(lk, dtype=dt, small=True, p2only=p2only))
        return draw(_coords_leaf(lk, dtype=dt, p2only=p2only))

    def rec(d):
        if d == 0:
            return leaf()
        n = draw(st.sampled_from([0] + [1, 2, 2, 3, 3, 4] * 3))
        power = draw(st.booleans())
        sd = {'kind': 'pspace'}
        if power:
            sd['base'] = rec(d - 1)
            sd['power'] = n
        else:
            sd['parts'] = [rec(draw(st.integers(0, d - 1)))
                           for _ in range(n)]
            sd['power'] = None
            if n == 0:
                sd['field'] = 'complex' if kind == 'cplx' else 'real'
        wk = draw(st.sampled_from(['none', 'none', 'const', 'array',
                                   'array', 'custom']))
        sd['exponent'] = 2.0 if p2only else draw(_exponent())
        if wk == 'none':
            sd['weighting'] = None
        elif wk == 'const':
            sd['weighting'] = {'type': 'const', 'value': draw(
                vs.float_values(positive=True))}
        elif wk == 'array':
            sd['weighting'] = {'type': 'array', 'data': draw(st.lists(
                vs.float_values(positive=True), min_size=n, max_size=n))}
        else:
            sd['weighting'] = {'type': 'custom', 'which': 'inner' if p2only
                               else draw(st.sampled_from(['inner', 'norm',
                                                          'dist']))}
            sd['exponent'] = 2.0
        return sd

    return rec(depth)


@st.composite
def _space(draw):
    kind = draw(st.sampled_from(['real', 'real', 'real', 'cplx', 'cplx',
                                 'int']))
    sk = draw(st.sampled_from(['tensor', 'tensor', 'discr', 'discr', 'discr',
                               'coords', 'pspace', 'pspace', 'large']))
    if sk == 'large':
        if kind == 'int':
            kind = 'real'
        size = draw(st.sampled_from(vs.LARGE_SIZES))
        if draw(st.integers(0, 3)) == 0:
            # one axis alone crosses the size threshold: size-dependent code
            # paths must be chosen by the entry count, not by len(x)
            k = draw(st.sampled_from([2, 3]))
            shape = list(draw(st.permutations([size, k])))
            return kind, draw(_tensor_leaf(kind, size=size * k, shape=shape))
        return kind, draw(_tensor_leaf(kind, size=size))
    if sk == 'tensor':
        return kind, draw(_tensor_leaf(kind))
    if sk == 'discr':
        if kind == 'int' and draw(st.integers(0, 2)) > 0:
            # (most integer discretizations with boundary nodes only
            # reproduce known finding C02-K3)
            return kind, draw(_tensor_leaf(kind))
        return kind, draw(_discr_leaf(kind))
    if sk == 'coords':
        return kind, draw(_coords_leaf(kind))
    depth = draw(st.sampled_from([1, 1, 2, 2, 3]))
    return kind, draw(_pspace(kind, depth))


@st.composite
def _scalar(draw, kind):
    cls = draw(st.sampled_from(['zero', 'one', 'mone', 'generic', 'generic',
                                'generic']))
    if cls == 'zero':
        v = 0
    elif cls == 'one':
        v = 1
    elif cls == 'mone':
        v = -1
    elif kind == 'int':
        v = draw(st.integers(-3, 3))
    else:
        v = float(np.float32(draw(st.floats(0.05, 4.0))))
        if draw(st.booleans()):
            v = -v
        if kind == 'cplx' and draw(st.booleans()):
            v = complex(v, float(np.float32(draw(st.floats(-2, 2)))))
    if kind != 'int' and cls != 'generic' and draw(st.booleans()):
        v = float(v)
    return {'cls': cls, 'value': v}


@st.composite
def _strategy(draw):
    kind, sd = draw(_space())
    leaves = build.leaf_descs(sd)
    total = sum(build.space_size(l) for l in leaves)
    orders = ('C', 'F', 'strided', 'rev') if total < 40000 else \
        ('C', 'C', 'F', 'strided')
    desc = {'space': sd, 'kind': kind}
    for key in ('x', 'y', 'z'):
        desc[key] = draw(vs.element_descs(sd, orders=orders))
    desc['s'] = draw(_scalar(kind))
    desc['t'] = draw(_scalar(kind))
    desc['xclass'] = draw(st.sampled_from(['generic'] * 7 + [
        'zero', 'y_eq_x', 'near', 'near', 'near']))
    if desc['xclass'] == 'near':
        # y = x (1 +- 2^k eps) on the masked entries, |x| in 1 .. 1e3
        desc['near'] = {'k': draw(st.integers(0, 12)),
                        'mask': draw(st.sampled_from(['all', 'first', 'last',
                                                      'alternate'])),
                        'sign': draw(st.sampled_from([1, -1]))}
    return desc


def strategy(tier):
    return _strategy()


# --------------------------------------------------------------------------
# helpers

def _values(elem):
    """Nested lists of copies of the leaf arrays of an element."""
    from odl.space.pspace import ProductSpaceElement
    if isinstance(elem, ProductSpaceElement):
        return [_values(p) for p in elem]
    return np.array(elem.asarray(), copy=True)


def _flat(vals):
    return build.flatten_values(vals)


def _bits_equal(a, b):
    return a.shape == b.shape and a.dtype == b.dtype and \
        np.ascontiguousarray(a).tobytes() == np.ascontiguousarray(b).tobytes()


def _tame(elem, zero=False):
    """Keep integer entries small enough that nothing overflows; optionally
    zero the element.  Deterministic function of the built element."""
    for arr in build.leaf_arrays_of(elem):
        if zero:
            arr[...] = 0
        elif arr.dtype in (np.dtype('int8'), np.dtype('uint8')):
            arr[...] = np.sign(arr) * (np.abs(arr) % 3)
        elif arr.dtype.kind in 'iu':
            arr[...] = np.sign(arr) * (np.abs(arr) % 10)
        else:
            # no denormal-range entries: |x|^p must not underflow in float32
            arr[np.abs(arr) < 1e-3] = 0


def _near_pair(x, y, nd):
    """Make (x, y) a pair of nearly equal elements of comparatively large
    norm: |x_i| in [1, 1e3] and y_i = fl(x_i (1 + s 2^k eps)) on the masked
    entries (float64: relative distance 2e-10 .. 1e-6, float32: 1e-6 ..
    5e-4; integers: y_i = x_i + 1), y_i = x_i elsewhere.  fl(x_i - y_i) is
    exact (Sterbenz)."""
    for a, b in zip(build.leaf_arrays_of(x), build.leaf_arrays_of(y)):
        n = a.size
        idx = np.arange(n).reshape(a.shape)
        mask = {'all': idx >= 0, 'first': idx == 0, 'last': idx == n - 1,
                'alternate': idx % 2 == 0}[nd['mask']]
        if a.dtype.kind in 'iu':
            b[...] = a + mask.astype(a.dtype)
            continue
        small = np.abs(a) < 1
        a[small] = a[small] + 1        # (|v + 1| >= 1 may fail for complex)
        small = np.abs(a) < 1
        a[small] = 1
        eps = np.finfo(a.dtype).eps
        k = 20 + nd['k'] if eps < 1e-10 else 3 + min(nd['k'], 9)
        fac = 1 + nd['sign'] * float(eps) * 2.0 ** k
        b[...] = np.where(mask, a * a.dtype.type(fac), a)


def _assign(dst, src):
    for a, b in zip(build.leaf_arrays_of(dst), build.leaf_arrays_of(src)):
        a[...] = b


def _pclass(p):
    return {2.0: '2', 1.0: '1', INF: 'inf'}.get(p, 'gen')


def _dtkinds(sd):
    ks = set()
    for l in build.leaf_descs(sd):
        dt = np.dtype(l.get('dtype', 'float64'))
        ks.add({'f': 'real', 'c': 'cplx', 'i': 'int', 'u': 'int'}[dt.kind])
    return ks


def _leaf_dtypes(sd):
    return set(np.dtype(l.get('dtype', 'float64'))
               for l in build.leaf_descs(sd))


def _has_empty(sd):
    """The product space itself has no components."""
    return sd['kind'] == 'pspace' and not build.space_parts(sd)


def _taints(sd, node):
    """Regions of known findings among the *descendants* of a product
    space: their defects surface in the parent's results as well (the
    parent reduces the components' norms / inner products), so the parent's
    signature has to carry them."""
    out = set()
    if node['leaf']:
        return out
    for psd, pnode in zip(build.space_parts(sd), node['parts']):
        if pnode['leaf']:
            dt = np.dtype(psd.get('dtype', 'float64'))
            if dt.kind in 'iu' and pnode['bdry']:
                out.add('sub:int-bdry')
        else:
            if _has_empty(psd):
                out.add('sub:empty')
            if pnode['p'] == 2.0 and not all(c['has_inner']
                                             for c in pnode['parts']):
                out.add('sub:comp-no-inner')
            if not all(c['has_norm'] for c in pnode['parts']):
                out.add('sub:comp-no-norm')
            out |= _taints(psd, pnode)
    return out


def _region(sd, node):
    """Region part of a signature: everything the code paths branch on."""
    ks = _dtkinds(sd)
    dtk = 'mixed' if len(ks) > 1 else (next(iter(ks)) if ks else 'none')
    parts = ['w=' + node['wkind'], 'p=' + _pclass(float(sd.get(
        'exponent', 2.0)) if node['custom'] is None else node['p']),
        'dt=' + dtk]
    if node['leaf']:
        if node['bdry']:
            parts.append('bdry')
        if node['cellvol'] == 1.0:
            parts.append('cellvol=1')
    else:
        if _has_empty(sd):
            parts.append('empty')
        if node['p'] == 2.0 and not all(c['has_inner']
                                        for c in node['parts']):
            parts.append('comp-no-inner')
        if not all(c['has_norm'] for c in node['parts']):
            parts.append('comp-no-norm')
        parts.extend(sorted(_taints(sd, node)))
    return ','.join(parts)


def _site(sd):
    return {'tensor': 'tensor', 'discr': 'discr', 'discr_coords': 'discr',
            'pspace': 'pspace'}[sd['kind']]


class _Ctx(object):
    def __init__(self):
        self.strata = set()
        self.notes = {}

    def count(self, key):
        self.notes[key] = self.notes.get(key, 0) + 1


def _call(fn, what, site, region):
    """('ok', value) | ('absent', None); anything else the library raises is
    a violation keyed by the exception type and the region."""
    try:
        return 'ok', fn()
    except NotImplementedError:
        return 'absent', None
    except Exception as e:  # noqa
        raise Violation('C02|raises|{}:{}|{}|{}'.format(
            what, type(e).__name__, site, region), repr(e)[:300])


def _tol(node):
    return (4.0 * node['size'] + 64.0) * node['eps']


def _fmt(v):
    try:
        return repr(complex(v)) if np.iscomplexobj(v) else repr(float(v))
    except Exception:  # noqa
        return repr(v)


def _check_formulas(space, sd, node, x, y, xv, yv, ctx, unsigned, top):
    """norm / inner / dist of ``x``, ``y`` in ``space`` against the model;
    components of product spaces first, so that a defect is reported at the
    level where it originates.  Returns the library values."""
    site = _site(sd)
    if not node['leaf']:
        parts = build.space_parts(sd)
        for i, (psd, pnode) in enumerate(zip(parts, node['parts'])):
            # a power space has one distinct component space; check its
            # first and last element parts
            if sd.get('power') is not None and 0 < i < len(parts) - 1:
                continue
            _check_formulas(space[i], psd, pnode, x[i], y[i], xv[i], yv[i],
                            ctx, unsigned, False)
    region = _region(sd, node)
    rel = _tol(node)
    tiny = 1e-300
    out = {}

    # ---- norm ------------------------------------------------------------
    status, got = _call(lambda: space.norm(x), 'norm', site, region)
    if node['has_norm']:
        if status == 'absent':
            raise Violation('C02|not-offered|norm|{}|{}'.format(site, region),
                            'norm raises NotImplementedError although the '
                            'documented formula is defined')
        ref = norms.norm(node, xv)
        if not isinstance(got, float):
            raise Violation('C02|type|norm|{}|{}'.format(site, region),
                            'norm returned {!r}'.format(type(got)))
        if not (abs(got - ref) <= rel * ref + tiny) or got < 0:
            raise Violation(
                'C02|formula|norm|{}|{}'.format(site, region),
                'norm {} reference {} (rel err {:.3g}, tol {:.3g})'.format(
                    _fmt(got), _fmt(ref), float(abs(got - ref) /
                                                max(ref, tiny)), rel))
        out['norm'] = got
    else:
        if status != 'absent':
            raise Violation('C02|absence|norm|{}|{}'.format(site, region),
                            'norm documented as not defined but returned '
                            '{!r}'.format(got))
        ctx.strata.add('norm-absent-checked')

    # ---- inner -----------------------------------------------------------
    status, got = _call(lambda: space.inner(x, y), 'inner', site, region)
    if node['has_inner']:
        if status == 'absent':
            raise Violation('C02|not-offered|inner|{}|{}'.format(
                site, region), 'inner raises NotImplementedError for '
                'exponent 2')
        ref, mag = norms.inner(node, xv, yv)
        want_t = complex if node['complex'] else float
        if not isinstance(got, want_t) or (want_t is float and
                                           isinstance(got, bool)):
            raise Violation('C02|type|inner|{}|{}'.format(site, region),
                            'inner returned {!r}, field element expected'
                            ''.format(type(got)))
        err = abs(np.clongdouble(got) - np.clongdouble(ref))
        if not (err <= rel * mag + tiny):
            raise Violation(
                'C02|formula|inner|{}|{}'.format(site, region),
                'inner {} reference {} (err {:.3g}, tol {:.3g})'.format(
                    _fmt(got), _fmt(ref), float(err), float(rel * mag)))
        out['inner'] = got
        out['inner_mag'] = mag
    else:
        if status != 'absent':
            raise Violation('C02|absence|inner|{}|{}'.format(site, region),
                            'no inner product is documented here (exponent '
                            '!= 2 or custom norm/dist) but inner returned '
                            '{!r}'.format(got))
        ctx.strata.add('inner-absent-checked')

    # ---- dist ------------------------------------------------------------
    if not node['has_dist']:
        status, got = _call(lambda: space.dist(x, y), 'dist', site, region)
        if status != 'absent':
            raise Violation('C02|absence|dist|{}|{}'.format(site, region),
                            'dist cannot be defined here but returned {!r}'
                            ''.format(got))
    elif not unsigned:
        status, got = _call(lambda: space.dist(x, y), 'dist', site, region)
        if status == 'absent':
            raise Violation('C02|not-offered|dist|{}|{}'.format(site, region),
                            'dist raises NotImplementedError although the '
                            'documented formula is defined')
        # reference ||x - y|| from the stored (rounded) values of x and y;
        # bound relative to the *result* (fl(x_i - y_i) has relative error
        # eps), plus what the boundary scaling of discretized spaces and
        # underflow of |d|^p can legitimately cost (see vlib.ref.norms)
        ref = norms.dist(node, xv, yv)
        extra = norms.norm(node, norms.boundary_scaling_error(
            node, xv, yv)) + norms.underflow_floor(node)
        tol = rel * ref + extra + tiny
        if not isinstance(got, float):
            raise Violation('C02|type|dist|{}|{}'.format(site, region),
                            'dist returned {!r}'.format(type(got)))
        if not (abs(got - ref) <= tol) or got < 0:
            raise Violation(
                'C02|formula|dist|{}|{}'.format(site, region),
                'dist {} reference {} (err {:.3g}, tol {:.3g} = {:.3g} * '
                'ref + {:.3g})'.format(
                    _fmt(got), _fmt(ref), float(abs(got - ref)),
                    float(tol), rel, float(extra)))
        if got == 0.0 and norms.differ(xv, yv) and ref > 4 * extra:
            raise Violation(
                'C02|dist-positive|dist|{}|{}'.format(site, region),
                'dist(x, y) = 0 for x != y (||x - y|| = {})'.format(
                    _fmt(ref)))
        out['dist'] = got
        out['dist_tol'] = tol

    # ---- ||1||_p^p = volume ----------------------------------------------
    if node['leaf'] and node['default_w'] and node['p'] != INF and \
            node['vol'] is not None:
        status, got = _call(lambda: space.one().norm(), 'one', site, region)
        want = node['vol'] ** (1 / np.longdouble(node['p']))
        if status != 'ok' or not (abs(got - want) <= rel * want):
            raise Violation(
                'C02|one-volume|norm|{}|{}'.format(site, region),
                '||1|| = {} but volume^(1/p) = {} (p = {})'.format(
                    _fmt(got), _fmt(want), node['p']))
        ctx.strata.add('one-vol-checked')
    return out


def _node_strata(sd, node, ctx, depth=0):
    s = ctx.strata
    s.add('kind:' + sd['kind'])
    s.add('w:' + (node['wkind'][11:] if node['wkind'].startswith(
        'nonuniform-') else node['wkind']))
    s.add('p:' + _pclass(float(sd.get('exponent', 2.0))))
    if node['leaf']:
        dt = np.dtype(sd.get('dtype', 'float64'))
        s.add('dt:' + {'f': 'real', 'c': 'cplx', 'i': 'int',
                       'u': 'int'}[dt.kind])
        if dt in (np.dtype('float32'), np.dtype('complex64')):
            s.add('dt:f32')
        if node['wkind'].startswith('nonuniform-'):
            s.add('nonuniform')
        if node['bdry']:
            s.add('bdry')
        if node['cellvol'] == 1.0:
            s.add('cellvol==1')
            if node['bdry'] and node['p'] != INF:
                s.add('bdry&cellvol==1&p<inf')
        if sd['kind'] == 'discr_coords' and sd['uniform'] and node['bdry']:
            s.add('frac:generic')
        if sd['kind'] == 'discr' and isinstance(sd['nodes_on_bdry'], list) \
                and any(p[0] != p[1] for p in sd['nodes_on_bdry']):
            s.add('bdry:asymmetric')
    else:
        parts = build.space_parts(sd)
        if not parts:
            s.add('pspace:empty')
        if any(p['kind'] == 'pspace' for p in parts):
            s.add('pspace:nested')
        if len(_leaf_dtypes(sd)) > 1:
            s.add('pspace:mixed-dtype')
        s.add('pspace:' + ('power' if sd.get('power') is not None
                           else 'product'))
        for psd, pnode in zip(parts[:1] + parts[-1:], node['parts'][:1] +
                              node['parts'][-1:]):
            _node_strata(psd, pnode, ctx, depth + 1)


# --------------------------------------------------------------------------
# the case

def run_case(desc):
    sd = desc['space']
    kind = desc['kind']
    space = spacex.build_space(sd)
    node = norms.model(sd)
    ctx = _Ctx()
    leaves = build.leaf_descs(sd)
    unsigned = any(np.dtype(l.get('dtype', 'float64')).kind == 'u'
                   for l in leaves)
    if sd['kind'] == 'discr_coords' and \
            bool(space.is_uniform) != bool(sd['uniform']):
        raise HarnessError('uniformity flag of the descriptor is wrong')

    x = build.build_element(space, sd, desc['x'])
    y = build.build_element(space, sd, desc['y'])
    z = build.build_element(space, sd, desc['z'])
    _tame(x, zero=desc['xclass'] == 'zero')
    _tame(y)
    _tame(z)
    if desc['xclass'] == 'y_eq_x':
        _assign(y, x)
    elif desc['xclass'] == 'near':
        _near_pair(x, y, desc['near'])
    xv, yv, zv = _values(x), _values(y), _values(z)
    s, t = desc['s']['value'], desc['t']['value']
    if unsigned:
        s, t = abs(s), abs(t)
    if any(np.dtype(l.get('dtype', 'float64')).kind in 'iu' for l in leaves):
        # integer components: integer scalars (float scalars are not
        # admitted on integer spaces), small for the narrow dtypes
        lim = 2 if any(np.dtype(l.get('dtype', 'float64')).name in
                       ('int8', 'uint8') for l in leaves) else 3
        s = int(max(-lim, min(lim, round(np.real(s)))))
        t = int(max(-lim, min(lim, round(np.real(t)))))

    site = _site(sd)
    region = _region(sd, node)
    rel = _tol(node)
    tiny = 1e-300

    # (1) documented formulas, at every level
    got = _check_formulas(space, sd, node, x, y, xv, yv, ctx, unsigned, True)

    # (2) laws on the library's own values (top level)
    def viol(clause, detail):
        raise Violation('C02|law:{}|{}|{}'.format(clause, site, region),
                        detail)

    def lib(fn, what):
        status, val = _call(fn, what, site, region)
        if status != 'ok':
            viol('defined', '{} raised NotImplementedError on a derived '
                 'element'.format(what))
        return val

    if 'norm' in got:
        nx = got['norm']
        ny = lib(lambda: space.norm(y), 'norm')
        if norms.is_zero(_flat(xv)) and nx != 0.0:
            viol('norm-zero', '||0|| = {!r}'.format(nx))
        if not norms.is_zero(_flat(xv)) and not nx > 0:
            viol('norm-positive', '||x|| = {!r} for x != 0'.format(nx))
        # homogeneity
        sx = space.lincomb(s, x)
        nsx = lib(lambda: space.norm(sx), 'norm')
        if not abs(nsx - abs(s) * nx) <= 2 * rel * abs(s) * nx + tiny:
            viol('homogeneity', '||s x|| = {!r}, |s| ||x|| = {!r}, s = {!r}'
                 ''.format(nsx, abs(s) * nx, s))
        # triangle
        nxy = lib(lambda: space.norm(space.lincomb(1, x, 1, y)),
                  'norm')
        if not nxy <= (nx + ny) * (1 + 2 * rel) + tiny:
            viol('triangle', '||x+y|| = {!r} > ||x|| + ||y|| = {!r}'.format(
                nxy, nx + ny))
        # element method
        if x.norm() != nx:
            viol('element-method', 'x.norm() = {!r}, space.norm(x) = {!r}'
                 ''.format(x.norm(), nx))
    if 'inner' in got:
        ixy = got['inner']
        mxy = got['inner_mag']
        iyx = lib(lambda: space.inner(y, x), 'inner')
        if not abs(np.conj(iyx) - ixy) <= 2 * rel * mxy + tiny:
            viol('conj-symmetry', '<x,y> = {!r}, <y,x> = {!r}'.format(
                ixy, iyx))
        ixx = lib(lambda: space.inner(x, x), 'inner')
        izy = lib(lambda: space.inner(z, y), 'inner')
        _, mzy = norms.inner(node, zv, yv)
        _, mxx = norms.inner(node, xv, xv)
        # positivity
        if not (np.real(ixx) >= 0 and abs(np.imag(ixx)) <= rel * mxx):
            viol('positivity', '<x,x> = {!r}'.format(ixx))
        if (np.real(ixx) == 0) != norms.is_zero(_flat(xv)):
            viol('definiteness', '<x,x> = {!r}, x {} 0'.format(
                ixx, '==' if norms.is_zero(_flat(xv)) else '!='))
        # linearity in the first argument
        u = space.lincomb(s, x, t, z)
        iuy = lib(lambda: space.inner(u, y), 'inner')
        want = s * ixy + t * izy
        scale = abs(s) * mxy + abs(t) * mzy
        if not abs(iuy - want) <= 3 * rel * scale + tiny:
            viol('linearity', '<s x + t z, y> = {!r}, s<x,y> + t<z,y> = {!r}'
                 ' (s = {!r}, t = {!r}, tol {:.3g})'.format(
                     iuy, want, s, t, float(3 * rel * scale)))
        if 'norm' in got:
            nx, ny = got['norm'], space.norm(y)
            # norm = sqrt(inner)
            if not abs(nx * nx - np.real(ixx)) <= 4 * rel * mxx + tiny:
                viol('norm-sqrt-inner', '||x||^2 = {!r}, <x,x> = {!r}'.format(
                    nx * nx, ixx))
            # Cauchy-Schwarz
            if not abs(ixy) <= nx * ny * (1 + 2 * rel) + 2 * rel * mxy + tiny:
                viol('cauchy-schwarz', '|<x,y>| = {!r} > ||x|| ||y|| = {!r}'
                     ''.format(abs(ixy), nx * ny))
        if x.inner(y) != ixy:
            viol('element-method', 'x.inner(y) = {!r}, space.inner(x, y) = '
                 '{!r}'.format(x.inner(y), ixy))
    if 'dist' in got:
        dxy = got['dist']
        dtol = 2 * got['dist_tol']
        dyx = lib(lambda: space.dist(y, x), 'dist')
        if not abs(dxy - dyx) <= dtol:
            viol('dist-symmetry', 'd(x,y) = {!r}, d(y,x) = {!r}'.format(
                dxy, dyx))
        if 'norm' in got:
            nd = lib(lambda: space.norm(space.lincomb(1, x, -1, y)),
                     'norm')
            if not abs(dxy - nd) <= dtol:
                viol('dist-norm', 'd(x,y) = {!r}, ||x-y|| = {!r}'.format(
                    dxy, nd))
        if desc['xclass'] == 'y_eq_x' and dxy != 0.0:
            viol('dist-zero', 'd(x,x) = {!r}'.format(dxy))
        if x.dist(y) != dxy:
            viol('element-method', 'x.dist(y) = {!r}, space.dist(x, y) = '
                 '{!r}'.format(x.dist(y), dxy))

    # (3) custom functions are passed through unchanged
    w = sd.get('weighting')
    if w is not None and w.get('type') == 'custom':
        level = 'pspace' if sd['kind'] == 'pspace' else 'tensor'
        fn = spacex.custom_func(level, w['which'])
        ok = True
        if w['which'] == 'inner' and node['has_inner']:
            ok = space.inner(x, y) == fn(x, y)
        elif w['which'] == 'norm' and node['has_norm']:
            ok = space.norm(x) == float(fn(x))
        elif w['which'] == 'dist' and not unsigned:
            ok = space.dist(x, y) == float(fn(x, y))
        if not ok:
            viol('custom-pass-through', 'space.{0}(...) differs from the '
                 'custom {0} function'.format(w['which']))
        ctx.strata.add('custom-pass-through-checked')

    # (4) arguments untouched
    for name, el, v in (('x', x, xv), ('y', y, yv), ('z', z, zv)):
        now = build.leaf_arrays_of(el)
        if not all(_bits_equal(p, q) for p, q in zip(now, _flat(v))):
            raise Violation('C02|operand-modified|{}|{}'.format(site, region),
                            '{} was modified'.format(name))

    # strata / triviality
    _node_strata(sd, node, ctx)
    total = node['size']
    regime = 'small' if total < 100 else ('medium' if total < 49999
                                          else 'large')
    layouts = set()
    for key in ('x', 'y', 'z'):
        layouts.update(build.flatten_values(_layout_list(desc[key])))
    noncontig = bool(layouts - {'C'})
    if noncontig:
        ctx.strata.add('layout:noncontig')
    ctx.strata.add('regime:' + regime)
    ctx.strata.add('xclass:' + desc['xclass'])
    if desc['xclass'] == 'near':
        ctx.strata.add('pair=near')
        ctx.strata.add('pair=near|{}|w={}{}'.format(
            sd['kind'], node['wkind'],
            ',bdry' if node['leaf'] and node['bdry'] else ''))
    ctx.strata.add('s:' + desc['s']['cls'])
    first = 'top:{}|w={}|p={}'.format(sd['kind'], node['wkind'],
                                      _pclass(node['p']))
    weighted = node['wkind'] not in ('none',) or not node['leaf']
    nontriv = ((weighted or noncontig or total > 50000 or node['p'] != 2.0 or
                (node['leaf'] and node['bdry'])) and
               not (norms.is_zero(_flat(xv)) and norms.is_zero(_flat(yv))))
    return Outcome('ok', strata=[first] + sorted(ctx.strata),
                   nontrivial=nontriv, notes=ctx.notes)


def _layout_list(ed):
    if isinstance(ed, list):
        return [_layout_list(e) for e in ed]
    return ed.get('order', 'C')


# --------------------------------------------------------------------------
# exhaustive sub-space: every per-side nodes_on_bdry combination

EXHAUSTIVE = {
    'quick': ['uniform_discr, 1 axis (sizes 1, 2, 3, 5) and 2 axes (shapes '
              '(2, 3), (1, 2), (3, 3)): every combination of nodes_on_bdry '
              'per axis side x exponent in {2, 1, inf, 1.5} x {cell volume '
              'exactly 1.0, generic limits} x {float64, complex128}, default '
              'weighting, fixed element data'],
    'thorough': ['as quick, plus 3 axes (shape (2, 2, 3)): all 64 per-side '
                 'combinations x exponent in {2, 1.5} x {unit cell volume, '
                 'generic limits}, and constant / array weighting for the '
                 '1- and 2-axis grids with exponent 2'],
}


def _enum_data(shape, dtype, k):
    n = int(np.prod(shape, dtype=int))
    vals = [(((i + k) * 7 + 3) % 11) - 5 + 0.5 * ((i + k) % 2)
            for i in range(n)]
    if np.dtype(dtype).kind == 'c':
        vals = [complex(v, ((i * 5 + k) % 7) - 3) for i, v in enumerate(vals)]
    return {'dtype': dtype, 'shape': list(shape), 'order': 'C',
            'data': np.reshape(np.array(vals, dtype=object), shape).tolist()}


def enumerate_cases(tier):
    import itertools
    shapes = [[1], [2], [3], [5], [2, 3], [1, 2], [3, 3]]
    exps = [2.0, 1.0, INF, 1.5]
    if tier == 'thorough':
        shapes = shapes + [[2, 2, 3]]
    for shape in shapes:
        nd = len(shape)
        sides = list(itertools.product([False, True], repeat=2 * nd))
        for flags in sides:
            nob = [[flags[2 * a], flags[2 * a + 1]] for a in range(nd)]
            if any(n == 1 and l and r for n, (l, r) in zip(shape, nob)):
                continue
            for mode in ('unit', 'generic'):
                mins, maxs = [], []
                for a, (n, (l, r)) in enumerate(zip(shape, nob)):
                    lo = [0.0, -1.0, 0.5][a]
                    if mode == 'unit':
                        ext = (n - (l + r) / 2.0) if n > 1 else 1.0
                    else:
                        ext = [1.7, 0.3, 2.9][a]
                    mins.append(lo)
                    maxs.append(lo + ext)
                wopts = [None]
                if tier == 'thorough' and nd < 3:
                    n = int(np.prod(shape, dtype=int))
                    wopts += [{'type': 'const', 'value': 1.0},
                              {'type': 'const', 'value': 2.5},
                              {'type': 'array', 'data': np.reshape(
                                  [1.0 + 0.5 * (i % 3) for i in range(n)],
                                  shape).tolist()}]
                for w in wopts:
                    for p in (exps if nd < 3 and w is None else
                              ([2.0, 1.5] if w is None else [2.0])):
                        for dtype in (('float64', 'complex128') if nd < 3
                                      and w is None else ('float64',)):
                            sd = {'kind': 'discr', 'min': mins, 'max': maxs,
                                  'shape': list(shape), 'nodes_on_bdry': nob,
                                  'dtype': dtype, 'exponent': p,
                                  'weighting': w}
                            kind = 'cplx' if dtype == 'complex128' else \
                                'real'
                            yield {
                                'space': sd, 'kind': kind,
                                'x': _enum_data(shape, dtype, 0),
                                'y': _enum_data(shape, dtype, 3),
                                'z': _enum_data(shape, dtype, 8),
                                's': {'cls': 'generic', 'value': -1.5},
                                't': {'cls': 'generic', 'value': 0.75},
                                'xclass': 'generic'}
